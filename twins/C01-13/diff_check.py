"""Differential check for C01 refactoring: last_newline via rfind + _parse_data branch clean-up

Compares the refactored werkzeug.sansio.multipart.MultipartDecoder from the
worktree against a verbatim copy of the ORIGINAL class (OrigMultipartDecoder
below) on generated multipart bodies under many different chunkings.  For every
receive_data / next_event call the emitted event, the decoder state, buffer,
_search_position and _parts_decoded, and the type of any exception raised are
compared.  The helpers _parse_data / last_newline are additionally compared
directly on arbitrary buffers.

Run: cd /tmp/wt12-C01 && PYTHONPATH=/tmp/wt12-C01/src /venv/bin/python <this file>
"""
from __future__ import annotations

import random
import re
import sys
import typing as t

import werkzeug.sansio.multipart as M
from werkzeug.datastructures import Headers
from werkzeug.exceptions import RequestEntityTooLarge
from werkzeug.http import parse_options_header
from werkzeug.sansio.multipart import BLANK_LINE_RE
from werkzeug.sansio.multipart import Data
from werkzeug.sansio.multipart import Epilogue
from werkzeug.sansio.multipart import Event
from werkzeug.sansio.multipart import Field
from werkzeug.sansio.multipart import File
from werkzeug.sansio.multipart import HEADER_CONTINUATION_RE
from werkzeug.sansio.multipart import LINE_BREAK
from werkzeug.sansio.multipart import LINE_BREAK_RE
from werkzeug.sansio.multipart import NEED_DATA
from werkzeug.sansio.multipart import NeedData
from werkzeug.sansio.multipart import Preamble
from werkzeug.sansio.multipart import SEARCH_EXTRA_LENGTH
from werkzeug.sansio.multipart import State

assert M.__file__.startswith("/tmp/wt12-C01/"), M.__file__


# ---------------------------------------------------------------------------
# ORIGINAL implementation (verbatim copy from the unmodified tree)
# ---------------------------------------------------------------------------
class OrigMultipartDecoder:
    """Decodes a multipart message as bytes into Python events.

    The part data is returned as available to allow the caller to save
    the data from memory to disk, if desired.
    """

    def __init__(
        self,
        boundary: bytes,
        max_form_memory_size: int | None = None,
        *,
        max_parts: int | None = None,
    ) -> None:
        self.buffer = bytearray()
        self.complete = False
        self.max_form_memory_size = max_form_memory_size
        self.max_parts = max_parts
        self.state = State.PREAMBLE
        self.boundary = boundary

        # Note in the below \h i.e. horizontal whitespace is used
        # as [^\S\n\r] as \h isn't supported in python.

        # The preamble must end with a boundary where the boundary is
        # prefixed by a line break, RFC2046. Except that many
        # implementations including Werkzeug's tests omit the line
        # break prefix. In addition the first boundary could be the
        # epilogue boundary (for empty form-data) hence the matching
        # group to understand if it is an epilogue boundary.
        self.preamble_re = re.compile(
            rb"%s?--%s(--[^\S\n\r]*%s?|[^\S\n\r]*%s)"
            % (LINE_BREAK, re.escape(boundary), LINE_BREAK, LINE_BREAK),
            re.MULTILINE,
        )
        # A boundary must include a line break prefix and suffix, and
        # may include trailing whitespace. In addition the boundary
        # could be the epilogue boundary hence the matching group to
        # understand if it is an epilogue boundary.
        self.boundary_re = re.compile(
            rb"%s--%s(--[^\S\n\r]*%s?|[^\S\n\r]*%s)"
            % (LINE_BREAK, re.escape(boundary), LINE_BREAK, LINE_BREAK),
            re.MULTILINE,
        )
        self._search_position = 0
        self._parts_decoded = 0

    def last_newline(self, data: bytes) -> int:
        try:
            last_nl = data.rindex(b"\n")
        except ValueError:
            last_nl = len(data)
        try:
            last_cr = data.rindex(b"\r")
        except ValueError:
            last_cr = len(data)

        return min(last_nl, last_cr)

    def receive_data(self, data: bytes | None) -> None:
        if data is None:
            self.complete = True
        elif (
            self.max_form_memory_size is not None
            and len(self.buffer) + len(data) > self.max_form_memory_size
        ):
            # Ensure that data within single event does not exceed limit.
            # Also checked across accumulated events in MultiPartParser.
            raise RequestEntityTooLarge()
        else:
            self.buffer.extend(data)

    def next_event(self) -> Event:
        event: Event = NEED_DATA

        if self.state == State.PREAMBLE:
            match = self.preamble_re.search(self.buffer, self._search_position)
            if match is not None:
                if match.group(1).startswith(b"--"):
                    self.state = State.EPILOGUE
                else:
                    self.state = State.PART
                data = bytes(self.buffer[: match.start()])
                del self.buffer[: match.end()]
                event = Preamble(data=data)
                self._search_position = 0
            else:
                # Update the search start position to be equal to the
                # current buffer length (already searched) minus a
                # safe buffer for part of the search target.
                self._search_position = max(
                    0, len(self.buffer) - len(self.boundary) - SEARCH_EXTRA_LENGTH
                )

        elif self.state == State.PART:
            match = BLANK_LINE_RE.search(self.buffer, self._search_position)
            if match is not None:
                headers = self._parse_headers(self.buffer[: match.start()])
                # The final header ends with a single CRLF, however a
                # blank line indicates the start of the
                # body. Therefore the end is after the first CRLF.
                headers_end = (match.start() + match.end()) // 2
                del self.buffer[:headers_end]

                if "content-disposition" not in headers:
                    raise ValueError("Missing Content-Disposition header")

                disposition, extra = parse_options_header(
                    headers["content-disposition"]
                )
                name = t.cast(str, extra.get("name"))
                filename = extra.get("filename")
                if filename is not None:
                    event = File(
                        filename=filename,
                        headers=headers,
                        name=name,
                    )
                else:
                    event = Field(
                        headers=headers,
                        name=name,
                    )
                self.state = State.DATA_START
                self._search_position = 0
                self._parts_decoded += 1

                if self.max_parts is not None and self._parts_decoded > self.max_parts:
                    raise RequestEntityTooLarge()
            else:
                # Update the search start position to be equal to the
                # current buffer length (already searched) minus a
                # safe buffer for part of the search target.
                self._search_position = max(0, len(self.buffer) - SEARCH_EXTRA_LENGTH)

        elif self.state == State.DATA_START:
            data, del_index, more_data = self._parse_data(self.buffer, start=True)
            del self.buffer[:del_index]
            event = Data(data=data, more_data=more_data)
            if more_data:
                self.state = State.DATA

        elif self.state == State.DATA:
            data, del_index, more_data = self._parse_data(self.buffer, start=False)
            del self.buffer[:del_index]
            if data or not more_data:
                event = Data(data=data, more_data=more_data)

        elif self.state == State.EPILOGUE and self.complete:
            event = Epilogue(data=bytes(self.buffer))
            del self.buffer[:]
            self.state = State.COMPLETE

        if self.complete and isinstance(event, NeedData):
            raise ValueError(f"Invalid form-data cannot parse beyond {self.state}")

        return event

    def _parse_headers(self, data: bytes) -> Headers:
        headers: list[tuple[str, str]] = []
        # Merge the continued headers into one line
        data = HEADER_CONTINUATION_RE.sub(b" ", data)
        # Now there is one header per line
        for line in data.splitlines():
            line = line.strip()

            if line != b"":
                name, _, value = line.decode().partition(":")
                headers.append((name.strip(), value.strip()))
        return Headers(headers)

    def _parse_data(self, data: bytes, *, start: bool) -> tuple[bytes, int, bool]:
        # Body parts must start with CRLF (or CR or LF)
        if start:
            match = LINE_BREAK_RE.match(data)
            data_start = t.cast(t.Match[bytes], match).end()
        else:
            data_start = 0

        boundary = b"--" + self.boundary

        if self.buffer.find(boundary) == -1:
            # No complete boundary in the buffer, but there may be
            # a partial boundary at the end. As the boundary
            # starts with either a nl or cr find the earliest and
            # return up to that as data.
            data_end = del_index = self.last_newline(data[data_start:]) + data_start
            # If amount of data after last newline is far from
            # possible length of partial boundary, we should
            # assume that there is no partial boundary in the buffer
            # and return all pending data.
            if (len(data) - data_end) > len(b"\n" + boundary):
                data_end = del_index = len(data)
            more_data = True
        else:
            match = self.boundary_re.search(data)
            if match is not None:
                if match.group(1).startswith(b"--"):
                    self.state = State.EPILOGUE
                else:
                    self.state = State.PART
                data_end = match.start()
                del_index = match.end()
            else:
                data_end = del_index = self.last_newline(data[data_start:]) + data_start
            more_data = match is None

        return bytes(data[data_start:data_end]), del_index, more_data


# ---------------------------------------------------------------------------
# Input generation
# ---------------------------------------------------------------------------

LBS = [b"\r\n", b"\n", b"\r"]
BOUNDARIES = [b"boundary", b"b", b"----WebKitFormBoundaryABC123", b"a-b", b"x" * 40,
              b"foo.bar", b"(+)", b"--", b"-"]


def rand_payload(rng, boundary):
    kind = rng.randrange(9)
    if kind == 0:
        return b""
    if kind == 1:
        return bytes(rng.randrange(256) for _ in range(rng.randrange(1, 60)))
    if kind == 2:
        # lots of newlines / dashes / partial boundaries
        toks = [b"\r", b"\n", b"\r\n", b"-", b"--", b"--" + boundary[: max(1, len(boundary) // 2)],
                b"\r\n--" + boundary[:-1], b"a", b"xyz", b" ", b"\r\n--", b"\n--" + boundary[:1]]
        return b"".join(rng.choice(toks) for _ in range(rng.randrange(1, 25)))
    if kind == 3:
        return b"x" * rng.randrange(1, 300)
    if kind == 4:
        return (b"line" + rng.choice(LBS)) * rng.randrange(1, 20)
    if kind == 5:
        # ends with line breaks
        return b"abc" + rng.choice(LBS) * rng.randrange(1, 4)
    if kind == 6:
        # starts with line breaks
        return rng.choice(LBS) * rng.randrange(1, 4) + b"abc"
    if kind == 7:
        # contains the bare boundary without preceding line break
        return b"zz--" + boundary + b"zz" + rng.choice([b"", b"\r\n", b"\r\nq"])
    return "snow☃man \xe9".encode() * rng.randrange(1, 5)


def rand_headers(rng, lb, idx):
    name = rng.choice(["a", "field%d" % idx, "f o", "", "é", "x" * 20])
    lines = []
    cd = 'form-data; name="%s"' % name
    is_file = rng.random() < 0.45
    if is_file:
        cd += '; filename="%s"' % rng.choice(["t.txt", "", "a b.bin", "☃.png"])
    r = rng.random()
    if r < 0.06:
        pass  # no content-disposition
    elif r < 0.12:
        lines.append(b"content-disposition:" + cd.encode())
    elif r < 0.2:
        # folded header
        a, _, b = cd.partition("; ")
        lines.append(b"Content-Disposition: " + a.encode() + b";" + lb + rng.choice([b" ", b"\t"]) + b.encode())
    else:
        lines.append(b"Content-Disposition: " + cd.encode())
    if rng.random() < 0.4:
        lines.append(b"Content-Type: " + rng.choice([b"text/plain", b"text/plain; charset=utf-8",
                                                       b"text/plain; charset=iso-8859-1",
                                                       b"application/octet-stream", b"text/x; charset=bogus"]))
    if rng.random() < 0.2:
        lines.append(b"Content-Length: " + rng.choice([b"3", b"abc", b"-1", b"100"]))
    if rng.random() < 0.1:
        lines.append(b"X-Junk")
    if rng.random() < 0.03:
        lines.append(b"X-Bad: \xff\xfe")
    rng.shuffle(lines)
    return lb.join(lines)


def rand_body(rng):
    boundary = rng.choice(BOUNDARIES)
    mixed = rng.random() < 0.2
    base_lb = rng.choice(LBS)

    def lb():
        return rng.choice(LBS) if mixed else base_lb

    out = bytearray()
    # preamble
    r = rng.random()
    if r < 0.3:
        out += rng.choice([b"preamble", b"pre" + lb() + b"amble", b"x" * 50, b"--", b"--" + boundary[:-1]])
        out += lb()
    elif r < 0.4:
        out += lb()
    nparts = rng.choice([0, 1, 1, 2, 3, 5])
    for i in range(nparts):
        out += b"--" + boundary + rng.choice([b"", b"", b" ", b" \t"]) + lb()
        l = lb()
        out += rand_headers(rng, l, i)
        r = rng.random()
        if r < 0.04:
            out += l  # missing blank line
        elif r < 0.08:
            out += l + l + b"X"[:0]
            out += b""  # normal
        else:
            out += l + l
        if rng.random() < 0.03:
            # header block immediately followed by non line break (not reachable
            # normally, but keep generator broad)
            pass
        out += rand_payload(rng, boundary)
        out += lb()
    r = rng.random()
    if r < 0.8:
        out += b"--" + boundary + b"--" + rng.choice([b"", lb(), b" " + lb(), lb() + b"epilogue", lb() + b"epi" + lb() + b"logue"])
    elif r < 0.9:
        out += b"--" + boundary + lb()  # open part, never terminated
    # else: no closing boundary at all
    body = bytes(out)
    r = rng.random()
    if r < 0.1 and body:
        body = body[: rng.randrange(len(body))]  # truncated
    elif r < 0.13 and body:
        i = rng.randrange(len(body))
        body = body[:i] + bytes([rng.randrange(256)]) + body[i + 1:]
    return boundary, body


def rand_chunking(rng, body):
    """Return list of chunks whose concatenation is body (may include empty chunks)."""
    n = len(body)
    mode = rng.randrange(7)
    if mode == 0 or n == 0:
        chunks = [body]
    elif mode == 1:
        chunks = [body[i:i + 1] for i in range(n)]
    elif mode == 2:
        k = rng.randrange(1, 12)
        chunks = [body[i:i + k] for i in range(0, n, k)]
    elif mode == 3:
        k = rng.randrange(12, 200)
        chunks = [body[i:i + k] for i in range(0, n, k)]
    elif mode == 4:
        cuts = sorted(rng.randrange(n + 1) for _ in range(rng.randrange(1, 10)))
        chunks = [body[a:b] for a, b in zip([0] + cuts, cuts + [n])]
    elif mode == 5:
        # cut around every CR / LF / dash
        cuts = sorted({i + rng.choice([0, 1]) for i, c in enumerate(body) if c in b"\r\n-" and rng.random() < 0.5})
        chunks = [body[a:b] for a, b in zip([0] + cuts, cuts + [n])]
    else:
        chunks = []
        i = 0
        while i < n:
            k = rng.choice([1, 2, 3, 5, 8, 13, 64, 1000])
            chunks.append(body[i:i + k])
            i += k
    return chunks


# ---------------------------------------------------------------------------
# Differential driver
# ---------------------------------------------------------------------------
def norm_event(ev):
    if isinstance(ev, M.Preamble):
        return ("Preamble", ev.data)
    if isinstance(ev, M.Field):
        return ("Field", ev.name, list(ev.headers))
    if isinstance(ev, M.File):
        return ("File", ev.name, ev.filename, list(ev.headers))
    if isinstance(ev, M.Data):
        return ("Data", ev.data, ev.more_data)
    if isinstance(ev, M.Epilogue):
        return ("Epilogue", ev.data)
    if isinstance(ev, M.NeedData):
        return ("NeedData",)
    return ("?", repr(ev))


def snapshot(dec):
    return (dec.state.name, bytes(dec.buffer), dec._search_position, dec._parts_decoded, dec.complete)


def run(cls, boundary, chunks, kw):
    """Feed chunks; return full trace: every event, decoder snapshot after each
    call and the type of the exception that stopped decoding (if any)."""
    dec = cls(boundary, **kw)
    trace = []
    try:
        for chunk in chunks + [None]:
            dec.receive_data(chunk)
            trace.append(("recv", snapshot(dec)))
            while True:
                ev = dec.next_event()
                trace.append((norm_event(ev), snapshot(dec)))
                if isinstance(ev, (M.NeedData, M.Epilogue)):
                    break
    except Exception as e:  # noqa: B902
        trace.append(("EXC", type(e).__name__, snapshot(dec)))
    return trace


def call(fn, *a, **kw):
    try:
        return ("ok", fn(*a, **kw))
    except Exception as e:  # noqa: B902
        return ("exc", type(e).__name__)


def main():
    rng = random.Random(20240612)
    n_cases = 0
    n_exc = 0
    n_complete = 0
    failures = 0

    # 1. whole-decoder traces under many chunkings
    for _ in range(4000):
        boundary, body = rand_body(rng)
        r = rng.random()
        kw = {}
        if r < 0.15:
            kw["max_form_memory_size"] = rng.choice([0, 1, 10, 50, 200, 10000])
        if rng.random() < 0.15:
            kw["max_parts"] = rng.choice([0, 1, 2, 10])
        for _ in range(4):
            chunks = rand_chunking(rng, body)
            a = run(OrigMultipartDecoder, boundary, chunks, kw)
            b = run(M.MultipartDecoder, boundary, chunks, kw)
            n_cases += 1
            if a[-1][0] == "EXC":
                n_exc += 1
            elif a[-1][0][0] == "Epilogue":
                n_complete += 1
            if a != b:
                failures += 1
                if failures <= 5:
                    print("MISMATCH", boundary, chunks, kw)
                    for x, y in zip(a, b):
                        if x != y:
                            print("  orig:", x)
                            print("  new: ", y)
                            break

    # 2. direct calls of the helpers on arbitrary buffers (also states that the
    #    decoder loop itself never produces, e.g. data that is not self.buffer)
    toks = [b"\r", b"\n", b"\r\n", b"-", b"--", b"a", b"bc", b" ", b"\t", b"--x", b"\n--"]
    for _ in range(6000):
        boundary = rng.choice(BOUNDARIES)
        t2 = toks + [boundary, b"--" + boundary, b"\r\n--" + boundary, b"--" + boundary + b"--",
                     boundary[: len(boundary) // 2 + 1]]
        data = b"".join(rng.choice(t2) for _ in range(rng.randrange(0, 30)))
        if rng.random() < 0.5:
            data += b"z" * rng.randrange(0, len(boundary) + 8)
        same_buf = rng.random() < 0.8
        other = b"".join(rng.choice(t2) for _ in range(rng.randrange(0, 10)))
        start = rng.random() < 0.5
        res = []
        for cls in (OrigMultipartDecoder, M.MultipartDecoder):
            dec = cls(boundary)
            dec.buffer.extend(data if same_buf else other)
            dec.state = M.State.DATA_START if start else M.State.DATA
            arg = dec.buffer if (same_buf and rng.random() < 2) else data
            r1 = call(dec._parse_data, arg, start=start)
            r2 = call(dec.last_newline, data)
            r3 = call(dec.last_newline, bytearray(data))
            res.append((r1, r2, r3, snapshot(dec)))
        n_cases += 1
        if res[0] != res[1]:
            failures += 1
            if failures <= 5:
                print("MISMATCH helper", boundary, data, start, res)

    print("cases=%d (decoder traces ending in exception=%d, complete=%d) failures=%d"
          % (n_cases, n_exc, n_complete, failures))
    print("PASS" if failures == 0 else "FAIL")
    return 0 if failures == 0 else 1


if __name__ == "__main__":
    sys.exit(main())
