"""Differential check for property C19 (werkzeug development server transport).

Compares the implementation found in the worktree (``werkzeug.serving`` as
imported through PYTHONPATH) against a verbatim copy of the ORIGINAL
implementation (DechunkedInput, WSGIRequestHandler.make_environ and
WSGIRequestHandler.run_wsgi taken from the unmodified tree, pasted below; the
only textual change is the relative import ``from .debug.tbtools`` being made
absolute).

Three layers are compared on generated inputs:
  A. DechunkedInput driven directly (every chunk framing, malformed framing,
     truncated streams, many read patterns: read/readinto/readline/buffered).
  B. make_environ on stub handlers (paths, query strings, header sets,
     client_address shapes, TLS peer certificate outcomes).
  C. Full request/response cycles over a socketpair: raw request bytes in,
     (what the application saw, log calls, raw response bytes) out, for many
     application behaviours (statuses, Content-Length or not, write() callable,
     generators, errors before/after headers, exc_info, HEAD, HTTP/1.0 + 1.1).

Prints PASS only if every output / exception type+message is identical.

Run: cd /tmp/wt6-C19 && PYTHONPATH=/tmp/wt6-C19/src /venv/bin/python diff_check.py
"""

from __future__ import annotations

import http.client
import io
import random
import selectors
import socket
import sys
import typing as t
from http.server import BaseHTTPRequestHandler
from urllib.parse import unquote
from urllib.parse import urlsplit

import werkzeug.serving as S
from werkzeug._internal import _wsgi_encoding_dance
from werkzeug.exceptions import InternalServerError
from werkzeug.serving import connection_dropped_errors
from werkzeug.serving import ssl

assert S.__file__.startswith("/tmp/wt6-C19/src/"), S.__file__

if t.TYPE_CHECKING:
    from _typeshed.wsgi import WSGIApplication
    from _typeshed.wsgi import WSGIEnvironment

# ---------------------------------------------------------------------------
# ORIGINAL implementation, copied verbatim from the unmodified serving.py
# ---------------------------------------------------------------------------


class DechunkedInput(io.RawIOBase):
    """An input stream that handles Transfer-Encoding 'chunked'"""

    def __init__(self, rfile: t.IO[bytes]) -> None:
        self._rfile = rfile
        self._done = False
        self._len = 0

    def readable(self) -> bool:
        return True

    def read_chunk_len(self) -> int:
        try:
            line = self._rfile.readline().decode("latin1")
            _len = int(line.strip(), 16)
        except ValueError as e:
            raise OSError("Invalid chunk header") from e
        if _len < 0:
            raise OSError("Negative chunk length not allowed")
        return _len

    def readinto(self, buf: bytearray) -> int:  # type: ignore
        read = 0
        while not self._done and read < len(buf):
            if self._len == 0:
                # This is the first chunk or we fully consumed the previous
                # one. Read the next length of the next chunk
                self._len = self.read_chunk_len()

            if self._len == 0:
                # Found the final chunk of size 0. The stream is now exhausted,
                # but there is still a final newline that should be consumed
                self._done = True

            if self._len > 0:
                # There is data (left) in this chunk, so append it to the
                # buffer. If this operation fully consumes the chunk, this will
                # reset self._len to 0.
                n = min(len(buf), self._len)

                # If (read + chunk size) becomes more than len(buf), buf will
                # grow beyond the original size and read more data than
                # required. So only read as much data as can fit in buf.
                if read + n > len(buf):
                    n = len(buf) - read

                data = self._rfile.read(n)

                # A short read means the stream ended inside the chunk. Don't
                # splice it into buf, that would resize the caller's buffer.
                if len(data) != n:
                    raise OSError("Unexpected end of chunked data")

                buf[read : read + n] = data
                self._len -= n
                read += n

            if self._len == 0:
                # Skip the terminating newline of a chunk that has been fully
                # consumed. This also applies to the 0-sized final chunk
                terminator = self._rfile.readline()
                if terminator not in (b"\n", b"\r\n", b"\r"):
                    raise OSError("Missing chunk terminating newline")

        return read

OrigDechunkedInput = DechunkedInput  # noqa: F821


class OrigHandler(S.WSGIRequestHandler):
    def make_environ(self) -> WSGIEnvironment:
        request_url = urlsplit(self.path)
        url_scheme = "http" if self.server.ssl_context is None else "https"

        if not self.client_address:
            self.client_address = ("<local>", 0)
        elif isinstance(self.client_address, str):
            self.client_address = (self.client_address, 0)

        # If there was no scheme but the path started with two slashes,
        # the first segment may have been incorrectly parsed as the
        # netloc, prepend it to the path again.
        if not request_url.scheme and request_url.netloc:
            path_info = f"/{request_url.netloc}{request_url.path}"
        else:
            path_info = request_url.path

        path_info = unquote(path_info)

        environ: WSGIEnvironment = {
            "wsgi.version": (1, 0),
            "wsgi.url_scheme": url_scheme,
            "wsgi.input": self.rfile,
            "wsgi.errors": sys.stderr,
            "wsgi.multithread": self.server.multithread,
            "wsgi.multiprocess": self.server.multiprocess,
            "wsgi.run_once": False,
            "werkzeug.socket": self.connection,
            "SERVER_SOFTWARE": self.server_version,
            "REQUEST_METHOD": self.command,
            "SCRIPT_NAME": "",
            "PATH_INFO": _wsgi_encoding_dance(path_info),
            "QUERY_STRING": _wsgi_encoding_dance(request_url.query),
            # Non-standard, added by mod_wsgi, uWSGI
            "REQUEST_URI": _wsgi_encoding_dance(self.path),
            # Non-standard, added by gunicorn
            "RAW_URI": _wsgi_encoding_dance(self.path),
            "REMOTE_ADDR": self.address_string(),
            "REMOTE_PORT": self.port_integer(),
            "SERVER_NAME": self.server.server_address[0],
            "SERVER_PORT": str(self.server.server_address[1]),
            "SERVER_PROTOCOL": self.request_version,
        }

        for key, value in self.headers.items():
            if "_" in key:
                continue

            key = key.upper().replace("-", "_")
            value = value.replace("\r\n", "")
            if key not in ("CONTENT_TYPE", "CONTENT_LENGTH"):
                key = f"HTTP_{key}"
                if key in environ:
                    value = f"{environ[key]},{value}"
            environ[key] = value

        if environ.get("HTTP_TRANSFER_ENCODING", "").strip().lower() == "chunked":
            environ["wsgi.input_terminated"] = True
            environ["wsgi.input"] = DechunkedInput(environ["wsgi.input"])

        # Per RFC 2616, if the URL is absolute, use that as the host.
        # We're using "has a scheme" to indicate an absolute URL.
        if request_url.scheme and request_url.netloc:
            environ["HTTP_HOST"] = request_url.netloc

        try:
            # binary_form=False gives nicer information, but wouldn't be compatible with
            # what Nginx or Apache could return.
            peer_cert = self.connection.getpeercert(binary_form=True)
            if peer_cert is not None:
                # Nginx and Apache use PEM format.
                environ["SSL_CLIENT_CERT"] = ssl.DER_cert_to_PEM_cert(peer_cert)
        except ValueError:
            # SSL handshake hasn't finished.
            self.server.log("error", "Cannot fetch SSL peer certificate info")
        except AttributeError:
            # Not using TLS, the socket will not have getpeercert().
            pass

        return environ

    def run_wsgi(self) -> None:
        if self.headers.get("Expect", "").lower().strip() == "100-continue":
            self.wfile.write(b"HTTP/1.1 100 Continue\r\n\r\n")

        self.environ = environ = self.make_environ()
        status_set: str | None = None
        headers_set: list[tuple[str, str]] | None = None
        status_sent: str | None = None
        headers_sent: list[tuple[str, str]] | None = None
        chunk_response: bool = False

        def write(data: bytes) -> None:
            nonlocal status_sent, headers_sent, chunk_response
            assert status_set is not None, "write() before start_response"
            assert headers_set is not None, "write() before start_response"
            if status_sent is None:
                status_sent = status_set
                headers_sent = headers_set
                try:
                    code_str, msg = status_sent.split(None, 1)
                except ValueError:
                    code_str, msg = status_sent, ""
                code = int(code_str)
                self.send_response(code, msg)
                header_keys = set()
                for key, value in headers_sent:
                    self.send_header(key, value)
                    header_keys.add(key.lower())

                # Use chunked transfer encoding if there is no content
                # length. Do not use for 1xx and 204 responses. 304
                # responses and HEAD requests are also excluded, which
                # is the more conservative behavior and matches other
                # parts of the code.
                # https://httpwg.org/specs/rfc7230.html#rfc.section.3.3.1
                if (
                    not (
                        "content-length" in header_keys
                        or environ["REQUEST_METHOD"] == "HEAD"
                        or (100 <= code < 200)
                        or code in {204, 304}
                    )
                    and self.protocol_version >= "HTTP/1.1"
                ):
                    chunk_response = True
                    self.send_header("Transfer-Encoding", "chunked")

                # Always close the connection. This disables HTTP/1.1
                # keep-alive connections. They aren't handled well by
                # Python's http.server because it doesn't know how to
                # drain the stream before the next request line.
                self.send_header("Connection", "close")
                self.end_headers()

            assert isinstance(data, bytes), "applications must write bytes"

            if data:
                if chunk_response:
                    self.wfile.write(hex(len(data))[2:].encode())
                    self.wfile.write(b"\r\n")

                self.wfile.write(data)

                if chunk_response:
                    self.wfile.write(b"\r\n")

            self.wfile.flush()

        def start_response(status, headers, exc_info=None):  # type: ignore
            nonlocal status_set, headers_set
            if exc_info:
                try:
                    if headers_sent:
                        raise exc_info[1].with_traceback(exc_info[2])
                finally:
                    exc_info = None
            elif headers_set:
                raise AssertionError("Headers already set")
            status_set = status
            headers_set = headers
            return write

        def execute(app: WSGIApplication) -> None:
            application_iter = app(environ, start_response)
            try:
                for data in application_iter:
                    write(data)
                if not headers_sent:
                    write(b"")
                if chunk_response:
                    self.wfile.write(b"0\r\n\r\n")
            finally:
                # Check for any remaining data in the read socket, and discard it. This
                # will read past request.max_content_length, but lets the client see a
                # 413 response instead of a connection reset failure. If we supported
                # keep-alive connections, this naive approach would break by reading the
                # next request line. Since we know that write (above) closes every
                # connection we can read everything.
                selector = selectors.DefaultSelector()
                selector.register(self.connection, selectors.EVENT_READ)
                total_size = 0
                total_reads = 0

                # A timeout of 0 tends to fail because a client needs a small amount of
                # time to continue sending its data.
                while selector.select(timeout=0.01):
                    # Only read 10MB into memory at a time.
                    data = self.rfile.read(10_000_000)
                    total_size += len(data)
                    total_reads += 1

                    # Stop reading on no data, >=10GB, or 1000 reads. If a client sends
                    # more than that, they'll get a connection reset failure.
                    if not data or total_size >= 10_000_000_000 or total_reads > 1000:
                        break

                selector.close()

                if hasattr(application_iter, "close"):
                    application_iter.close()

        try:
            execute(self.server.app)
        except connection_dropped_errors as e:
            self.connection_dropped(e, environ)
        except Exception as e:
            if self.server.passthrough_errors:
                raise

            if status_sent is not None and chunk_response:
                self.close_connection = True

            try:
                # if we haven't yet sent the headers but they are set
                # we roll back to be able to set them again.
                if status_sent is None:
                    status_set = None
                    headers_set = None
                execute(InternalServerError())
            except Exception:
                pass

            from werkzeug.debug.tbtools import DebugTraceback

            msg = DebugTraceback(e).render_traceback_text()
            self.server.log("error", f"Error on request:\n{msg}")

NewDechunkedInput = S.DechunkedInput
NewHandler = S.WSGIRequestHandler

# ---------------------------------------------------------------------------
# determinism helpers
# ---------------------------------------------------------------------------
BaseHTTPRequestHandler.date_time_string = lambda self, timestamp=None: "DATE"  # type: ignore
BaseHTTPRequestHandler.log_date_time_string = lambda self: "LOGDATE"  # type: ignore

LOG: list = []


def _capture_log(type, message, *args, **kwargs):  # type: ignore
    try:
        text = message % args if args else message
    except Exception as e:  # pragma: no cover
        text = f"<fmt error {e!r}> {message!r} {args!r}"
    if "Traceback" in text or "Error on request" in text:
        # file names / line numbers differ between the pasted copy and the
        # module; keep only the final "ExcType: message" line.
        text = "TB:" + text.rstrip().splitlines()[-1]
    LOG.append((type, text))


S._log = _capture_log  # type: ignore

failures: list = []
counts = {"A": 0, "B": 0, "C": 0}


def outcome(fn, *a, **kw):  # type: ignore
    try:
        return ("ok", fn(*a, **kw))
    except BaseException as e:  # noqa: B036
        if isinstance(e, (KeyboardInterrupt, SystemExit)):
            raise
        return ("exc", type(e).__name__, str(e))


# ---------------------------------------------------------------------------
# A. DechunkedInput
# ---------------------------------------------------------------------------
SIZE_FORMATS = [
    "{:x}",
    "{:x}",
    "{:x}",
    "{:X}",
    "{:05x}",
    " {:x} ",
    "{:x}\t",
    "\t{:X}",
    "{:x};ext=1",
    "0x{:x}",
    "+{:x}",
    "-{:x}",
    "{:x}_0",
    "{:x} 1",
]
LINE_ENDS = [b"\r\n", b"\r\n", b"\r\n", b"\n", b"\r", b"", b" \r\n", b"\r\r\n"]
TERMS = [b"\r\n", b"\r\n", b"\r\n", b"\r\n", b"\n", b"\r", b"", b"X\r\n", b" \r\n", b"\n\n"]
BAD_LINES = [b"", b"\r\n", b"zz\r\n", b"\xff\r\n", b"-1\r\n", b"-0\r\n", b"1.5\r\n", b"\xb2\r\n", b"1e3\r\n", b"  \r\n"]


def gen_chunked(rng: random.Random, wellformed: bool) -> tuple[bytes, bytes]:
    size = rng.choice([0, 1, 2, 5, 16, 17, 64, 100, 255, 256, 1000, rng.randint(0, 3000)])
    alphabet = rng.choice([b"ab\r\n", bytes(range(256)), b"0123456789abcdef\r\n;"])
    body = bytes(rng.choice(alphabet) for _ in range(size))
    out = []
    pos = 0
    while pos < len(body):
        k = rng.choice([1, 1, 2, 3, 5, 15, 16, 17, 100, 255, 256, rng.randint(1, 1200)])
        chunk = body[pos : pos + k]
        pos += len(chunk)
        if wellformed:
            fmt = rng.choice(SIZE_FORMATS[:8])
            le = rng.choice(LINE_ENDS[:4])
            term = rng.choice(TERMS[:5])
            if term == b"\r":
                term = b"\r\n"
            if le == b"\r":
                le = b"\n"
            declared = len(chunk)
        else:
            fmt = rng.choice(SIZE_FORMATS)
            le = rng.choice(LINE_ENDS)
            term = rng.choice(TERMS)
            declared = len(chunk)
            r = rng.random()
            if r < 0.05:
                declared += rng.choice([1, 2, 3, 100])
            elif r < 0.1 and declared > 1:
                declared -= 1
            elif r < 0.13:
                out.append(rng.choice(BAD_LINES))
        out.append(fmt.format(declared).encode("latin1") + le + chunk + term)
    if wellformed or rng.random() < 0.7:
        zero = rng.choice(["0", "0", "00", " 0 ", "0x0"] if not wellformed else ["0", "0", "000", " 0"])
        le = rng.choice(LINE_ENDS[:4] if wellformed else LINE_ENDS)
        if wellformed and le == b"\r":
            le = b"\r\n"
        term = rng.choice(TERMS[:5] if wellformed else TERMS)
        if wellformed and term == b"\r":
            term = b"\n"
        out.append(zero.encode() + le + term)
    if rng.random() < 0.4:
        out.append(rng.choice([b"GET / HTTP/1.1\r\n\r\n", b"trailer: x\r\n\r\n", b"\r\n", b"5\r\nhello\r\n"]))
    raw = b"".join(out)
    if not wellformed and rng.random() < 0.3 and raw:
        raw = raw[: rng.randint(0, len(raw))]
    return body, raw


class _RecordingBytesIO(io.BytesIO):
    short = False

    def read(self, n=-1):  # type: ignore
        data = super().read(n)
        if n is not None and n >= 0 and len(data) < n:
            self.short = True
        return data


def has_short_read(raw: bytes) -> bool:
    """True if decoding ``raw`` ever makes the underlying file return fewer
    bytes than the chunk header promised (truncated stream).  In that case the
    ORIGINAL code shrinks the caller's buffer but still reports the full count;
    going through the C-level ``RawIOBase.read`` then reads uninitialised
    memory (can even segfault), so such streams are only driven through
    ``readinto`` on Python-level buffers, where the result is deterministic."""
    rfile = _RecordingBytesIO(raw)
    d = OrigDechunkedInput(rfile)
    for _ in range(len(raw) + 5):
        try:
            if d.readinto(bytearray(1)) == 0:
                break
        except OSError:
            # callers may keep reading after a framing error
            continue
    return rfile.short


READ_SIZES = [-1, 0, 1, 1, 2, 3, 4, 7, 8, 15, 16, 17, 64, 100, 1000, 5000, None]


def gen_ops(rng: random.Random, short: bool = False) -> list:
    mode = rng.choice(["read", "readinto", "readinto_mv", "mixed", "buffered", "readall", "lines", "one"])
    if short:
        mode = rng.choice(["readinto", "readinto", "readinto_mv"])
    ops = []
    n_ops = rng.randint(1, 60)
    if mode == "readall":
        return [("readall",), ("read", 5), ("readall",)]
    if mode == "one":
        k = rng.choice([1, 2, 3, 5, 16])
        return [("read", k)] * rng.randint(1, 400)
    if mode == "lines":
        return rng.choice(
            [
                [("readlines",), ("readline", -1)],
                [("iter",), ("read", -1)],
                [("readline", rng.choice([-1, 1, 5, 100]))] * n_ops,
            ]
        )
    if mode == "buffered":
        bs = rng.choice([1, 2, 7, 16, 100, 8192])
        ops.append(("wrap", bs))
        for _ in range(n_ops):
            ops.append(
                (
                    rng.choice(["b_read", "b_read", "b_read1", "b_readline", "b_peek", "b_readinto"]),
                    rng.choice(READ_SIZES[:-1]),
                )
            )
        return ops
    for _ in range(n_ops):
        m = mode
        if m == "mixed":
            m = rng.choice(["read", "readinto", "readinto_mv", "readline"])
        if m == "read":
            ops.append(("read", rng.choice(READ_SIZES)))
        elif m == "readline":
            ops.append(("readline", rng.choice([-1, 1, 3, 50])))
        else:
            ops.append((m, rng.choice([0, 1, 2, 3, 7, 16, 17, 100, 1000, 4096])))
    return ops


def run_ops(cls, raw: bytes, ops: list) -> list:  # type: ignore
    rfile = io.BytesIO(raw)
    d = cls(rfile)
    buffered = None
    rec: list = []
    for op in ops:
        name = op[0]
        if name == "wrap":
            buffered = io.BufferedReader(d, buffer_size=op[1])
            continue
        if name == "read":
            res = outcome(d.read) if op[1] is None else outcome(d.read, op[1])
        elif name == "readall":
            res = outcome(d.readall)
        elif name == "readline":
            res = outcome(d.readline, op[1])
        elif name == "readlines":
            res = outcome(d.readlines)
        elif name == "iter":
            res = outcome(lambda: list(d))
        elif name in ("readinto", "readinto_mv"):
            ba = bytearray(b"\xaa" * op[1])
            target = memoryview(ba) if name == "readinto_mv" else ba
            res = outcome(d.readinto, target)
            res = (res, bytes(ba), len(ba))
        elif name == "b_read":
            res = outcome(buffered.read, op[1])  # type: ignore
        elif name == "b_read1":
            res = outcome(buffered.read1, op[1])  # type: ignore
        elif name == "b_readline":
            res = outcome(buffered.readline, op[1])  # type: ignore
        elif name == "b_peek":
            res = outcome(buffered.peek, max(op[1], 0))  # type: ignore
        elif name == "b_readinto":
            ba = bytearray(max(op[1], 0))
            res = (outcome(buffered.readinto, ba), bytes(ba))  # type: ignore
        else:  # pragma: no cover
            raise AssertionError(name)
        rec.append((op, res, d._len, d._done, rfile.tell()))
    return rec


def check_A(n: int) -> None:
    rng = random.Random(1901)
    n_ok_roundtrip = 0
    for i in range(n):
        wellformed = rng.random() < 0.45
        body, raw = gen_chunked(rng, wellformed)
        ops = gen_ops(rng, has_short_read(raw))
        a = run_ops(OrigDechunkedInput, raw, ops)
        b = run_ops(NewDechunkedInput, raw, ops)
        counts["A"] += 1
        if a != b:
            failures.append(("A", i, raw, ops, a, b))
        if wellformed and not has_short_read(raw):
            # sanity: the generator really produces decodable streams
            got = outcome(NewDechunkedInput(io.BytesIO(raw)).read)
            want = outcome(OrigDechunkedInput(io.BytesIO(raw)).read)
            if got != want:
                failures.append(("A-readall", i, raw, got, want))
            if want == ("ok", body):
                n_ok_roundtrip += 1
    print(f"A: {counts['A']} streams compared ({n_ok_roundtrip} clean round trips)")


# ---------------------------------------------------------------------------
# B. make_environ on stub handlers
# ---------------------------------------------------------------------------
class StubServer:
    def __init__(self, rng: random.Random | None = None, app=None) -> None:  # type: ignore
        rng = rng or random.Random(0)
        self.ssl_context = rng.choice([None, None, object()])
        self.multithread = rng.choice([True, False])
        self.multiprocess = rng.choice([True, False])
        self.server_address = rng.choice(
            [("127.0.0.1", 5000), ("::1", 80, 0, 0), ("unix://sock", 0), ("localhost", 8443)]
        )
        self.passthrough_errors = False
        self._server_version = "Werkzeug/x"
        self.app = app
        self.logged: list = []

    def log(self, type: str, message: str, *args: t.Any) -> None:
        self.logged.append((type, message, args))
        LOG.append(("server", type, message.splitlines()[0] if message else message,
                    message.rstrip().splitlines()[-1] if message else message))


class Conn:
    def __init__(self, kind: str) -> None:
        self.kind = kind
        if kind != "notls":
            self.getpeercert = self._getpeercert

    def _getpeercert(self, binary_form: bool = False) -> t.Any:
        assert binary_form is True
        if self.kind == "none":
            return None
        if self.kind == "valueerror":
            raise ValueError("handshake not done")
        if self.kind == "oserror":
            raise OSError("boom")
        return b"\x30\x82\x01\x0a" + bytes(range(60))


PATHS = [
    "/", "", "*", "/a/b", "/a%20b", "/%E2%9C%93", "/%ff%fe", "/caf\xe9", "/a?b=c", "/a?b=c&d=%20",
    "/a?", "?x", "/a#frag", "/a?b#c", "//evil/path", "//evil", "///x", "//host:80/p?q", "//[::1",
    "http://example.com/abs?q=1", "http://example.com", "https://u:p@h:1/p", "http:/nohost", "http:path",
    "HTTP://UP.example/x", "/a;b=c", "/a/../b", "/%2F%2f", "/\u2713", "/a b", "/+plus", "/%", "/%zz",
    "//%41/b", "/x?%E2%9C%93=%ff", "/x?a=\xe9", "ftp://h/p", "c:/x", "//h?q", "/a?b?c", "/\\x", "/a\tb",
    "http://[::1]:5000/v6", "http://[bad/v6", "/a%00b", "/%C3%A9t%C3%A9",
]
HEADER_NAMES = [
    "Host", "Content-Type", "Content-Length", "content-type", "CONTENT-LENGTH", "Transfer-Encoding",
    "transfer-encoding", "X-Foo", "x-foo", "X_Foo", "Content_Length", "Transfer_Encoding", "Accept",
    "Cookie", "Expect", "X-A-B-C", "Http-Host", "Content-Type-X", "User-Agent", "X-\xe9",
]
HEADER_VALUES = [
    "x", "", "chunked", " chunked ", "Chunked", "CHUNKED\t", "gzip, chunked", "chunked, gzip", "gzip",
    "10", "0", "text/plain; charset=utf-8", "a,b", "caf\xe9", "folded\r\n value", "folded\r\n\tmore\r\n end",
    "example.com", "a=b; c=d", "100-continue", "  padded  ",
]


def gen_headers(rng: random.Random) -> http.client.HTTPMessage:
    n = rng.choice([0, 1, 2, 3, 5, 8, 12])
    raw = []
    for _ in range(n):
        k = rng.choice(HEADER_NAMES)
        v = rng.choice(HEADER_VALUES)
        raw.append(f"{k}: {v}\r\n".encode("latin1"))
    raw.append(b"\r\n")
    return http.client.parse_headers(io.BytesIO(b"".join(raw)))


def gen_handler_state(rng: random.Random) -> dict:
    path = rng.choice(PATHS)
    if rng.random() < 0.3:
        path += rng.choice(["", "?q=1", "%41", "/more", "?a=b&c=d%26", "#f"])
    return {
        "path": path,
        "command": rng.choice(["GET", "POST", "HEAD", "PUT", "OPTIONS", "get", "X-CUSTOM"]),
        "request_version": rng.choice(["HTTP/1.1", "HTTP/1.0", "HTTP/0.9"]),
        "client_address": rng.choice(
            [("127.0.0.1", 1234), ("::1", 4321, 0, 0), "/tmp/sock", "", None, (), ("fe80::1%eth0", 9)]
        ),
        "conn": rng.choice(["notls", "notls", "none", "cert", "valueerror", "oserror"]),
        "seed": rng.getrandbits(32),
    }


def snapshot_environ(env: dict, rfile: t.Any, conn: t.Any) -> list:
    out = []
    for k, v in env.items():
        if k == "wsgi.input":
            if v is rfile:
                v = "<rfile>"
            else:
                v = (type(v).__name__, getattr(v, "_rfile", None) is rfile, v._len, v._done)
        elif k == "wsgi.errors":
            v = v is sys.stderr
        elif k == "werkzeug.socket":
            v = v is conn
        out.append((k, type(v).__name__, v))
    return out


def run_make_environ(cls, st: dict) -> t.Any:  # type: ignore
    h = cls.__new__(cls)
    srng = random.Random(st["seed"])
    h.server = StubServer(srng)
    h.headers = gen_headers(srng)
    h.path = st["path"]
    h.command = st["command"]
    h.request_version = st["request_version"]
    h.client_address = st["client_address"]
    h.rfile = io.BytesIO(b"3\r\nabc\r\n0\r\n\r\n")
    h.connection = Conn(st["conn"])
    del LOG[:]
    res = outcome(h.make_environ)
    if res[0] == "ok":
        res = ("ok", snapshot_environ(res[1], h.rfile, h.connection))
    return (res, h.client_address, [(a, b) for a, b, c in h.server.logged], h.rfile.tell())


def check_B(n: int) -> None:
    rng = random.Random(1902)
    n_exc = 0
    for i in range(n):
        st = gen_handler_state(rng)
        a = run_make_environ(OrigHandler, st)
        b = run_make_environ(NewHandler, st)
        counts["B"] += 1
        if a[0][0] == "exc":
            n_exc += 1
        if a != b:
            failures.append(("B", i, st, a, b))
    print(f"B: {counts['B']} make_environ calls compared ({n_exc} raising)")


# ---------------------------------------------------------------------------
# C. end to end over a socketpair
# ---------------------------------------------------------------------------
STATUSES = [
    "200 OK", "200 OK", "200 OK", "200", "200  Spaced  Out", "201 Created", "204 No Content", "304 Not Modified",
    "100 Continue", "101 Switching Protocols", "199 X", "404 Not Found", "500 ERR", "302 Found", "204",
    "304", "99 Low", "600 High", "abc def", "", "20x OK",
]
APP_MODES = [
    "iter", "iter", "iter", "gen", "gen", "write", "write_then_iter", "no_start", "double_start",
    "exc_info_before", "exc_info_after", "raise_before", "raise_mid", "raise_after_start", "nonbytes",
    "conn_drop", "conn_drop_mid", "closeable", "empty", "late_start", "del_method",
]


def gen_scenario(rng: random.Random) -> dict:
    parts = [
        bytes(rng.choice(b"abc\r\n0") for _ in range(rng.choice([0, 0, 1, 2, 5, 15, 16, 17, 255, 256, 300, 5000])))
        for _ in range(rng.choice([0, 1, 1, 2, 3, 5]))
    ]
    total = sum(len(p) for p in parts)
    hdr_mode = rng.choice(["cl", "cl", "none", "none", "cl_wrong", "cl_case", "te", "dup"])
    headers: list = [("Content-Type", "text/plain")]
    if hdr_mode == "cl":
        headers.append(("Content-Length", str(total)))
    elif hdr_mode == "cl_wrong":
        headers.append(("Content-Length", str(total + rng.choice([-1, 1, 5]))))
    elif hdr_mode == "cl_case":
        headers.insert(0, (rng.choice(["content-length", "CONTENT-LENGTH", "Content-length"]), str(total)))
    elif hdr_mode == "te":
        headers.append(("Transfer-Encoding", "chunked"))
    elif hdr_mode == "dup":
        headers += [("X-A", "1"), ("X-A", "2"), ("Set-Cookie", "a=b"), ("Set-Cookie", "c=d")]
    if rng.random() < 0.1:
        headers = []
    return {
        "mode": rng.choice(APP_MODES),
        "status": rng.choice(STATUSES),
        "headers": headers,
        "parts": parts,
        "raise_at": rng.randint(0, 3),
        "read": rng.choice(["all", "all", "sized", "lines", "none", "iter", "one", "partial", "readinto"]),
        "read_size": rng.choice([1, 2, 3, 7, 16, 100, 4096]),
        "reraise_body_exc": rng.random() < 0.5,
        "protocol_version": rng.choice(["HTTP/1.1", "HTTP/1.1", "HTTP/1.0"]),
    }


def gen_request(rng: random.Random) -> tuple[bytes, bool]:
    method = rng.choice(["GET", "GET", "POST", "POST", "PUT", "HEAD", "HEAD", "DELETE", "OPTIONS", "PATCH"])
    path = rng.choice([p for p in PATHS if p and " " not in p and "\t" not in p and "\u2713" not in p])
    version = rng.choice(["HTTP/1.1", "HTTP/1.1", "HTTP/1.0", "", "HTTP/2.0", "HTTP/1.x"])
    line = f"{method} {path} {version}".rstrip() + "\r\n"
    hdrs = ["Host: example.test"]
    for _ in range(rng.choice([0, 1, 2, 4])):
        k = rng.choice([h for h in HEADER_NAMES if "ontent" not in h and "ransfer" not in h and "\xe9" not in h])
        v = rng.choice([v for v in HEADER_VALUES if "\r" not in v])
        hdrs.append(f"{k}: {v}")
    body_mode = rng.choice(["none", "cl", "cl", "chunked", "chunked", "chunked_bad", "both", "te_other"])
    body = b""
    short = False
    if body_mode == "cl":
        payload = bytes(rng.choice(bytes(range(256))) for _ in range(rng.choice([0, 1, 10, 100, 3000])))
        hdrs.append(f"Content-Length: {len(payload)}")
        hdrs.append("Content-Type: application/octet-stream")
        body = payload + rng.choice([b"", b"", b"EXTRA"])
    elif body_mode in ("chunked", "chunked_bad", "both"):
        _payload, body = gen_chunked(rng, body_mode != "chunked_bad")
        short = has_short_read(body)
        hdrs.append("Transfer-Encoding: " + rng.choice(["chunked", "chunked", "Chunked", " chunked ", "CHUNKED"]))
        if body_mode == "both":
            hdrs.append(f"Content-Length: {len(_payload)}")
    elif body_mode == "te_other":
        hdrs.append("Transfer-Encoding: " + rng.choice(["gzip", "gzip, chunked", "chunked, gzip", "identity"]))
        body = b"5\r\nhello\r\n0\r\n\r\n"
    if rng.random() < 0.1:
        hdrs.append("Expect: " + rng.choice(["100-continue", "100-Continue ", "other"]))
    if rng.random() < 0.03:
        line = rng.choice(["GARBAGE\r\n", "GET\r\n", "GET / HTTP/1.1 extra\r\n", "\r\n", "GET /" + "a" * 70000 + " HTTP/1.1\r\n"])
    return (line + "\r\n".join(hdrs) + "\r\n\r\n").encode("latin1") + body, short


class Closeable:
    def __init__(self, parts: list, rec: list) -> None:
        self._it = iter(parts)
        self._rec = rec

    def __iter__(self) -> Closeable:
        return self

    def __next__(self) -> bytes:
        return next(self._it)

    def close(self) -> None:
        self._rec.append(("closed",))


def read_body(environ: dict, sc: dict) -> t.Any:
    stream = environ["wsgi.input"]
    how = sc["read"]
    if how == "none":
        return None
    if environ.get("wsgi.input_terminated"):
        limit = None
    else:
        try:
            limit = max(int(environ.get("CONTENT_LENGTH") or 0), 0)
        except ValueError:
            limit = 0
    k = sc["read_size"]
    if how == "all":
        return stream.read() if limit is None else stream.read(limit)
    if how == "partial":
        return stream.read(k if limit is None else min(k, limit))
    out = []
    remaining = limit
    for _ in range(100000):
        want = k if how in ("sized", "readinto") else (1 if how == "one" else 65536)
        if remaining is not None:
            want = min(want, remaining)
            if want == 0:
                break
        if how in ("lines", "iter"):
            data = stream.readline(want)
        elif how == "readinto" and limit is None:
            ba = bytearray(want)
            got = stream.readinto(ba)
            data = bytes(ba[:got])
        else:
            data = stream.read(want)
        if not data:
            break
        out.append(data)
        if remaining is not None:
            remaining -= len(data)
    return out


def make_app(sc: dict, rec: list):  # type: ignore
    status, headers, parts, mode = sc["status"], sc["headers"], sc["parts"], sc["mode"]

    def app(environ, start_response):  # type: ignore
        info = [
            (k, type(v).__name__, v)
            for k, v in environ.items()
            if isinstance(v, (str, int, bool, tuple))
        ]
        rec.append(("environ", info, type(environ["wsgi.input"]).__name__))
        try:
            rec.append(("body", read_body(environ, sc)))
        except Exception as e:
            rec.append(("body_exc", type(e).__name__, str(e)))
            if sc["reraise_body_exc"]:
                raise
        stream = environ["wsgi.input"]
        if hasattr(stream, "_done"):
            rec.append(("dechunk_state", stream._len, stream._done))

        if mode == "iter":
            start_response(status, list(headers))
            return list(parts)
        if mode == "empty":
            start_response(status, list(headers))
            return []
        if mode == "closeable":
            start_response(status, list(headers))
            return Closeable(parts, rec)
        if mode == "write":
            w = start_response(status, list(headers))
            for p in parts:
                w(p)
            return []
        if mode == "write_then_iter":
            w = start_response(status, list(headers))
            w(b"first")
            return list(parts)
        if mode == "no_start":
            return [b"x"] + list(parts)
        if mode == "double_start":
            start_response(status, list(headers))
            start_response("200 OK", [("X-Second", "1")])
            return list(parts)
        if mode == "exc_info_before":
            start_response(status, list(headers))
            try:
                raise ValueError("replaced")
            except ValueError:
                start_response("500 REPLACED", [("X-Replaced", "1")], sys.exc_info())
            return list(parts)
        if mode == "raise_before":
            raise RuntimeError("before start")
        if mode == "raise_after_start":
            start_response(status, list(headers))
            raise RuntimeError("after start, before body")
        if mode == "conn_drop":
            start_response(status, list(headers))
            raise ConnectionResetError("dropped")
        if mode == "nonbytes":
            start_response(status, list(headers))
            return list(parts) + ["text"]  # type: ignore
        if mode == "del_method":
            del environ["REQUEST_METHOD"]
            start_response(status, list(headers))
            return list(parts)

        def gen():  # type: ignore
            if mode != "late_start":
                start_response(status, list(headers))
            for i, p in enumerate(parts):
                if i == sc["raise_at"]:
                    if mode == "raise_mid":
                        raise RuntimeError("mid body")
                    if mode == "conn_drop_mid":
                        raise BrokenPipeError("mid drop")
                    if mode == "exc_info_after":
                        try:
                            raise KeyError("late")
                        except KeyError:
                            start_response("500 LATE", [("X-Late", "1")], sys.exc_info())
                if mode == "late_start" and i == 0:
                    start_response(status, list(headers))
                yield p
            if mode == "late_start" and not parts:
                start_response(status, list(headers))

        return gen()

    return app


def run_cycle(cls, request: bytes, sc: dict) -> t.Any:  # type: ignore
    rec: list = []
    del LOG[:]
    server = StubServer(random.Random(7), make_app(sc, rec))
    server.ssl_context = None
    dropped: list = []

    class H(cls):  # type: ignore
        protocol_version = sc["protocol_version"]

        def connection_dropped(self, error, environ=None):  # type: ignore
            dropped.append((type(error).__name__, str(error), environ is not None))

    csock, ssock = socket.socketpair()
    try:
        csock.settimeout(10)
        ssock.settimeout(10)
        csock.sendall(request)
        csock.shutdown(socket.SHUT_WR)
        res = outcome(H, ssock, ("127.0.0.1", 54321), server)
        if res[0] == "ok":
            h = res[1]
            res = ("ok", getattr(h, "close_connection", None))
        ssock.close()
        chunks = []
        while True:
            data = csock.recv(65536)
            if not data:
                break
            chunks.append(data)
        response = b"".join(chunks)
    finally:
        csock.close()
        ssock.close()
    return (res, rec, list(LOG), dropped, response)


def check_C(n: int) -> None:
    rng = random.Random(1903)
    chunked_resp = 0
    status_lines: dict = {}
    for i in range(n):
        request, short = gen_request(rng)
        sc = gen_scenario(rng)
        if short:
            # see has_short_read(): keep truncated chunked bodies away from
            # the C-level RawIOBase.read path
            sc["read"] = rng.choice(["readinto", "readinto", "none"])
        if len(request) > 60000 and i % 7:
            continue
        a = run_cycle(OrigHandler, request, sc)
        b = run_cycle(NewHandler, request, sc)
        counts["C"] += 1
        if b"Transfer-Encoding: chunked" in a[4]:
            chunked_resp += 1
        first = a[4].split(b"\r\n", 1)[0][:24]
        status_lines[first] = status_lines.get(first, 0) + 1
        if a != b:
            failures.append(("C", i, request[:300], sc, a, b))
    print(
        f"C: {counts['C']} request/response cycles compared "
        f"({chunked_resp} chunked responses, {len(status_lines)} distinct status lines)"
    )


def main() -> None:
    scale = int(sys.argv[1]) if len(sys.argv) > 1 else 1
    check_A(6000 * scale)
    check_B(4000 * scale)
    check_C(3000 * scale)
    if failures:
        print(f"FAIL: {len(failures)} mismatches")
        for f in failures[:5]:
            print(repr(f)[:3000])
        sys.exit(1)
    print("PASS")


if __name__ == "__main__":
    main()
