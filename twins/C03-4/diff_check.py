"""C03 twin 1: differential check of the refactored StateMachineMatcher.match._match
against the original matcher implementation (embedded below).

Run: cd /tmp/wt6-C03 && PYTHONPATH=/tmp/wt6-C03/src /venv/bin/python /tmp/twin4-C03/1/diff_check.py
"""
# ---------------------------------------------------------------------------
# Shared input generators (rule sets, request paths) for the C03 differential
# checks.  Everything is seeded, so runs are reproducible.
# ---------------------------------------------------------------------------
import random

from werkzeug.exceptions import HTTPException
from werkzeug.routing import BaseConverter
from werkzeug.routing import Map
from werkzeug.routing import RequestRedirect
from werkzeug.routing import Rule
from werkzeug.routing.exceptions import NoMatch
from werkzeug.routing.exceptions import RequestAliasRedirect
from werkzeug.routing.exceptions import RequestPath


class TwoSegConverter(BaseConverter):
    # regex contains a slash -> part_isolating is False automatically
    regex = "[a-z]+/[a-z]+"
    weight = 150


class EvenConverter(BaseConverter):
    # to_python may reject a value the regex admitted (ValidationError path)
    regex = r"\d+"
    weight = 60

    def to_python(self, value):
        from werkzeug.routing import ValidationError

        if int(value) % 2:
            raise ValidationError()
        return int(value)


EXTRA_CONVERTERS = {"two": TwoSegConverter, "even": EvenConverter}

STATIC_SEGS = ["a", "b", "foo", "bar", "x.y", "a+b", "12", "index.html", "(z)"]
VAR_SEGS = [
    "<{n}>",
    "<int:{n}>",
    "<int(signed=True):{n}>",
    "<int(fixed_digits=3):{n}>",
    "<float:{n}>",
    "<string(length=2):{n}>",
    "<string(minlength=2, maxlength=3):{n}>",
    "<any(a,b,foo):{n}>",
    "<uuid:{n}>",
    "<{n}>",
    "<int:{n}>",
    "<{n}>",
    "<int:{n}>",
    "<float:{n}>",
    "<path:{n}>",
    "<even:{n}>",
    "<path:{n}>",
    "<two:{n}>",
    "foo-<int:{n}>",
    "<{n}>.html",
    "<int:{n}>-<{n}2>",
    "pre<path:{n}>",
    "<path:{n}>.txt",
]
VALUES = [
    "a", "b", "foo", "bar", "ab", "abc", "abcd", "12", "7", "007", "-3", "1.5",
    "-2.25", "x.y", "a+b", "index.html", "foo-12", "foo-x", "12-zz", "q.html",
    "pre", "prea", "n.txt", "(z)", "z", "12345678-1234-5678-1234-567812345678",
    "a b", "%20", "ü", "",
]
METHOD_SETS = [None, None, ["GET"], ["POST"], ["GET", "POST"], ["PUT", "DELETE"], ["HEAD"]]
REQ_METHODS = ["GET", "POST", "PUT", "HEAD", "DELETE", "OPTIONS", "get"]


def gen_rule_string(rnd):
    nseg = rnd.choice([0, 1, 1, 1, 2, 2, 2, 3, 4])
    segs = []
    used = 0
    for _ in range(nseg):
        if rnd.random() < 0.5:
            segs.append(rnd.choice(STATIC_SEGS))
        else:
            segs.append(rnd.choice(VAR_SEGS).format(n=f"v{used}"))
            used += 1
    s = "/" + "/".join(segs)
    if segs and rnd.random() < 0.45:
        s += "/"
    if rnd.random() < 0.05:
        s = s.replace("/", "//", 1)
    return s


def vary_rule_string(rnd, rule):
    """Derive a sibling rule sharing a prefix with *rule* (exercises priority
    between literal/variable segments and backtracking)."""
    trailing = rule.endswith("/") and rule != "/"
    segs = [s for s in rule.strip("/").split("/")] if rule.strip("/") else []
    if not segs or rnd.random() < 0.2:
        segs.append(rnd.choice(STATIC_SEGS))
    else:
        i = rnd.randrange(len(segs))
        if rnd.random() < 0.5:
            segs[i] = rnd.choice(STATIC_SEGS)
        else:
            segs[i] = rnd.choice(VAR_SEGS).format(n=f"w{i}")
    if rnd.random() < 0.3:
        trailing = not trailing
    return "/" + "/".join(segs) + ("/" if trailing else "")


def gen_spec(rnd, idx, host_matching, previous=()):
    kwargs = {"endpoint": f"ep{idx}"}
    if previous and rnd.random() < 0.45:
        rule = vary_rule_string(rnd, rnd.choice(previous)[0])
    else:
        rule = gen_rule_string(rnd)
    kwargs["methods"] = rnd.choice(METHOD_SETS)
    r = rnd.random()
    if r < 0.2:
        kwargs["strict_slashes"] = False
    elif r < 0.3:
        kwargs["strict_slashes"] = True
    r = rnd.random()
    if r < 0.15:
        kwargs["merge_slashes"] = False
    elif r < 0.25:
        kwargs["merge_slashes"] = True
    if rnd.random() < 0.07:
        kwargs["websocket"] = True
        if kwargs["methods"] is not None:
            kwargs["methods"] = ["GET"]
    if rnd.random() < 0.12:
        kwargs["defaults"] = {"extra": rnd.choice([1, "d"])}
    if rnd.random() < 0.1:
        if host_matching:
            kwargs["host"] = rnd.choice(["example.org", "<sub>.example.org", "other"])
        else:
            kwargs["subdomain"] = rnd.choice(["api", "<sub>", "www"])
    if rnd.random() < 0.06:
        kwargs["redirect_to"] = rnd.choice(["/target", "/t/<v0>"])
        if "<v0>" in kwargs["redirect_to"] and "v0>" not in rule:
            kwargs["redirect_to"] = "/target"
    return rule, kwargs


def gen_mapspec(rnd):
    host_matching = rnd.random() < 0.15
    n = rnd.choice([1, 2, 3, 4, 6, 8, 12])
    specs = []
    for i in range(n):
        specs.append(gen_spec(rnd, i, host_matching, specs))
    # occasionally add alias / defaults pairs that share an endpoint
    if rnd.random() < 0.3:
        base_rule, base_kw = rnd.choice(specs)
        kw = dict(base_kw)
        kw.pop("redirect_to", None)
        if rnd.random() < 0.5:
            kw["alias"] = True
            specs.append((gen_rule_string(rnd), kw))
        else:
            kw["defaults"] = {"v0": 1}
            specs.insert(0, ("/dflt", kw))
    if rnd.random() < 0.4:
        rnd.shuffle(specs)
    map_kwargs = {
        "strict_slashes": rnd.random() < 0.7,
        "merge_slashes": rnd.random() < 0.7,
        "redirect_defaults": rnd.random() < 0.8,
        "host_matching": host_matching,
    }
    return specs, map_kwargs


def build_map(specs, map_kwargs, rule_cls=Rule, map_cls=Map):
    """Returns a Map or the exception raised while building it."""
    rules = [rule_cls(r, **kw) for r, kw in specs]
    return map_cls(rules, converters=dict(EXTRA_CONVERTERS), **map_kwargs)


GOOD_VALUES = {
    "default": ["foo", "a", "ab", "abc", "12", "x.y", "q.html", "12-zz"],
    "string": ["ab", "abc", "abcd", "a", "12"],
    "int": ["12", "7", "007", "-3", "123", "120"],
    "float": ["1.5", "-2.25", "12"],
    "any": ["a", "b", "foo", "bar"],
    "uuid": ["12345678-1234-5678-1234-567812345678", "abc"],
    "even": ["12", "7", "8"],
    "path": ["a", "a/b", "x/y/z", "a//b", "foo/bar", "a/b/", "n.txt", "a/n.txt"],
    "two": ["a/b", "foo/bar", "a", "a/b/c", "a/b/"],
}


def _fill(rnd, rule):
    import re

    def sub(m):
        if rnd.random() < 0.1:
            return rnd.choice(VALUES + ["a/b", "x/y/z", "a//b", "foo/bar", "a/b/"])
        conv = re.match(r"<(?:([a-zA-Z_]+)(?:\(.*\))?:)?", m.group(0)).group(1)
        return rnd.choice(GOOD_VALUES[conv or "default"])

    return re.sub(r"<[^>]+>", sub, rule)


def gen_paths(rnd, specs, n):
    out = []
    for _ in range(n):
        r = rnd.random()
        if r < 0.88 and specs:
            p = _fill(rnd, rnd.choice(specs)[0])
        else:
            k = rnd.choice([0, 1, 2, 3, 4])
            p = "/" + "/".join(rnd.choice(VALUES + STATIC_SEGS) for _ in range(k))
        m = rnd.random()
        if m < 0.15:
            p = p.rstrip("/") if rnd.random() < 0.5 else p + "/"
        elif m < 0.20:
            i = rnd.randrange(len(p) + 1)
            p = p[:i] + "/" + p[i:]
        elif m < 0.24:
            p = p.replace("/", "//")
        elif m < 0.26:
            p = p + "//"
        out.append(p)
    return out


def gen_bind(rnd, map_kwargs):
    if map_kwargs["host_matching"]:
        return {"server_name": rnd.choice(["example.org", "api.example.org", "other"])}
    return {
        "server_name": "example.org",
        "subdomain": rnd.choice([None, None, "", "api", "www", "zz"]),
        "script_name": rnd.choice(["/", "/app"]),
    }


def observe_adapter(call):
    """Normalise the outcome of a MapAdapter.match-like call."""
    try:
        rv = call()
    except RequestRedirect as e:
        return ("RequestRedirect", e.new_url, e.code)
    except HTTPException as e:
        return (type(e).__name__, getattr(e, "valid_methods", None), e.code)
    except Exception as e:  # noqa: BLE001
        return ("EXC", type(e).__name__, str(e))
    first, args = rv
    if hasattr(first, "rule") and hasattr(first, "endpoint"):
        first = ("RULE", first.rule, first.endpoint)
    return ("OK", first, sorted(args.items(), key=repr), [type(v).__name__ for _, v in sorted(args.items(), key=repr)])


def observe_matcher(matcher, domain, path, method, websocket):
    """Normalise the outcome of StateMachineMatcher.match."""
    try:
        rule, values = matcher.match(domain, path, method, websocket)
    except RequestPath as e:
        return ("RequestPath", e.path_info)
    except RequestAliasRedirect as e:
        return ("RequestAliasRedirect", e.endpoint, sorted(e.matched_values.items(), key=repr))
    except NoMatch as e:
        return ("NoMatch", list(e.have_match_for), e.websocket_mismatch)
    except Exception as e:  # noqa: BLE001
        return ("EXC", type(e).__name__, str(e))
    return ("OK", rule.rule, rule.endpoint, list(values.items()), [type(v).__name__ for v in values.values()])


ORIG_MATCHER_SRC = r'''from __future__ import annotations

import re
import typing as t
from dataclasses import dataclass
from dataclasses import field

from .converters import ValidationError
from .exceptions import NoMatch
from .exceptions import RequestAliasRedirect
from .exceptions import RequestPath
from .rules import Rule
from .rules import RulePart


class SlashRequired(Exception):
    pass


@dataclass
class State:
    """A representation of a rule state.

    This includes the *rules* that correspond to the state and the
    possible *static* and *dynamic* transitions to the next state.
    """

    dynamic: list[tuple[RulePart, State]] = field(default_factory=list)
    rules: list[Rule] = field(default_factory=list)
    static: dict[str, State] = field(default_factory=dict)


class StateMachineMatcher:
    def __init__(self, merge_slashes: bool) -> None:
        self._root = State()
        self.merge_slashes = merge_slashes

    def add(self, rule: Rule) -> None:
        state = self._root
        for part in rule._parts:
            if part.static:
                state.static.setdefault(part.content, State())
                state = state.static[part.content]
            else:
                for test_part, new_state in state.dynamic:
                    if test_part == part:
                        state = new_state
                        break
                else:
                    new_state = State()
                    state.dynamic.append((part, new_state))
                    state = new_state
        state.rules.append(rule)

    def update(self) -> None:
        # For every state the dynamic transitions should be sorted by
        # the weight of the transition
        state = self._root

        def _update_state(state: State) -> None:
            state.dynamic.sort(key=lambda entry: entry[0].weight)
            for new_state in state.static.values():
                _update_state(new_state)
            for _, new_state in state.dynamic:
                _update_state(new_state)

        _update_state(state)

    def match(
        self, domain: str, path: str, method: str, websocket: bool
    ) -> tuple[Rule, t.MutableMapping[str, t.Any]]:
        # To match to a rule we need to start at the root state and
        # try to follow the transitions until we find a match, or find
        # there is no transition to follow.

        have_match_for = set()
        websocket_mismatch = False

        def _match(
            state: State, parts: list[str], values: list[str]
        ) -> tuple[Rule, list[str]] | None:
            # This function is meant to be called recursively, and will attempt
            # to match the head part to the state's transitions.
            nonlocal have_match_for, websocket_mismatch

            # The base case is when all parts have been matched via
            # transitions. Hence if there is a rule with methods &
            # websocket that work return it and the dynamic values
            # extracted.
            if parts == []:
                for rule in state.rules:
                    if rule.methods is not None and method not in rule.methods:
                        have_match_for.update(rule.methods)
                    elif rule.websocket != websocket:
                        websocket_mismatch = True
                    else:
                        return rule, values

                # Test if there is a match with this path with a
                # trailing slash, if so raise an exception to report
                # that matching is possible with an additional slash
                if "" in state.static:
                    for rule in state.static[""].rules:
                        if websocket == rule.websocket and (
                            rule.methods is None or method in rule.methods
                        ):
                            if rule.strict_slashes:
                                raise SlashRequired()
                            else:
                                return rule, values
                        elif (
                            not rule.strict_slashes
                            and rule.methods is not None
                            and method not in rule.methods
                        ):
                            have_match_for.update(rule.methods)
                return None

            part = parts[0]
            # To match this part try the static transitions first
            if part in state.static:
                rv = _match(state.static[part], parts[1:], values)
                if rv is not None:
                    return rv
            # No match via the static transitions, so try the dynamic
            # ones.
            for test_part, new_state in state.dynamic:
                target = part
                remaining = parts[1:]
                # A final part indicates a transition that always
                # consumes the remaining parts i.e. transitions to a
                # final state.
                if test_part.final:
                    target = "/".join(parts)
                    remaining = []
                match = re.compile(test_part.content).match(target)
                if match is not None:
                    if test_part.suffixed:
                        # If a part_isolating=False part has a slash suffix, remove the
                        # suffix from the match and check for the slash redirect next.
                        suffix = match.groups()[-1]
                        if suffix == "/":
                            remaining = [""]

                    converter_groups = sorted(
                        match.groupdict().items(), key=lambda entry: entry[0]
                    )
                    groups = [
                        value
                        for key, value in converter_groups
                        if key[:11] == "__werkzeug_"
                    ]
                    rv = _match(new_state, remaining, values + groups)
                    if rv is not None:
                        return rv

            # If there is no match and the only part left is a
            # trailing slash ("") consider rules that aren't
            # strict-slashes as these should match if there is a final
            # slash part.
            if parts == [""]:
                for rule in state.rules:
                    if rule.strict_slashes:
                        continue
                    if rule.methods is not None and method not in rule.methods:
                        have_match_for.update(rule.methods)
                    elif rule.websocket != websocket:
                        websocket_mismatch = True
                    else:
                        return rule, values

            return None

        try:
            rv = _match(self._root, [domain, *path.split("/")], [])
        except SlashRequired:
            raise RequestPath(f"{path}/") from None

        if self.merge_slashes and rv is None:
            # Try to match again, but with slashes merged
            path = re.sub("/{2,}?", "/", path)
            try:
                rv = _match(self._root, [domain, *path.split("/")], [])
            except SlashRequired:
                raise RequestPath(f"{path}/") from None
            if rv is None or rv[0].merge_slashes is False:
                raise NoMatch(have_match_for, websocket_mismatch)
            else:
                raise RequestPath(f"{path}")
        elif rv is not None:
            rule, values = rv

            result = {}
            for name, value in zip(rule._converters.keys(), values):
                try:
                    value = rule._converters[name].to_python(value)
                except ValidationError:
                    raise NoMatch(have_match_for, websocket_mismatch) from None
                result[str(name)] = value
            if rule.defaults:
                result.update(rule.defaults)

            if rule.alias and rule.map.redirect_defaults:
                raise RequestAliasRedirect(result, rule.endpoint)

            return rule, result

        raise NoMatch(have_match_for, websocket_mismatch)
'''


# ---------------------------------------------------------------------------
# Driver: original matcher (embedded above as ORIG_MATCHER_SRC) versus the
# refactored werkzeug.routing.matcher from the worktree.
# ---------------------------------------------------------------------------
import importlib.util
import sys
import types

import werkzeug.routing.matcher as new_matcher_mod


def load_orig_matcher():
    name = "werkzeug.routing._orig_matcher_c03"
    mod = types.ModuleType(name)
    mod.__package__ = "werkzeug.routing"
    mod.__file__ = "<orig matcher>"
    sys.modules[name] = mod
    exec(compile(ORIG_MATCHER_SRC, "<orig matcher>", "exec"), mod.__dict__)
    return mod


orig_matcher_mod = load_orig_matcher()
assert orig_matcher_mod.StateMachineMatcher is not new_matcher_mod.StateMachineMatcher


class OrigMap(Map):
    """A Map whose matcher is the ORIGINAL StateMachineMatcher."""

    def __init__(self, rules=None, **kw):
        super().__init__(None, **kw)
        self._matcher = orig_matcher_mod.StateMachineMatcher(kw.get("merge_slashes", True))
        for rulefactory in rules or ():
            self.add(rulefactory)


def dump_state(state):
    return (
        [r.rule + "|" + str(r.endpoint) for r in state.rules],
        [(k, dump_state(v)) for k, v in state.static.items()],
        [(p, dump_state(s)) for p, s in state.dynamic],
    )


def main():
    rnd = random.Random(0xC03)
    n_maps = 1500
    per_map = 14
    total = 0
    mismatches = 0
    outcomes = {}
    for mi in range(n_maps):
        specs, map_kwargs = gen_mapspec(rnd)
        built = []
        for cls in (Map, OrigMap):
            try:
                built.append(build_map(specs, map_kwargs, map_cls=cls))
            except Exception as e:  # noqa: BLE001
                built.append(("BUILD_EXC", type(e).__name__, str(e)))
        new_map, old_map = built
        if isinstance(new_map, tuple) or isinstance(old_map, tuple):
            total += 1
            if new_map != old_map:
                mismatches += 1
                print("BUILD MISMATCH", specs, new_map, old_map)
            continue
        assert type(new_map._matcher) is new_matcher_mod.StateMachineMatcher
        assert type(old_map._matcher) is orig_matcher_mod.StateMachineMatcher
        new_map.update()
        old_map.update()
        if dump_state(new_map._matcher._root) != dump_state(old_map._matcher._root):
            mismatches += 1
            print("STATE TREE MISMATCH", specs)
        bind = gen_bind(rnd, map_kwargs)
        new_ad = new_map.bind(**bind)
        old_ad = old_map.bind(**bind)
        domains = ["", "api", "www", "zz", "example.org", "api.example.org", "other"]
        for path in gen_paths(rnd, specs, per_map):
            method = rnd.choice(REQ_METHODS)
            websocket = rnd.random() < 0.08
            # (a) matcher level
            domain = "" if rnd.random() < 0.6 else rnd.choice(domains)
            a = observe_matcher(new_map._matcher, domain, path, method.upper(), websocket)
            b = observe_matcher(old_map._matcher, domain, path, method.upper(), websocket)
            total += 1
            outcomes[a[0]] = outcomes.get(a[0], 0) + 1
            if a != b:
                mismatches += 1
                print("MATCHER MISMATCH", specs, map_kwargs, domain, path, method, websocket, a, b)
            # (b) adapter level
            qa = rnd.choice([None, "q=1"])
            a = observe_adapter(lambda: new_ad.match(path, method, query_args=qa, websocket=websocket))
            b = observe_adapter(lambda: old_ad.match(path, method, query_args=qa, websocket=websocket))
            total += 1
            outcomes["adapter:" + a[0]] = outcomes.get("adapter:" + a[0], 0) + 1
            if a != b:
                mismatches += 1
                print("ADAPTER MISMATCH", specs, map_kwargs, bind, path, method, websocket, a, b)
    print("comparisons:", total, "outcome histogram:", dict(sorted(outcomes.items())))
    if mismatches == 0 and total >= 3000:
        print("PASS")
    else:
        print("FAIL", mismatches)
        sys.exit(1)


if __name__ == "__main__":
    main()
