"""Differential check for refactoring 2 (parse_range_header restructuring).

Run: cd /tmp/wt10-C06 && PYTHONPATH=/tmp/wt10-C06/src /venv/bin/python /tmp/twin6-C06/2/diff_check.py
"""

from __future__ import annotations

import itertools
import random

from werkzeug import datastructures as ds
from werkzeug import http
from werkzeug._internal import _plain_int


# ---------------------------------------------------------------- ORIGINAL
def orig_parse_range_header(value, make_inclusive=True):
    if not value or "=" not in value:
        return None

    ranges = []
    last_end = 0
    units, rng = value.split("=", 1)
    units = units.strip().lower()

    for item in rng.split(","):
        item = item.strip()
        if "-" not in item:
            return None
        if item.startswith("-"):
            if last_end < 0:
                return None
            try:
                begin = _plain_int(item)
            except ValueError:
                return None
            end = None
            last_end = -1
        elif "-" in item:
            begin_str, end_str = item.split("-", 1)
            begin_str = begin_str.strip()
            end_str = end_str.strip()

            try:
                begin = _plain_int(begin_str)
            except ValueError:
                return None

            if begin < last_end or last_end < 0:
                return None
            if end_str:
                if end_str.startswith("-"):
                    # _plain_int accepts a sign, a position does not have one
                    return None

                try:
                    end = _plain_int(end_str) + 1
                except ValueError:
                    return None

                if begin >= end:
                    return None
            else:
                end = None
            last_end = end if end is not None else -1
        ranges.append((begin, end))

    return ds.Range(units, ranges)


def outcome(fn, *args):
    try:
        r = fn(*args)
    except BaseException as e:  # noqa: B036
        return ("exc", type(e))
    if r is None:
        return ("none",)
    assert type(r) is ds.Range
    return ("range", r.units, list(r.ranges), type(r.ranges), r.to_header())


rnd = random.Random(606)
WS = ["", "", "", " ", "\t", "  ", "\n", " ", "\x0b"]
NUMS = ["0", "1", "2", "5", "9", "10", "99", "100", "499", "500", "007", "-1", "-0",
        "+3", "1_0", "١٢", "٣", "", "a", "1.5", "0x10", "--5", " 7", "7 ", "1e3",
        str(10**25)]
UNITS = ["bytes", "Bytes", " BYTES ", "items", "", "b=c", "bytés", "\tbytes"]


def num():
    if rnd.random() < 0.6:
        return str(rnd.randint(0, 60))
    return rnd.choice(NUMS)


def item():
    r = rnd.random()
    w = lambda: rnd.choice(WS)  # noqa: E731
    if r < 0.45:
        return f"{w()}{num()}{w()}-{w()}{num()}{w()}"
    if r < 0.60:
        return f"{w()}{num()}{w()}-{w()}"
    if r < 0.75:
        return f"{w()}-{w()}{num()}{w()}"
    if r < 0.80:
        return f"{num()}"
    if r < 0.85:
        return f"{num()}-{num()}-{num()}"
    if r < 0.88:
        return ""
    if r < 0.91:
        return "-"
    if r < 0.94:
        return "--" + num()
    return "".join(rnd.choice("0123456789- -,=a\t") for _ in range(rnd.randint(0, 7)))


def sorted_header():
    """Mostly valid ascending multi-range headers."""
    pos = 0
    parts = []
    for _ in range(rnd.randint(1, 4)):
        b = pos + rnd.randint(0, 5)
        e = b + rnd.randint(-1, 6)
        parts.append(f"{b}-{e}")
        pos = e + rnd.randint(0, 2)
    tail = rnd.random()
    if tail < 0.2:
        parts.append(f"{pos}-")
    elif tail < 0.4:
        parts.append(f"-{rnd.randint(0, 9)}")
    if rnd.random() < 0.15:
        rnd.shuffle(parts)
    sep = rnd.choice([",", ", ", " ,", " , "])
    return sep.join(parts)


def main():
    n = bad = 0

    def check(v, *extra):
        nonlocal n, bad
        a = outcome(orig_parse_range_header, v, *extra)
        b = outcome(http.parse_range_header, v, *extra)
        n += 1
        if a != b:
            bad += 1
            if bad < 10:
                print("MISMATCH", repr(v), a, b)

    # fixed edge cases
    fixed = [None, "", "bytes", "bytes=", "=", "==", "=0-1", "bytes=0-499", "bytes=-500",
             "bytes=500-", "bytes=0-0,-1", "bytes=-1,0-0", "bytes=5-,6-7", "bytes=5-,-7",
             "bytes=-5,-7", "bytes=0-1,1-2", "bytes=0-1,2-3", "bytes=3-2", "bytes=a-b",
             "bytes=1-a", "bytes= 1 - 2 ", "bytes=1-2,", "bytes=,1-2", "bytes=--1",
             "bytes=-", "bytes=-0", "bytes=-00", "bytes=0-,", "bytes=0-=5", "a=b=0-1",
             "bytes=0-1=2", "items=0-9", "bytes=١-٢", "bytes=1 -2",
             "bytes=- 5", "bytes=-5 -", "bytes=5 - 6 - 7", "bytes=1-+2", "bytes=+1-2"]
    for v in fixed:
        check(v)
        check(v, False)

    # non-str inputs: exception types must agree
    for v in [b"bytes=0-1", b"", 0, 5, [], ["bytes=0-1"], ("a=b",), {"=": 1}, 1.5]:
        check(v)

    # exhaustive small combos
    small = ["0-0", "0-1", "1-", "-1", "2-3", "3-2", "x", "", "1-1", " 4-5 ", "-", "0-"]
    for k in (1, 2, 3):
        for combo in itertools.product(small, repeat=k):
            check("bytes=" + ",".join(combo))

    # random
    for _ in range(20000):
        u = rnd.choice(UNITS)
        sep = rnd.choice(["=", "=", "=", "= ", " =", "", "=="])
        body = ",".join(item() for _ in range(rnd.randint(1, 4)))
        check(f"{u}{sep}{body}")

    for _ in range(10000):
        check(f"{rnd.choice(UNITS)}={sorted_header()}")

    # round trip through Range.to_header (property C06)
    for _ in range(3000):
        v = f"bytes={sorted_header()}"
        r = http.parse_range_header(v)
        if r is not None:
            # the re-serialised (normal form) header must parse identically too
            check(r.to_header())

    print(f"{n} comparisons, {bad} mismatches")
    print("PASS" if bad == 0 else "FAIL")


if __name__ == "__main__":
    main()
