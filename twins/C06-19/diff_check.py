"""Differential check for refactoring 1 (dump_options_header / dump_header).

Run: cd /tmp/wt15-C06 && PYTHONPATH=/tmp/wt15-C06/src /venv/bin/python /tmp/twin10-C06/1/diff_check.py
"""
import random

import werkzeug.http as H

ORIG = '''
def dump_options_header(header, options):
    segments = []

    if header is not None:
        segments.append(header)

    for key, value in options.items():
        if value is None:
            continue

        if key[-1] == "*":
            segments.append(f"{key}={value}")
        else:
            segments.append(f"{key}={quote_header_value(value)}")

    return "; ".join(segments)


def dump_header(iterable):
    if isinstance(iterable, dict):
        items = []

        for key, value in iterable.items():
            if value is None:
                items.append(key)
            elif key[-1] == "*":
                items.append(f"{key}={value}")
            else:
                items.append(f"{key}={quote_header_value(value)}")
    else:
        items = [quote_header_value(x) for x in iterable]

    return ", ".join(items)
'''
ns = dict(vars(H))
exec(ORIG, ns)


class Odd:
    def __init__(self, s):
        self.s = s

    def __str__(self):
        return self.s

    def __format__(self, spec):
        return f"<fmt:{self.s}>"


def run(fn, *args):
    try:
        return ("ok", fn(*args))
    except BaseException as e:  # noqa: B036
        return ("exc", type(e), str(e))


rnd = random.Random(606)
ALPHA = ['a', 'b', 'Z', '0', '-', '_', '*', '=', ';', ',', ' ', '"', '\\', "'", '%', '/', '\t', 'é', '€', '']


def rstr(maxlen=6):
    return "".join(rnd.choice(ALPHA) for _ in range(rnd.randint(0, maxlen)))


def rkey():
    r = rnd.random()
    if r < 0.05:
        return ""
    if r < 0.1:
        return rnd.choice([b"k*", b"k", 5, None, ("a", "*")])
    k = rstr(5)
    if rnd.random() < 0.3:
        k += "*"
    return k


def rval():
    r = rnd.random()
    if r < 0.2:
        return None
    if r < 0.3:
        return rnd.choice([0, 1, -5, 3.5, True, False, b"x y", b""])
    if r < 0.4:
        return Odd(rstr())
    if r < 0.45:
        return "UTF-8''" + rstr()
    return rstr(8)


n = 0
bad = 0
for _ in range(6000):
    d = {}
    for _ in range(rnd.randint(0, 5)):
        try:
            d[rkey()] = rval()
        except TypeError:
            pass
    header = rnd.choice([None, "", "text/html", "form-data", rstr()])
    cases = [
        (H.dump_options_header, ns["dump_options_header"], (header, d)),
        (H.dump_header, ns["dump_header"], (d,)),
        (H.dump_header, ns["dump_header"], ([rval() for _ in range(rnd.randint(0, 4))],)),
        (H.dump_header, ns["dump_header"], (rnd.choice([rstr(), (), set(), 5, None, ("a b", "c")]),)),
    ]
    for new, old, args in cases:
        n += 1
        a, b = run(new, *args), run(old, *args)
        if a != b:
            bad += 1
            if bad < 10:
                print("MISMATCH", new.__name__, args, a, b)

# one-shot iterators: a fresh one for each side
for _ in range(200):
    vals = [rval() for _ in range(3)]
    n += 1
    if run(H.dump_header, iter(vals)) != run(ns["dump_header"], iter(vals)):
        bad += 1

# MultiDict-like / non-dict mappings for dump_options_header
from werkzeug.datastructures import MultiDict  # noqa: E402

for _ in range(500):
    md = MultiDict([(rstr(3) or "k", rval()) for _ in range(3)])
    n += 1
    if run(H.dump_options_header, "x", md) != run(ns["dump_options_header"], "x", md):
        bad += 1
        print("MISMATCH md", md)

# round trip still holds
for _ in range(1000):
    d = {("k" + str(i)): rstr(8) for i in range(rnd.randint(0, 4))}
    n += 1
    if H.parse_dict_header(H.dump_header(d)) != ns["parse_dict_header"](ns["dump_header"](d)):
        bad += 1

assert ns["dump_header"] is not H.dump_header
print(f"{n} cases, {bad} mismatches")
print("PASS" if bad == 0 else "FAIL")
