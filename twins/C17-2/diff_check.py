"""Differential check for refactoring 2 (Accept._best_single_match as next()
over a generator; Accept.best_match with nested ifs instead of continue).
ORIGINAL implementations are pasted below as a mixin and compared against
the worktree's classes."""
import random
import sys

from werkzeug.datastructures import Accept
from werkzeug.datastructures import CharsetAccept
from werkzeug.datastructures import LanguageAccept
from werkzeug.datastructures import MIMEAccept
from werkzeug.datastructures.accept import _locale_delim_re
from werkzeug.http import parse_accept_header


class OrigMixin(Accept):
    def _best_single_match(self, match):
        for client_item, quality in self:
            if self._value_matches(match, client_item):
                # self is sorted by specificity descending, we can exit
                return client_item, quality
        return None

    def best_match(self, matches, default=None):
        result = default
        best_quality = -1
        best_specificity = (-1,)
        for server_item in matches:
            match = self._best_single_match(server_item)
            if not match:
                continue
            client_item, quality = match
            specificity = self._specificity(client_item)
            if quality <= 0 or quality < best_quality:
                continue
            # better quality or same quality but more specific => better match
            if quality > best_quality or specificity > best_specificity:
                result = server_item
                best_quality = quality
                best_specificity = specificity
        return result


class OrigAccept(OrigMixin):
    pass


class OrigMIME(OrigMixin, MIMEAccept):
    pass


class OrigCharset(OrigMixin, CharsetAccept):
    pass


class OrigLang(OrigMixin, LanguageAccept):
    def best_match(self, matches, default=None):
        # pasted ORIGINAL LanguageAccept.best_match, super() -> OrigMixin,
        # Accept(...) fallback -> OrigAccept
        result = OrigMixin.best_match(self, matches)

        if result is not None:
            return result

        fallback = OrigAccept(
            [(_locale_delim_re.split(item[0], 1)[0], item[1]) for item in self]
        )
        result = fallback.best_match(matches)

        if result is not None:
            return result

        fallback_matches = [_locale_delim_re.split(item, 1)[0] for item in matches]
        result = OrigMixin.best_match(self, fallback_matches)

        if result is not None:
            return next(
                item
                for item in matches
                if _locale_delim_re.split(item, 1)[0] == result
            )

        return default


assert OrigMIME._value_matches is MIMEAccept._value_matches
assert OrigMIME._specificity is MIMEAccept._specificity
assert OrigLang._value_matches is LanguageAccept._value_matches
assert OrigCharset._value_matches is CharsetAccept._value_matches
assert OrigMIME.best_match is OrigMixin.best_match
assert OrigMIME._best_single_match is OrigMixin._best_single_match
assert OrigLang._best_single_match is OrigMixin._best_single_match

NAN = float("nan")
QPOOL = [1, 1.0, 0, 0.0, -0.0, 0.5, 0.5, 0.3, 0.8, 0.8, 0.001, 0.999, -1, -0.5, 2, 1.5, NAN,
         float("inf"), True, False]

POOLS = {
    "generic": (
        ["*", "gzip", "GZIP", "br", "identity", "deflate", "x", "", "a", "A", "b"],
        ["gzip", "br", "identity", "deflate", "Gzip", "x", "", "a", "b", "*", "zstd"],
    ),
    "mime": (
        ["*/*", "text/*", "text/html", "TEXT/HTML", "text/html;level=1", "text/html; level=2",
         "text/plain", "application/json", "application/*", "image/png", "*/html", "text",
         "*", "", "text/html;level=1;q2=x", "application/xhtml+xml", "text/html;LEVEL=1",
         "a/b;x=1;y=2", "a/b;y=2;x=1"],
        ["text/html", "text/plain", "application/json", "image/png", "text/html;level=1",
         "text/html;level=2", "application/xml", "*/*", "text/*", "a/b;y=2;x=1", "a/b",
         "Text/HTML", "application/xhtml+xml", "text", "*/html", "", "image/*"],
    ),
    "lang": (
        ["*", "en", "en-US", "en_us", "EN-gb", "de", "de-DE", "de-AT", "fr", "fr-CA", "zh-Hant-TW",
         "zh", "es", "", "e", "en-"],
        ["en", "en-US", "en-GB", "de", "de-DE", "de_CH", "fr", "fr-FR", "zh", "zh-Hant", "zh-Hant-TW",
         "es-MX", "it", "", "EN", "en_US"],
    ),
    "charset": (
        ["*", "utf-8", "UTF8", "latin1", "iso-8859-1", "ascii", "us-ascii", "utf-16", "bogus", "", "cp1252"],
        ["utf-8", "utf8", "iso-8859-1", "latin-1", "ascii", "utf-16", "bogus", "BOGUS", "cp1252", "", "utf_8"],
    ),
}
CLASSES = {
    "generic": (Accept, OrigAccept),
    "mime": (MIMEAccept, OrigMIME),
    "lang": (LanguageAccept, OrigLang),
    "charset": (CharsetAccept, OrigCharset),
}


def run(obj, offers, default, as_iter):
    res = []
    kw = {} if default is Ellipsis else {"default": default}
    m = iter(offers) if as_iter else offers
    try:
        res.append(("best_match", obj.best_match(m, **kw)))
    except BaseException as e:  # noqa: BLE001
        res.append(("EXC", type(e).__name__, str(e)))
    for o in offers[:4]:
        try:
            r = obj._best_single_match(o)
            res.append(("single", None if r is None else (r[0], repr(r[1]), type(r).__name__)))
        except BaseException as e:  # noqa: BLE001
            res.append(("EXC", type(e).__name__, str(e)))
    return res


def norm(x):
    return repr(x)


def main():
    rng = random.Random(170017)
    n = 0
    chosen = none = exc = 0
    for i in range(40000):
        fam = rng.choice(list(POOLS))
        cpool, spool = POOLS[fam]
        new_cls, old_cls = CLASSES[fam]
        mode = rng.random()
        if mode < 0.08:
            values = None
        elif mode < 0.3:
            # through the real parser
            hdr = ", ".join(
                rng.choice(cpool) + (f";q={rng.choice(['0', '1', '0.5', '0.8', '0.3', '0.80', '1.0', 'x', '2'])}" if rng.random() < 0.7 else "")
                for _ in range(rng.randint(0, 6))
            )
            values = list(parse_accept_header(hdr, new_cls))
            if rng.random() < 0.1:
                values = None if not hdr else values
        else:
            values = [(rng.choice(cpool), rng.choice(QPOOL)) for _ in range(rng.randint(0, 7))]
        new = new_cls(values)
        old = old_cls(values)
        assert list.__eq__(new, old) or any(q != q for _, q in new), (new, old)
        k = rng.randint(0, 6)
        offers = [rng.choice(spool) for _ in range(k)]
        if rng.random() < 0.3:
            offers = tuple(offers)
        default = rng.choice([Ellipsis, Ellipsis, None, "DEFAULT", offers[0] if offers else "d"])
        as_iter = fam != "lang" and rng.random() < 0.15
        a = run(old, list(offers) if isinstance(offers, list) else offers, default, as_iter)
        b = run(new, list(offers) if isinstance(offers, list) else offers, default, as_iter)
        n += 1
        if norm(a) != norm(b):
            print("FAIL", fam, values, offers, default, a, b)
            sys.exit(1)
        if a[0][0] == "EXC":
            exc += 1
        elif a[0][1] is None:
            none += 1
        else:
            chosen += 1
    # malformed client lists (bad tuple shapes) must fail identically
    for values in ([("a",)], [("a", 1, 2)], [(5, 1)], [("a", "x")], [("*", None)], [(None, 1)]):
        for fam, (new_cls, old_cls) in CLASSES.items():
            outs = []
            for cls in (old_cls, new_cls):
                try:
                    obj = cls(values)
                    outs.append(run(obj, ["a", "a/b", "en"], Ellipsis, False))
                except BaseException as e:  # noqa: BLE001
                    outs.append(("CTOR-EXC", type(e).__name__))
            n += 1
            if norm(outs[0]) != norm(outs[1]):
                print("FAIL", fam, values, outs)
                sys.exit(1)
    print(f"compared {n} cases: chosen={chosen} none/default={none} exceptions={exc}")
    print("PASS")


if __name__ == "__main__":
    main()
