"""Differential check for refactoring 1 (dump_cookie value quoting helper).

Compares werkzeug.http.dump_cookie from the worktree against a pasted copy of
the ORIGINAL implementation on generated inputs (return value, exception type
and message, emitted warnings), and checks the round trip through parse_cookie.
"""
import random
import re
import sys
import warnings
from datetime import datetime
from datetime import timedelta
from datetime import timezone
from urllib.parse import quote

from werkzeug import http as H
from werkzeug.http import http_date

_o_no_quote_re = re.compile(r"[\w!#$%&'()*+\-./:<=>?@\[\]^`{|}~]*", re.A)
_o_slash_re = re.compile(rb"[\x00-\x1f\",;\\\x7f-\xff]", re.A)
_o_slash_map = {b'"': b'\\"', b"\\": b"\\\\"}
_o_slash_map.update(
    (v.to_bytes(1, "big"), b"\\%03o" % v)
    for v in [*range(0x20), *b",;", *range(0x7F, 256)]
)


def orig_dump_cookie(
    key,
    value="",
    max_age=None,
    expires=None,
    path="/",
    domain=None,
    secure=False,
    httponly=False,
    sync_expires=True,
    max_size=4093,
    samesite=None,
    partitioned=False,
):
    if path is not None:
        path = quote(path, safe="%!$&'()*+,/:=@")

    if domain:
        domain = domain.partition(":")[0].lstrip(".").encode("idna").decode("ascii")

    if isinstance(max_age, timedelta):
        max_age = int(max_age.total_seconds())

    if expires is not None:
        if not isinstance(expires, str):
            expires = http_date(expires)
    elif max_age is not None and sync_expires:
        expires = http_date(datetime.now(tz=timezone.utc).timestamp() + max_age)

    if samesite is not None:
        samesite = samesite.title()

        if samesite not in {"Strict", "Lax", "None"}:
            raise ValueError("SameSite must be 'Strict', 'Lax', or 'None'.")

    if partitioned:
        secure = True

    if not _o_no_quote_re.fullmatch(value):
        value = _o_slash_re.sub(
            lambda m: _o_slash_map[m.group()], value.encode()
        ).decode("ascii")
        value = f'"{value}"'

    buf = [f"{key.encode().decode('latin1')}={value}"]

    for k, v in (
        ("Domain", domain),
        ("Expires", expires),
        ("Max-Age", max_age),
        ("Secure", secure),
        ("HttpOnly", httponly),
        ("Path", path),
        ("SameSite", samesite),
        ("Partitioned", partitioned),
    ):
        if v is None or v is False:
            continue

        if v is True:
            buf.append(k)
            continue

        buf.append(f"{k}={v}")

    rv = "; ".join(buf)
    cookie_size = len(rv)

    if max_size and cookie_size > max_size:
        value_size = len(value)
        warnings.warn(
            f"The '{key}' cookie is too large: the value was {value_size} bytes but the"
            f" header required {cookie_size - value_size} extra bytes. The final size"
            f" was {cookie_size} bytes but the limit is {max_size} bytes. Browsers may"
            " silently ignore cookies larger than this.",
            stacklevel=2,
        )

    return rv


def run(f, args, kwargs):
    with warnings.catch_warnings(record=True) as w:
        warnings.simplefilter("always")
        try:
            out = ("ok", f(*args, **kwargs))
        except BaseException as e:  # noqa: B036
            out = ("exc", type(e), str(e))
    return out, [(x.category, str(x.message)) for x in w]


rng = random.Random(1313)
SPECIAL = list('";,\\ \t\r\n\x00\x01\x1f\x7f\x80\xff=%') + ["é", "€", "\U0001f36a", "\ud800", " "]
SAFE = "abcXYZ019_!#$%&'()*+-./:<=>?@[]^`{|}~"


def rand_value():
    mode = rng.randrange(6)
    n = rng.choice([0, 1, 2, 3, 5, 8, 20])
    if mode == 0:
        return "".join(rng.choice(SAFE) for _ in range(n))
    if mode == 1:
        return "".join(rng.choice(SPECIAL) for _ in range(n))
    if mode == 2:
        return "".join(rng.choice(SPECIAL + list(SAFE)) for _ in range(n))
    if mode == 3:
        return "".join(chr(rng.randrange(0, 0x300)) for _ in range(n))
    if mode == 4:
        return "".join(chr(rng.choice([rng.randrange(0x110000), rng.randrange(256)])) for _ in range(n))
    return rng.choice(['x; Secure', 'a"; Domain=evil.example', "v\r\nSet-Cookie: a=b", "\\073", '""', '"', "a b", "x" * 5000])


def rand_kwargs():
    kw = {}
    if rng.random() < 0.4:
        kw["max_age"] = rng.choice([None, 0, 1, 3600, -5, timedelta(days=1), timedelta(seconds=1.7), True])
    if rng.random() < 0.3:
        kw["expires"] = rng.choice([None, 0, 1700000000, 1.5, "Thu, 01 Jan 1970 00:00:00 GMT", datetime(2030, 1, 2, 3, 4, 5), datetime(2030, 1, 2, tzinfo=timezone.utc), "x; y"])
    if rng.random() < 0.4:
        kw["path"] = rng.choice([None, "/", "/a b", "/a;b", "/é", "", "/%20x", "/a,b=c"])
    if rng.random() < 0.4:
        kw["domain"] = rng.choice([None, "", "example.com", ".example.com", "localhost:5000", "bücher.example", "a..b", "x" * 70 + ".com", "a b;c"])
    if rng.random() < 0.3:
        kw["secure"] = rng.choice([True, False])
    if rng.random() < 0.3:
        kw["httponly"] = rng.choice([True, False])
    if rng.random() < 0.3:
        kw["sync_expires"] = rng.choice([True, False])
    if rng.random() < 0.3:
        kw["max_size"] = rng.choice([0, 1, 10, 50, 4093])
    if rng.random() < 0.4:
        kw["samesite"] = rng.choice([None, "strict", "LAX", "None", "none", "Strict", "bad", "", "lax; x"])
    if rng.random() < 0.3:
        kw["partitioned"] = rng.choice([True, False])
    return kw


def rand_key():
    return rng.choice(["k", "session", "a b", "kéy", "", "k=x", "\U0001f36a", "\ud800"])


bad = 0
n = 0
cases = [((rand_key(), rand_value()), rand_kwargs()) for _ in range(6000)]
# every single code point below 0x300 and a sample above, alone and embedded
for cp in list(range(0x300)) + [rng.randrange(0x300, 0x110000) for _ in range(500)]:
    cases.append((("k", chr(cp)), {}))
    cases.append((("k", "a" + chr(cp) + "b"), {"secure": True}))

for args, kwargs in cases:
    n += 1
    a = run(orig_dump_cookie, args, kwargs)
    b = run(H.dump_cookie, args, kwargs)
    if a != b:
        # the only time dependent part is Expires derived from now(); retry once
        a = run(orig_dump_cookie, args, kwargs)
        b2 = run(H.dump_cookie, args, kwargs)
        if a != b2 and a != b:
            bad += 1
            if bad < 10:
                print("MISMATCH", args, kwargs, a, b2)
            continue
        b = b2
    # round trip for successful, unparameterised-key dumps
    if b[0][0] == "ok" and args[0] == "k":
        header = b[0][1]
        pair = header.partition(";")[0]
        try:
            expect = args[1].encode().decode(errors="replace")
        except UnicodeEncodeError:
            expect = None
        if expect is not None:
            got = H.parse_cookie(pair).get("k")
            want = H.parse_cookie(a[0][1].partition(";")[0]).get("k")
            if got != want:
                bad += 1
                print("ROUNDTRIP MISMATCH", args, got, want)

print(f"{n} cases, {bad} mismatches")
print("PASS" if bad == 0 else "FAIL")
sys.exit(0 if bad == 0 else 1)
