"""Differential check: refactored werkzeug.security.safe_join vs. the original."""
import itertools
import os
import posixpath
import random

import werkzeug.security as sec

_os_alt_seps = list(
    sep for sep in [os.sep, os.path.altsep] if sep is not None and sep != "/"
)


def orig_safe_join(directory, *pathnames):
    if not directory:
        directory = "."

    parts = [directory]

    for filename in pathnames:
        if filename != "":
            filename = posixpath.normpath(filename)

        if (
            any(sep in filename for sep in _os_alt_seps)
            or os.path.isabs(filename)
            # ntpath.isabs doesn't catch this on Python < 3.11
            or filename.startswith("/")
            or filename == ".."
            or filename.startswith("../")
        ):
            return None

        parts.append(filename)

    return posixpath.join(*parts)


def run(f, *a):
    try:
        return ("ok", f(*a))
    except BaseException as e:  # noqa: B036
        return ("exc", type(e).__name__)


ATOMS = ["", ".", "..", "/", "//", "\\", "\x00", "a", "b.txt", "...", " ", "~", "C:",
         "..\\", "../", "./", "a/..", "a/../..", "\u00e9", "%2e%2e", "..a", "a.."]
DIRS = ["", ".", "/srv/static", "static", "static/", "/", "..", "a/../b", "C:\\x"]
ODD = [None, b"", b"a", b"../x", 1, ("a",)]


def gen_segment(rng):
    n = rng.randint(0, 6)
    return "".join(rng.choice(ATOMS + ["/", "/", ".", ".."]) for _ in range(n))


def main():
    rng = random.Random(1414)
    cases = []
    # exhaustive small combinations
    for d in DIRS:
        cases.append((d,))
        for a in ATOMS:
            cases.append((d, a))
        for a, b in itertools.product(ATOMS, repeat=2):
            cases.append((d, a + b))
            cases.append((d, a + "/" + b))
    for a, b in itertools.product(ATOMS, repeat=2):
        cases.append(("root", a, b))
    # random
    for _ in range(20000):
        d = rng.choice(DIRS)
        k = rng.randint(0, 3)
        cases.append((d, *[gen_segment(rng) for _ in range(k)]))
    # odd-typed arguments (exception types must match too)
    for d in DIRS + ODD:
        for o in ODD + ["", "x", "../x"]:
            cases.append((d, o))
            cases.append((d, "x", o))

    global _os_alt_seps
    bad = 0
    for alt in (None, ["\\"], ["\\", ":"]):
        saved_new, saved_old = sec._os_alt_seps, _os_alt_seps
        if alt is not None:
            sec._os_alt_seps = alt
            _os_alt_seps = alt
        try:
            for c in cases:
                r1, r2 = run(orig_safe_join, *c), run(sec.safe_join, *c)
                if r1 != r2:
                    bad += 1
                    if bad < 10:
                        print("MISMATCH", alt, c, r1, r2)
        finally:
            sec._os_alt_seps, _os_alt_seps = saved_new, saved_old
    print(f"{len(cases) * 3} comparisons")
    print("PASS" if not bad else f"FAIL ({bad})")


if __name__ == "__main__":
    main()
