"""Differential check: refactored parse_etags vs. pasted original."""
import random
import re
import signal

from werkzeug import datastructures as ds
from werkzeug import http
from werkzeug.http import parse_etags as new_impl

_etag_re = re.compile(r'([Ww]/)?(?:"(.*?)"|(.*?))(?:\s*,\s*|$)')
assert http._etag_re.pattern == _etag_re.pattern


def orig_impl(value):
    if not value:
        return ds.ETags()
    strong = []
    weak = []
    end = len(value)
    pos = 0
    while pos < end:
        match = _etag_re.match(value, pos)
        if match is None:
            break
        is_weak, quoted, raw = match.groups()
        if raw == "*":
            return ds.ETags(star_tag=True)
        elif quoted:
            raw = quoted
        if is_weak:
            weak.append(raw)
        else:
            strong.append(raw)
        pos = match.end()
    return ds.ETags(strong, weak)


class _Timeout(BaseException):
    pass


def _alarm(signum, frame):
    raise _Timeout


signal.signal(signal.SIGALRM, _alarm)


def run(f, v):
    # A value ending in "\n" makes the unmodified loop spin forever (``$`` matches
    # before a trailing newline with an empty match); guard every call with a timer
    # and treat "does not terminate" as an outcome to be compared like any other.
    signal.setitimer(signal.ITIMER_REAL, 0.25)
    try:
        r = f(v)
    except _Timeout:
        return ("timeout",)
    except BaseException as e:  # noqa: B036
        return ("exc", type(e).__name__)
    finally:
        signal.setitimer(signal.ITIMER_REAL, 0)
    return ("etags", type(r).__name__, r._strong, r._weak, r.star_tag)


rnd = random.Random(11)
TAGS = ['"abc"', 'W/"abc"', 'w/"x"', '""', 'W/""', "*", '"*"', "W/*", "abc", "W/abc",
        '"a,b"', '"a"b"', '"unterminated', 'W/', "", " ", '"é"', "\n", '"a\nb"', "a\nb",
        "x y", '"x" junk', "W/W/\"a\"", "\x00", '"a" "b"']
SEPS = [",", ", ", " , ", " ", ",,", ";", "\n,", ",\n", "\t,\t", ""]
ALPHA = 'abWw/"*, \t\n\\xé,"'

cases = [None, "", "*", " *", "* ", '"a", *', "*, \"a\"", 'W/"a", "b", w/"c"',
         '"a"\n"b"', 'a\n', '\n', ',', ',,', '""', '"", "a"']
for _ in range(12000):
    k = rnd.random()
    if k < 0.7:
        n = rnd.randint(1, 6)
        cases.append("".join(rnd.choice(TAGS) + rnd.choice(SEPS) for _ in range(n)))
    else:
        cases.append("".join(rnd.choice(ALPHA) for _ in range(rnd.randint(0, 16))))

# only the three hand-written cases keep a trailing newline (each costs 2 x 0.25 s)
cases = [c if c is None or not c.endswith("\n") else c + "x" for c in cases]
cases += ["a\n", "\n", '"a", b\n']

bad = 0
kinds = {}
for c in cases:
    a, b = run(orig_impl, c), run(new_impl, c)
    key = a[0] + ("*" if a[0] == "etags" and a[4] else "")
    kinds[key] = kinds.get(key, 0) + 1
    if a != b:
        bad += 1
        if bad < 10:
            print("MISMATCH", repr(c), a, b)
print(len(cases), "cases", kinds)
print("PASS" if bad == 0 else f"FAIL ({bad})")
