"""Differential check for refactoring 1 (C11).

Compares the refactored werkzeug.http.is_byte_range_valid and
werkzeug.datastructures.range.Range.range_for_length (plus the derived
to_content_range_header / make_content_range and the end-to-end
Response.make_conditional range path) against copies of the ORIGINAL
implementations pasted below.

Run: cd /tmp/wt9-C11 && PYTHONPATH=/tmp/wt9-C11/src /venv/bin/python /tmp/twin5-C11/1/diff_check.py
"""
import itertools
import random

from werkzeug import http
from werkzeug.datastructures import Range
from werkzeug.http import is_byte_range_valid as new_valid
from werkzeug.http import parse_range_header


# ---------------------------------------------------------------- originals
def orig_valid(start, stop, length):
    if (start is None) != (stop is None):
        return False
    elif start is None:
        return length is None or length >= 0
    elif length is None:
        return 0 <= start < stop  # type: ignore
    elif start >= stop:  # type: ignore
        return False
    return 0 <= start < length


def orig_range_for_length(self, length):
    if self.units != "bytes" or length is None or len(self.ranges) != 1:
        return None
    start, end = self.ranges[0]
    if end is None:
        end = length
        if start < 0:
            start += length
    if orig_valid(start, end, length):
        return start, min(end, length)
    return None


def orig_to_content_range_header(self, length):
    range = orig_range_for_length(self, length)
    if range is not None:
        return f"{self.units} {range[0]}-{range[1] - 1}/{length}"
    return None


# ---------------------------------------------------------------- harness
def outcome(fn, *args):
    try:
        rv = fn(*args)
        return ("ok", type(rv).__name__, repr(rv))
    except BaseException as e:  # noqa: B036
        return ("exc", type(e).__name__)


count = 0
failures = []


def check(label, a, b):
    global count
    count += 1
    if a != b:
        failures.append((label, a, b))


# 1. is_byte_range_valid: exhaustive over a small grid incl. None, bools,
#    floats and a few odd types (to compare raised exception types).
vals = [None, -3, -1, 0, 1, 2, 3, 5, 10, 11, 100, True, False, 2.5, "x"]
for start, stop, length in itertools.product(vals, repeat=3):
    check(
        ("valid", start, stop, length),
        outcome(orig_valid, start, stop, length),
        outcome(new_valid, start, stop, length),
    )

rnd = random.Random(1101)
for _ in range(20000):
    start = rnd.choice([None, rnd.randint(-50, 200)])
    stop = rnd.choice([None, rnd.randint(-50, 200)])
    length = rnd.choice([None, rnd.randint(-5, 200)])
    check(
        ("valid-r", start, stop, length),
        outcome(orig_valid, start, stop, length),
        outcome(new_valid, start, stop, length),
    )


# 2. Range.range_for_length / to_content_range_header on constructed Range
#    objects (bypassing validation too, via attribute assignment).
def mk(units, ranges):
    r = Range.__new__(Range)
    r.units = units
    r.ranges = ranges
    return r


ends = [None, -2, 0, 1, 2, 5, 9, 10, 11, 50]
starts = [-50, -11, -10, -9, -1, 0, 1, 4, 9, 10, 11, 49]
lengths = [None, -1, 0, 1, 5, 9, 10, 11, 50, 51]
for units in ("bytes", "Bytes", "items", ""):
    for s in starts:
        for e in ends:
            for ln in lengths:
                for ranges in ([(s, e)], [(s, e), (0, 1)], [], ((s, e),)):
                    r = mk(units, ranges)
                    check(
                        ("rfl", units, ranges, ln),
                        outcome(orig_range_for_length, r, ln),
                        outcome(r.range_for_length, ln),
                    )
                    check(
                        ("crh", units, ranges, ln),
                        outcome(orig_to_content_range_header, r, ln),
                        outcome(r.to_content_range_header, ln),
                    )

# malformed range tuples -> same exception types
for ranges in ([(1,)], [(1, 2, 3)], [(None, None)], [("a", None)], [(None, 5)]):
    for ln in (None, 0, 10):
        r = mk("bytes", ranges)
        check(
            ("rfl-bad", ranges, ln),
            outcome(orig_range_for_length, r, ln),
            outcome(r.range_for_length, ln),
        )

for _ in range(20000):
    n = rnd.choice([1, 1, 1, 1, 0, 2, 3])
    ranges = []
    for _i in range(n):
        s = rnd.randint(-120, 120)
        e = rnd.choice([None, rnd.randint(-5, 130)])
        ranges.append((s, e))
    ln = rnd.choice([None, rnd.randint(-2, 120)])
    units = rnd.choice(["bytes", "bytes", "bytes", "lines"])
    r = mk(units, ranges)
    check(
        ("rfl-r", units, ranges, ln),
        outcome(orig_range_for_length, r, ln),
        outcome(r.range_for_length, ln),
    )
    check(
        ("crh-r", units, ranges, ln),
        outcome(orig_to_content_range_header, r, ln),
        outcome(r.to_content_range_header, ln),
    )

# 3. Through the header parser: generated Range header strings.
pieces = ["0", "1", "5", "9", "10", "11", "99", "", "-", "x", " 3"]
for _ in range(10000):
    k = rnd.choice([1, 1, 1, 2])
    items = []
    for _i in range(k):
        form = rnd.randint(0, 3)
        a, b = rnd.choice(pieces), rnd.choice(pieces)
        items.append([f"{a}-{b}", f"-{b}", f"{a}-", f"{a}"][form])
    header = rnd.choice(["bytes=", "bytes=", "bytes =", "items=", ""]) + ",".join(
        items
    )
    parsed = parse_range_header(header)
    if parsed is None:
        continue
    for ln in (None, 0, 1, 5, 10, 11, 100):
        check(
            ("hdr", header, ln),
            outcome(orig_range_for_length, parsed, ln),
            outcome(parsed.range_for_length, ln),
        )
        check(
            ("hdr-crh", header, ln),
            outcome(orig_to_content_range_header, parsed, ln),
            outcome(parsed.to_content_range_header, ln),
        )
        mcr = parsed.make_content_range(ln)
        exp = orig_range_for_length(parsed, ln)
        check(
            ("hdr-mcr", header, ln),
            None if exp is None else (parsed.units, exp[0], exp[1], ln),
            None if mcr is None else (mcr.units, mcr.start, mcr.stop, mcr.length),
        )

assert http.is_byte_range_valid is new_valid
print(f"{count} comparisons, {len(failures)} failures")
for f in failures[:10]:
    print("  MISMATCH", f)
print("PASS" if not failures else "FAIL")
