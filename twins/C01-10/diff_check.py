"""Differential check for refactoring 1 (MultipartDecoder._parse_data early return).

Run: cd /tmp/wt10-C01 && PYTHONPATH=/tmp/wt10-C01/src /venv/bin/python /tmp/twin6-C01/1/diff_check.py
"""

from __future__ import annotations

import random
import typing as t

from werkzeug.sansio import multipart as mp
from werkzeug.sansio.multipart import LINE_BREAK_RE
from werkzeug.sansio.multipart import MultipartDecoder
from werkzeug.sansio.multipart import State


# ---- ORIGINAL implementation (pasted from the unmodified tree) -------------
class OrigDecoder(MultipartDecoder):
    def _parse_data(self, data: bytes, *, start: bool) -> tuple[bytes, int, bool]:
        # Body parts must start with CRLF (or CR or LF)
        if start:
            match = LINE_BREAK_RE.match(data)
            data_start = t.cast(t.Match[bytes], match).end()
        else:
            data_start = 0

        boundary = b"--" + self.boundary

        if self.buffer.find(boundary) == -1:
            # No complete boundary in the buffer, but there may be
            # a partial boundary at the end. As the boundary
            # starts with either a nl or cr find the earliest and
            # return up to that as data.
            data_end = del_index = self.last_newline(data[data_start:]) + data_start
            # If amount of data after last newline is far from
            # possible length of partial boundary, we should
            # assume that there is no partial boundary in the buffer
            # and return all pending data.
            if (len(data) - data_end) > len(b"\n" + boundary):
                data_end = del_index = len(data)
            more_data = True
        else:
            match = self.boundary_re.search(data)
            if match is not None:
                if match.group(1).startswith(b"--"):
                    self.state = State.EPILOGUE
                else:
                    self.state = State.PART
                data_end = match.start()
                del_index = match.end()
            else:
                data_end = del_index = self.last_newline(data[data_start:]) + data_start
            more_data = match is None

        return bytes(data[data_start:data_end]), del_index, more_data


# ---- input generation ------------------------------------------------------
BOUNDARIES = [b"b", b"XyZ", b"----WebKitFormBoundaryABC123", b"a-b.c", b"--", b"\xe2x"]


def rand_bytes(rng: random.Random, n: int) -> bytes:
    alphabet = b"ab-\r\n \t:;=\"x\xff"
    return bytes(rng.choice(alphabet) for _ in range(n))


def soup(rng: random.Random, boundary: bytes) -> bytes:
    full = b"--" + boundary
    tokens = [
        full,
        b"\r\n" + full,
        b"\n" + full,
        b"\r" + full,
        full + b"--",
        b"\r\n" + full + b"--",
        b"\r\n" + full + b"\r\n",
        b"\r\n" + full + b" \t\r\n",
        b"\r\n",
        b"\n",
        b"\r",
        b"\r\n\r\n",
        b"--",
        b"-",
        b" ",
        b'Content-Disposition: form-data; name="a"',
        b'Content-Disposition: form-data; name="f"; filename="x.txt"',
        b"Content-Type: text/plain",
        b"X-Long: a\r\n b",
    ]
    out = bytearray()
    for _ in range(rng.randint(0, 14)):
        r = rng.random()
        if r < 0.6:
            out += rng.choice(tokens)
        elif r < 0.75:
            k = rng.randint(0, len(full) + 2)
            out += (b"\r\n" + full)[:k]
        elif r < 0.9:
            out += rand_bytes(rng, rng.randint(0, 12))
        else:
            out += rand_bytes(rng, rng.randint(20, 90))
    return bytes(out)


def well_formed(rng: random.Random, boundary: bytes) -> bytes:
    nl = rng.choice([b"\r\n", b"\r\n", b"\n", b"\r"])
    full = b"--" + boundary
    out = bytearray(rng.choice([b"", b"preamble", nl, b"pre" + nl]))
    first = True
    for i in range(rng.randint(0, 4)):
        if not first or rng.random() < 0.5:
            out += nl
        first = False
        out += full + rng.choice([b"", b" ", b"\t "]) + nl
        if rng.random() < 0.5:
            out += b'Content-Disposition: form-data; name="n%d"' % i
        else:
            out += b'Content-Disposition: form-data; name="n%d"; filename="f%d"' % (
                i,
                i,
            )
        out += nl
        if rng.random() < 0.4:
            out += b"Content-Type: text/plain; charset=utf-8" + nl
        out += nl
        pieces = [
            rand_bytes(rng, rng.randint(0, 40)),
            nl,
            b"\r",
            b"\n",
            b"--",
            nl + b"--",
            nl + full[: rng.randint(0, len(full))],
            full[: rng.randint(0, len(full))],
            rand_bytes(rng, rng.randint(60, 200)),
        ]
        for _ in range(rng.randint(0, 5)):
            out += rng.choice(pieces)
    if rng.random() < 0.9:
        out += nl + full + b"--" + rng.choice([b"", nl, b" " + nl, nl + b"epilogue"])
    return bytes(out)


def chunkings(rng: random.Random, body: bytes) -> list[bytes]:
    mode = rng.random()
    if mode < 0.15:
        return [body]
    if mode < 0.3:
        return [body[i : i + 1] for i in range(len(body))]
    if mode < 0.5:
        n = rng.randint(1, 7)
        return [body[i : i + n] for i in range(0, len(body), n)]
    out = []
    i = 0
    while i < len(body):
        n = rng.choice([0, 1, 1, 2, 3, 5, 8, 13, 40, 100])
        out.append(body[i : i + n])
        i += n
    return out


# ---- drivers ---------------------------------------------------------------
def run_decoder(cls: type, boundary: bytes, chunks: list[bytes], **kw: t.Any) -> list:
    dec = cls(boundary, **kw)
    log: list = []
    try:
        for chunk in [*chunks, None]:
            dec.receive_data(chunk)
            while True:
                ev = dec.next_event()
                if isinstance(ev, mp.NeedData):
                    log.append(("need", dec.state, bytes(dec.buffer)))
                    break
                log.append((type(ev).__name__, repr(ev), dec.state, bytes(dec.buffer)))
                if isinstance(ev, mp.Epilogue):
                    break
    except Exception as e:  # noqa: B902
        log.append(("raise", type(e), str(e), dec.state, bytes(dec.buffer)))
    log.append(("search", dec._search_position, dec._parts_decoded))
    return log


def call_parse_data(cls: type, boundary: bytes, buf: bytes, start: bool, same: bool):
    dec = cls(boundary)
    dec.buffer.extend(buf)
    dec.state = State.DATA_START if start else State.DATA
    data = dec.buffer if same else bytes(buf)
    try:
        res: t.Any = dec._parse_data(data, start=start)
        res = (res, tuple(type(x) for x in res))
    except Exception as e:  # noqa: B902
        res = ("raise", type(e))
    return res, dec.state, bytes(dec.buffer)


def main() -> None:
    assert MultipartDecoder._parse_data is not OrigDecoder._parse_data
    rng = random.Random(20240101)
    n_direct = n_stream = 0
    mismatches = 0

    for _ in range(12000):
        boundary = rng.choice(BOUNDARIES)
        buf = soup(rng, boundary) if rng.random() < 0.6 else well_formed(rng, boundary)
        if rng.random() < 0.5:
            # start from somewhere inside, optionally with a leading line break
            buf = buf[rng.randint(0, len(buf)) :]
        if rng.random() < 0.5:
            buf = rng.choice([b"\r\n", b"\n", b"\r"]) + buf
        if rng.random() < 0.5:
            buf = buf[: rng.randint(0, len(buf))]
        for start in (True, False):
            for same in (True, False):
                a = call_parse_data(OrigDecoder, boundary, buf, start, same)
                b = call_parse_data(MultipartDecoder, boundary, buf, start, same)
                n_direct += 1
                if a != b:
                    mismatches += 1
                    if mismatches < 5:
                        print("DIRECT MISMATCH", boundary, buf, start, same, a, b)

    for _ in range(8000):
        boundary = rng.choice(BOUNDARIES)
        body = well_formed(rng, boundary) if rng.random() < 0.7 else soup(rng, boundary)
        kw: dict[str, t.Any] = {}
        if rng.random() < 0.15:
            kw["max_form_memory_size"] = rng.randint(1, 300)
        if rng.random() < 0.15:
            kw["max_parts"] = rng.randint(0, 3)
        for _ in range(3):
            chunks = chunkings(rng, body)
            a = run_decoder(OrigDecoder, boundary, chunks, **kw)
            b = run_decoder(MultipartDecoder, boundary, chunks, **kw)
            n_stream += 1
            if a != b:
                mismatches += 1
                if mismatches < 5:
                    print("STREAM MISMATCH", boundary, body, chunks, a, b)

    print(f"direct _parse_data cases: {n_direct}, decoder runs: {n_stream}")
    print("PASS" if mismatches == 0 else f"FAIL ({mismatches} mismatches)")


if __name__ == "__main__":
    main()
