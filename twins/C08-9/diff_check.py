"""Differential check for refactoring 3 (hash caching of the immutable mixins,
MultiDict.getlist / setdefault / to_dict).

Run as:
    cd /tmp/wt9-C08 && PYTHONPATH=/tmp/wt9-C08/src /venv/bin/python /tmp/twin5-C08/3/diff_check.py

Strategy: a deterministic (seeded) scenario generator is run twice in the same
process -- once against the refactored methods that live in the worktree and
once after monkeypatching the ORIGINAL method bodies (pasted below) onto the
classes that define them, so that every subclass (ImmutableMultiDict,
CombinedMultiDict, FileMultiDict, the ordered variants, ImmutableDict,
ImmutableList ...) picks them up.  Every observation (result repr or exception
type + args) of both runs is compared.  Prints PASS only if all are identical.

The pasted originals are verbatim except that the zero-argument ``super()`` in
``getlist`` is spelled ``super(MultiDict, self)`` because the function is
defined outside the class body here.
"""

from __future__ import annotations

import copy
import pickle
import random
import sys
import warnings

from werkzeug import exceptions
from werkzeug.datastructures import CombinedMultiDict
from werkzeug.datastructures import FileMultiDict
from werkzeug.datastructures import ImmutableDict
from werkzeug.datastructures import ImmutableList
from werkzeug.datastructures import ImmutableMultiDict
from werkzeug.datastructures import ImmutableTypeConversionDict
from werkzeug.datastructures import MultiDict
from werkzeug.datastructures.mixins import ImmutableDictMixin
from werkzeug.datastructures.mixins import ImmutableListMixin
from werkzeug.datastructures.structures import _ImmutableOrderedMultiDict
from werkzeug.datastructures.structures import _OrderedMultiDict

warnings.simplefilter("ignore", DeprecationWarning)

# --------------------------------------------------------------------------
# ORIGINAL implementations
# --------------------------------------------------------------------------


def orig_list___hash__(self):
    if self._hash_cache is not None:
        return self._hash_cache
    rv = self._hash_cache = hash(tuple(self))  # type: ignore[arg-type]
    return rv


def orig_dict___hash__(self):
    if self._hash_cache is not None:
        return self._hash_cache
    rv = self._hash_cache = hash(frozenset(self._iter_hashitems()))
    return rv


def orig_getlist(self, key, type=None):
    try:
        rv = super(MultiDict, self).__getitem__(key)  # type: ignore[assignment]
    except KeyError:
        return []
    if type is None:
        return list(rv)
    result = []
    for item in rv:
        try:
            result.append(type(item))
        except (ValueError, TypeError):
            pass
    return result


def orig_setdefault(self, key, default=None):
    if key not in self:
        self[key] = default  # type: ignore[assignment]

    return self[key]


def orig_to_dict(self, flat=True):
    if flat:
        return dict(self.items())
    return dict(self.lists())


ORIGINALS = [
    (ImmutableListMixin, "__hash__", orig_list___hash__),
    (ImmutableDictMixin, "__hash__", orig_dict___hash__),
    (MultiDict, "getlist", orig_getlist),
    (MultiDict, "setdefault", orig_setdefault),
    (MultiDict, "to_dict", orig_to_dict),
]

# --------------------------------------------------------------------------
# scenario generator
# --------------------------------------------------------------------------

KEYS = ["a", "b", "c", "A", "", 1, 2, None, ("t", 1), 1.0, True, "x-y"]
BAD_KEYS = [[], {}, set()]
VALUES = ["1", "2", "x", "", " 7 ", "3.5", 0, 1, -4, None, 2.5, ("v",), b"9", "1"]
UNHASHABLE_VALUES = [[1], {"k": 1}, {1}]


def conv_value(v):
    if v in ("x", "", None):
        raise ValueError(v)
    return ("conv", v)


def conv_type(v):
    if not isinstance(v, str):
        raise TypeError(v)
    return v.upper()


def conv_keyerror(v):
    raise KeyError(v)


def conv_brk(v):
    raise exceptions.BadRequestKeyError(v)


def conv_runtime(v):
    if v == "x":
        raise RuntimeError("boom")
    return v


class Flag:
    def __init__(self, v):
        self.v = v
        self.calls = 0

    def __bool__(self):
        self.calls += 1
        return self.v


TYPES = [None, int, float, str, len, conv_value, conv_type, conv_keyerror, conv_brk,
         conv_runtime]


def observe(fn):
    try:
        rv = fn()
    except BaseException as e:  # noqa: B902
        return ("EXC", type(e).__name__, repr(e.args))
    return ("OK", type(rv).__name__, repr(rv))


def rand_pairs(rng, allow_unhashable=False):
    pairs = []
    for _ in range(rng.randrange(0, 7)):
        v = rng.choice(VALUES)
        if allow_unhashable and rng.random() < 0.08:
            v = rng.choice(UNHASHABLE_VALUES)
        pairs.append((rng.choice(KEYS), v))
    return pairs


def full_read(md):
    return (
        observe(lambda: list(md.items(multi=True))),
        observe(lambda: [(k, list(v)) for k, v in md.lists()]),
        observe(lambda: list(md.keys())),
        observe(lambda: len(md)),
    )


MD_CLASSES = [MultiDict, MultiDict, MultiDict, FileMultiDict, _OrderedMultiDict]


def mutable_scenario(rng, out):
    cls = rng.choice(MD_CLASSES)
    init = rng.randrange(4)
    pairs = rand_pairs(rng)
    if init == 0:
        md = cls()
    elif init == 1:
        md = cls(pairs)
    elif init == 2:
        m = {}
        for k, v in pairs:
            m.setdefault(k, []).append(v)
        md = cls(m)
    else:
        md = cls(MultiDict(pairs))
    out.append(("init", cls.__name__, init, full_read(md)))

    for _step in range(rng.randrange(10, 24)):
        op = rng.randrange(34)
        key = rng.choice(KEYS) if rng.random() < 0.94 else rng.choice(BAD_KEYS)
        val = rng.choice(VALUES)
        typ = rng.choice(TYPES)
        tname = getattr(typ, "__name__", None)
        if op in (0, 1):
            out.append(("getlist", repr(key), observe(lambda: md.getlist(key))))
        elif op in (2, 3, 4):
            out.append(("getlist-t", repr(key), tname, observe(lambda: md.getlist(key, typ)),
                        observe(lambda: md.getlist(key, type=typ))))
        elif op == 5:
            def fresh():
                a = md.getlist(key)
                a.append("tamper")
                return md.getlist(key)
            out.append(("getlist-fresh", repr(key), observe(fresh)))
        elif op in (6, 7):
            out.append(("setdefault", repr(key), repr(val),
                        observe(lambda: md.setdefault(key, val)), full_read(md)))
        elif op == 8:
            out.append(("setdefault-nodefault", repr(key),
                        observe(lambda: md.setdefault(key)), full_read(md)))
        elif op in (9, 10):
            out.append(("to_dict", observe(lambda: md.to_dict()),
                        observe(lambda: md.to_dict(flat=False)),
                        observe(lambda: md.to_dict(True)), observe(lambda: md.to_dict(0))))
        elif op == 11:
            f = Flag(rng.random() < 0.5)
            out.append(("to_dict-flag", f.v, observe(lambda: md.to_dict(f)), f.calls))
            flag = rng.choice(["", "y", [], [0], None, 2])
            out.append(("to_dict-odd", repr(flag), observe(lambda: md.to_dict(flag))))
        elif op == 12:
            def indep():
                d = md.to_dict(flat=False)
                for v in d.values():
                    v.append("tamper")
                d["new"] = ["x"]
                return list(md.items(multi=True))
            out.append(("to_dict-indep", observe(indep)))
        elif op == 13:
            out.append(("add", repr(key), observe(lambda: md.add(key, val))))
        elif op == 14:
            out.append(("setitem", repr(key), observe(lambda: md.__setitem__(key, val))))
        elif op == 15:
            vals = [rng.choice(VALUES) for _ in range(rng.randrange(0, 4))]
            out.append(("setlist", repr(key), repr(vals), observe(lambda: md.setlist(key, vals))))
        elif op == 16:
            vals = rng.choice([None, [], [val], (val, "q"), iter([val])])
            out.append(("setlistdefault", repr(key),
                        observe(lambda: list(md.setlistdefault(key, vals)))))
        elif op == 17:
            other = rng.choice([
                dict([(k, v) for k, v in rand_pairs(rng)]),
                rand_pairs(rng),
                MultiDict(rand_pairs(rng)),
                {key: [val, val]} if not isinstance(key, (list, dict, set)) else {},
                {"e": []},
            ])
            out.append(("update", observe(lambda: md.update(other))))
        elif op == 18:
            out.append(("pop", repr(key), observe(lambda: md.pop(key)),
                        observe(lambda: md.pop(key, "dflt"))))
        elif op == 19:
            out.append(("popitem", observe(lambda: md.popitem())))
        elif op == 20:
            out.append(("poplist", repr(key), observe(lambda: md.poplist(key))))
        elif op == 21:
            out.append(("popitemlist", observe(lambda: md.popitemlist())))
        elif op == 22:
            out.append(("del", repr(key), observe(lambda: md.__delitem__(key))))
        elif op == 23:
            out.append(("get", repr(key), observe(lambda: md.get(key)),
                        observe(lambda: md.get(key, "d", typ)), observe(lambda: md[key]),
                        observe(lambda: key in md)))
        elif op == 24:
            out.append(("views", observe(lambda: list(md.items())),
                        observe(lambda: list(md.values())),
                        observe(lambda: [list(v) for v in md.listvalues()])))
        elif op == 25:
            def cp():
                c = md.copy()
                c.add("copykey", "v")
                for k in list(c.keys())[:1]:
                    c.setdefault(k, "zz")
                    c.getlist(k).append("t")
                return (type(c).__name__, list(c.items(multi=True)),
                        list(md.items(multi=True)), c == md)
            out.append(("copy", observe(cp)))
        elif op == 26:
            def dc():
                c = copy.deepcopy(md)
                return (type(c).__name__, list(c.items(multi=True)), c == md,
                        c.to_dict(flat=False) == md.to_dict(flat=False))
            out.append(("deepcopy", observe(dc)))
        elif op == 27:
            def rt():
                proto = rng.randrange(0, pickle.HIGHEST_PROTOCOL + 1)
                c = pickle.loads(pickle.dumps(md, proto))
                return (type(c).__name__, list(c.items(multi=True)), c == md,
                        [c.getlist(k) for k in c])
            out.append(("pickle", observe(rt)))
        elif op == 28:
            out.append(("eq", observe(lambda: md == MultiDict(md)),
                        observe(lambda: md == md.to_dict(flat=False)),
                        observe(lambda: md == md.to_dict()), observe(lambda: hash(md))))
        elif op == 29:
            out.append(("repr", observe(lambda: repr(md))))
        elif op == 30:
            out.append(("or", observe(lambda: list((md | {key: val}).items(multi=True))),
                        observe(lambda: md.__ior__([(key, val)]) is md)))
        elif op == 31:
            out.append(("clear", observe(lambda: md.clear())))
        elif op == 32:
            # immutable + combined views of the current state
            def views():
                im = ImmutableMultiDict(md)
                cm = CombinedMultiDict([md, im])
                return (im.getlist(key, typ), im.to_dict(flat=False), cm.getlist(key, typ),
                        cm.to_dict(), cm.to_dict(flat=False), hash(im) == hash(ImmutableMultiDict(md)))
            out.append(("views", repr(key), tname, observe(views)))
        else:
            # setdefault on a key whose bucket is the empty list
            if not isinstance(key, (list, dict, set)) and type(md) is not _OrderedMultiDict:
                md.setlist(key, [])
                out.append(("setdefault-emptybucket", repr(key),
                            observe(lambda: md.setdefault(key, val)),
                            observe(lambda: md.getlist(key, typ)), full_read(md)))
                md.poplist(key)
    out.append(("final", full_read(md), observe(lambda: md.to_dict(flat=False))))


IMMUTABLE_MUTATORS = [
    lambda c: c.add("a", 1),
    lambda c: c.__setitem__("a", 1),
    lambda c: c.__delitem__("a"),
    lambda c: c.pop("a"),
    lambda c: c.pop("a", None),
    lambda c: c.popitem(),
    lambda c: c.poplist("a"),
    lambda c: c.popitemlist(),
    lambda c: c.setdefault("a", 1),
    lambda c: c.setdefault("zz"),
    lambda c: c.setlist("a", [1]),
    lambda c: c.setlistdefault("zz", [1]),
    lambda c: c.update({"a": 1}),
    lambda c: c.clear(),
    lambda c: c.__ior__({"a": 1}),
]

LIST_MUTATORS = [
    lambda c: c.append(1),
    lambda c: c.extend([1]),
    lambda c: c.insert(0, 1),
    lambda c: c.pop(),
    lambda c: c.remove(1),
    lambda c: c.reverse(),
    lambda c: c.sort(),
    lambda c: c.clear(),
    lambda c: c.__setitem__(0, 1),
    lambda c: c.__delitem__(0),
    lambda c: c.__iadd__([1]),
    lambda c: c.__imul__(2),
]


def hash_probe(obj, make_equal):
    """observe hash / cache behaviour of an immutable container"""
    def probe():
        res = [getattr(obj, "_hash_cache", "n/a"), "_hash_cache" in vars(obj)]
        try:
            h1 = hash(obj)
        except TypeError as e:
            return res + ["unhashable", str(e), obj._hash_cache, "_hash_cache" in vars(obj)]
        h2 = hash(obj)
        eq = make_equal()
        res += [h1 == h2, obj._hash_cache == h1, "_hash_cache" in vars(obj),
                hash(eq) == h1, eq == obj, eq._hash_cache == h1,
                len({obj, eq}), type(h1).__name__]
        # a stale / preset cache value is returned as is (including 0)
        forced = make_equal()
        forced._hash_cache = 0
        res.append(hash(forced))
        forced._hash_cache = 12345
        res.append(hash(forced))
        forced._hash_cache = None
        res.append(hash(forced) == h1)
        return res
    return observe(probe)


def immutable_scenario(rng, out):
    kind = rng.randrange(6)
    pairs = rand_pairs(rng, allow_unhashable=True)
    if kind == 0:
        obj = ImmutableMultiDict(pairs)
        mk = lambda: ImmutableMultiDict(list(obj.items(multi=True)))  # noqa: E731
    elif kind == 1:
        obj = _ImmutableOrderedMultiDict(pairs)
        mk = lambda: _ImmutableOrderedMultiDict(list(obj.items(multi=True)))  # noqa: E731
    elif kind == 2:
        obj = ImmutableDict(pairs)
        mk = lambda: ImmutableDict(dict(obj))  # noqa: E731
    elif kind == 3:
        obj = ImmutableTypeConversionDict(pairs)
        mk = lambda: ImmutableTypeConversionDict(dict(obj))  # noqa: E731
    elif kind == 4:
        obj = ImmutableList([v for _, v in pairs])
        mk = lambda: ImmutableList(list(obj))  # noqa: E731
    else:
        inner = [MultiDict(pairs[:3]), ImmutableMultiDict(pairs[3:])]
        obj = CombinedMultiDict(inner)
        mk = lambda: CombinedMultiDict(list(obj.dicts))  # noqa: E731
    out.append(("imm-init", type(obj).__name__, observe(lambda: repr(obj))))
    out.append(("hash", hash_probe(obj, mk)))

    def state():
        if isinstance(obj, list):
            return repr(list(obj))
        if isinstance(obj, MultiDict):
            return repr(list(obj.items(multi=True)))
        return repr(dict(obj))

    for _step in range(rng.randrange(4, 10)):
        op = rng.randrange(8)
        key = rng.choice(KEYS)
        typ = rng.choice(TYPES)
        if op == 0:
            before = state()
            muts = LIST_MUTATORS if isinstance(obj, list) else IMMUTABLE_MUTATORS
            m = rng.choice(muts)
            out.append(("mutator", muts.index(m), observe(lambda: m(obj)), before == state()))
        elif op == 1:
            def rt():
                proto = rng.randrange(0, pickle.HIGHEST_PROTOCOL + 1)
                c = pickle.loads(pickle.dumps(obj, proto))
                same_hash = None
                try:
                    same_hash = hash(c) == hash(obj)
                except TypeError:
                    same_hash = "unhashable"
                return (type(c).__name__, c == obj, same_hash, repr(c))
            out.append(("pickle", observe(rt)))
        elif op == 2:
            def dc():
                c = copy.deepcopy(obj)
                try:
                    same_hash = hash(c) == hash(obj)
                except TypeError:
                    same_hash = "unhashable"
                return (type(c).__name__, c == obj, same_hash, repr(c),
                        copy.copy(obj) is obj)
            out.append(("deepcopy", observe(dc)))
        elif op == 3 and isinstance(obj, MultiDict):
            out.append(("imm-getlist", repr(key), getattr(typ, "__name__", None),
                        observe(lambda: obj.getlist(key, typ)),
                        observe(lambda: obj.to_dict()), observe(lambda: obj.to_dict(flat=False))))
        elif op == 4 and not isinstance(obj, list):
            def cp():
                c = obj.copy()
                c["copykey"] = "v"
                extra = None
                if isinstance(c, MultiDict):
                    extra = (c.setdefault(key, "sd"), c.getlist(key), c.to_dict(flat=False))
                return (type(c).__name__, repr(c), state(), extra)
            out.append(("imm-copy", observe(cp)))
        elif op == 5:
            out.append(("hash-again", hash_probe(obj, mk)))
        elif op == 6 and isinstance(obj, CombinedMultiDict):
            # hash is cached: a later change of a wrapped dict must be treated
            # the same way by both versions
            def stale():
                try:
                    h1 = hash(obj)
                except TypeError:
                    return "unhashable"
                obj.dicts[0].add("late", "v")
                return (hash(obj) == h1, hash(mk()) == h1)
            out.append(("stale-hash", observe(stale)))
        else:
            def fk():
                c = type(obj).fromkeys(["k1", "k2"], "v")
                return (repr(c), hash(c) == hash(type(obj).fromkeys(["k2", "k1"], "v")))
            out.append(("fromkeys", observe(fk)))
    out.append(("imm-final", state()))


def scenario(seed):
    rng = random.Random(seed)
    out = []
    if rng.random() < 0.6:
        mutable_scenario(rng, out)
    else:
        immutable_scenario(rng, out)
    return out


def run_all(n):
    return [scenario(seed) for seed in range(n)]


def main():
    n = 6000
    new = run_all(n)
    saved = [(cls, name, cls.__dict__[name]) for cls, name, _ in ORIGINALS]
    for cls, name, fn in ORIGINALS:
        setattr(cls, name, fn)
    try:
        old = run_all(n)
    finally:
        for cls, name, fn in saved:
            setattr(cls, name, fn)
    n_obs = sum(len(s) for s in new)
    n_exc = repr(new).count("'EXC'")
    bad = [i for i in range(n) if new[i] != old[i]]
    if bad:
        i = bad[0]
        for a, b in zip(new[i], old[i]):
            if a != b:
                print("seed", i, "\n new:", a, "\n old:", b)
                break
        print(f"FAIL ({len(bad)} of {n} scenarios differ)")
        return 1
    print(f"PASS ({n} scenarios, {n_obs} observations, {n_exc} exception outcomes)")
    return 0


if __name__ == "__main__":
    sys.exit(main())
