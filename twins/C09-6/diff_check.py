"""Differential check for property C09: compares the worktree implementation of
werkzeug.wsgi.LimitedStream / get_input_stream / sansio.utils.get_content_length against
a verbatim copy of the ORIGINAL implementation (pasted below, names prefixed ``orig_``).
Prints PASS only if every output, raised exception type, stream position and number of
bytes consumed from the underlying stream is identical.
Run: cd /tmp/wt6-C09 && PYTHONPATH=/tmp/wt6-C09/src /venv/bin/python diff_check.py
"""
from __future__ import annotations

import io
import random
import sys
import typing as t

from werkzeug import wsgi as new_wsgi
from werkzeug.sansio import utils as new_utils
from werkzeug._internal import _plain_int
from werkzeug.exceptions import ClientDisconnected
from werkzeug.exceptions import RequestEntityTooLarge

WSGIEnvironment = dict

# ---------------------------------------------------------------- ORIGINAL code

def orig_sansio_get_content_length(
    http_content_length: str | None = None,
    http_transfer_encoding: str | None = None,
) -> int | None:
    """Return the ``Content-Length`` header value as an int. If the header is not given
    or the ``Transfer-Encoding`` header is ``chunked``, ``None`` is returned to indicate
    a streaming request. If the value is not an integer, or negative, 0 is returned.

    :param http_content_length: The Content-Length HTTP header.
    :param http_transfer_encoding: The Transfer-Encoding HTTP header.

    .. versionadded:: 2.2
    """
    if http_transfer_encoding == "chunked" or http_content_length is None:
        return None

    try:
        return max(0, _plain_int(http_content_length))
    except ValueError:
        return 0


def orig_get_content_length(environ: WSGIEnvironment) -> int | None:
    """Return the ``Content-Length`` header value as an int. If the header is not given
    or the ``Transfer-Encoding`` header is ``chunked``, ``None`` is returned to indicate
    a streaming request. If the value is not an integer, or negative, 0 is returned.

    :param environ: The WSGI environ to get the content length from.

    .. versionadded:: 0.9
    """
    return orig_sansio_get_content_length(
        http_content_length=environ.get("CONTENT_LENGTH"),
        http_transfer_encoding=environ.get("HTTP_TRANSFER_ENCODING"),
    )


def orig_get_input_stream(
    environ: WSGIEnvironment,
    safe_fallback: bool = True,
    max_content_length: int | None = None,
) -> t.IO[bytes]:
    """Return the WSGI input stream, wrapped so that it may be read safely without going
    past the ``Content-Length`` header value or ``max_content_length``.

    If ``Content-Length`` exceeds ``max_content_length``, a
    :exc:`RequestEntityTooLarge`` ``413 Content Too Large`` error is raised.

    If the WSGI server sets ``environ["wsgi.input_terminated"]``, it indicates that the
    server handles terminating the stream, so it is safe to read directly. For example,
    a server that knows how to handle chunked requests safely would set this.

    If ``max_content_length`` is set, it can be enforced on streams if
    ``wsgi.input_terminated`` is set. Otherwise, an empty stream is returned unless the
    user explicitly disables this safe fallback.

    If the limit is reached before the underlying stream is exhausted (such as a file
    that is too large, or an infinite stream), the remaining contents of the stream
    cannot be read safely. Depending on how the server handles this, clients may show a
    "connection reset" failure instead of seeing the 413 response.

    :param environ: The WSGI environ containing the stream.
    :param safe_fallback: Return an empty stream when ``Content-Length`` is not set.
        Disabling this allows infinite streams, which can be a denial-of-service risk.
    :param max_content_length: The maximum length that content-length or streaming
        requests may not exceed.

    .. versionchanged:: 2.3.2
        ``max_content_length`` is only applied to streaming requests if the server sets
        ``wsgi.input_terminated``.

    .. versionchanged:: 2.3
        Check ``max_content_length`` and raise an error if it is exceeded.

    .. versionadded:: 0.9
    """
    stream = t.cast(t.IO[bytes], environ["wsgi.input"])
    content_length = orig_get_content_length(environ)

    if content_length is not None and max_content_length is not None:
        if content_length > max_content_length:
            raise RequestEntityTooLarge()

    # A WSGI server can set this to indicate that it terminates the input stream. In
    # that case the stream is safe without wrapping, or can enforce a max length.
    if "wsgi.input_terminated" in environ:
        if max_content_length is not None:
            # If this is moved above, it can cause the stream to hang if a read attempt
            # is made when the client sends no data. For example, the development server
            # does not handle buffering except for chunked encoding.
            return t.cast(
                t.IO[bytes], OrigLimitedStream(stream, max_content_length, is_max=True)
            )

        return stream

    # No limit given, return an empty stream unless the user explicitly allows the
    # potentially infinite stream. An infinite stream is dangerous if it's not expected,
    # as it can tie up a worker indefinitely.
    if content_length is None:
        return io.BytesIO() if safe_fallback else stream

    return t.cast(t.IO[bytes], OrigLimitedStream(stream, content_length))


class OrigLimitedStream(io.RawIOBase):
    """Wrap a stream so that it doesn't read more than a given limit. This is used to
    limit ``wsgi.input`` to the ``Content-Length`` header value or
    :attr:`.Request.max_content_length`.

    When attempting to read after the limit has been reached, :meth:`on_exhausted` is
    called. When the limit is a maximum, this raises :exc:`.RequestEntityTooLarge`.

    If reading from the stream returns zero bytes or raises an error,
    :meth:`on_disconnect` is called, which raises :exc:`.ClientDisconnected`. When the
    limit is a maximum and zero bytes were read, no error is raised, since it may be the
    end of the stream.

    If the limit is reached before the underlying stream is exhausted (such as a file
    that is too large, or an infinite stream), the remaining contents of the stream
    cannot be read safely. Depending on how the server handles this, clients may show a
    "connection reset" failure instead of seeing the 413 response.

    :param stream: The stream to read from. Must be a readable binary IO object.
    :param limit: The limit in bytes to not read past. Should be either the
        ``Content-Length`` header value or ``request.max_content_length``.
    :param is_max: Whether the given ``limit`` is ``request.max_content_length`` instead
        of the ``Content-Length`` header value. This changes how exhausted and
        disconnect events are handled.

    .. versionchanged:: 2.3
        Handle ``max_content_length`` differently than ``Content-Length``.

    .. versionchanged:: 2.3
        Implements ``io.RawIOBase`` rather than ``io.IOBase``.
    """

    def __init__(self, stream: t.IO[bytes], limit: int, is_max: bool = False) -> None:
        self._stream = stream
        self._pos = 0
        self.limit = limit
        self._limit_is_max = is_max

    @property
    def is_exhausted(self) -> bool:
        """Whether the current stream position has reached the limit."""
        return self._pos >= self.limit

    def on_exhausted(self) -> None:
        """Called when attempting to read after the limit has been reached.

        The default behavior is to do nothing, unless the limit is a maximum, in which
        case it raises :exc:`.RequestEntityTooLarge`.

        .. versionchanged:: 2.3
            Raises ``RequestEntityTooLarge`` if the limit is a maximum.

        .. versionchanged:: 2.3
            Any return value is ignored.
        """
        if self._limit_is_max:
            raise RequestEntityTooLarge()

    def on_disconnect(self, error: Exception | None = None) -> None:
        """Called when an attempted read receives zero bytes before the limit was
        reached. This indicates that the client disconnected before sending the full
        request body.

        The default behavior is to raise :exc:`.ClientDisconnected`, unless the limit is
        a maximum and no error was raised.

        .. versionchanged:: 2.3
            Added the ``error`` parameter. Do nothing if the limit is a maximum and no
            error was raised.

        .. versionchanged:: 2.3
            Any return value is ignored.
        """
        if not self._limit_is_max or error is not None:
            raise ClientDisconnected()

        # If the limit is a maximum, then we may have read zero bytes because the
        # streaming body is complete. There's no way to distinguish that from the
        # client disconnecting early.

    def exhaust(self) -> bytes:
        """Exhaust the stream by reading until the limit is reached or the client
        disconnects, returning the remaining data.

        .. versionchanged:: 2.3
            Return the remaining data.

        .. versionchanged:: 2.2.3
            Handle case where wrapped stream returns fewer bytes than requested.
        """
        if not self.is_exhausted:
            return self.readall()

        return b""

    def readinto(self, b: bytearray) -> int | None:  # type: ignore[override]
        size = len(b)
        remaining = self.limit - self._pos

        if remaining <= 0:
            self.on_exhausted()
            return 0

        if hasattr(self._stream, "readinto"):
            # Use stream.readinto if it's available.
            if size <= remaining:
                # The size fits in the remaining limit, use the buffer directly.
                try:
                    out_size: int | None = self._stream.readinto(b)
                except (OSError, ValueError) as e:
                    self.on_disconnect(error=e)
                    return 0
            else:
                # Use a temp buffer with the remaining limit as the size.
                temp_b = bytearray(remaining)

                try:
                    out_size = self._stream.readinto(temp_b)
                except (OSError, ValueError) as e:
                    self.on_disconnect(error=e)
                    return 0

                if out_size:
                    b[:out_size] = temp_b[:out_size]
        else:
            # WSGI requires that stream.read is available.
            try:
                data = self._stream.read(min(size, remaining))
            except (OSError, ValueError) as e:
                self.on_disconnect(error=e)
                return 0

            out_size = len(data)
            b[:out_size] = data

        if not out_size:
            # Read zero bytes from the stream.
            self.on_disconnect()
            return 0

        self._pos += out_size
        return out_size

    def readall(self) -> bytes:
        if self.is_exhausted:
            self.on_exhausted()
            return b""

        out = bytearray()

        # The parent implementation uses "while True", which results in an extra read.
        while not self.is_exhausted:
            data = self.read(1024 * 64)

            # Stream may return empty before a max limit is reached.
            if not data:
                break

            out.extend(data)

        return bytes(out)

    def tell(self) -> int:
        """Return the current stream position.

        .. versionadded:: 0.9
        """
        return self._pos

    def readable(self) -> bool:
        return True


# ---------------------------------------------------------------- harness


class Boom(Exception):
    """An unrelated exception raised by an underlying stream; must propagate."""


class Under:
    """Base for the fake server input streams. Records every call made on it."""

    def __init__(self, data: bytes, seed: int, fail_at: int, fail_exc, max_frag: int):
        self.data = data
        self.pos = 0
        self.rng = random.Random(seed)
        self.calls = 0
        self.fail_at = fail_at
        self.fail_exc = fail_exc
        self.max_frag = max_frag
        self.log: list = []

    def _take(self, n: int) -> bytes:
        self.calls += 1
        if self.calls == self.fail_at:
            self.log.append(("raise", self.fail_exc.__name__))
            raise self.fail_exc("injected")
        if n is None or n < 0:
            n = len(self.data) - self.pos
        if self.max_frag and n > 0:
            n = min(n, self.rng.randint(1, self.max_frag))
        out = self.data[self.pos : self.pos + n]
        self.pos += len(out)
        return out


class ReadOnlyStream(Under):
    """Only has ``read`` (the minimum WSGI requires)."""

    def read(self, n=-1):
        self.log.append(("read", n))
        return self._take(n)


class ReadintoStream(Under):
    """Has ``readinto`` (and ``read``); fragments; may return None like a
    non-blocking raw stream."""

    none_rate = 0.0

    def read(self, n=-1):
        self.log.append(("read", n))
        return self._take(n)

    def readinto(self, b):
        self.log.append(("readinto", len(b), type(b).__name__))
        if self.none_rate and self.rng.random() < self.none_rate:
            self.calls += 1
            return None
        out = self._take(len(b))
        b[: len(out)] = out
        return len(out)


class BytesIOLogged(io.BytesIO):
    def __init__(self, data):
        super().__init__(data)
        self.log = []

    def readinto(self, b):
        self.log.append(("readinto", len(b)))
        return super().readinto(b)

    def read(self, n=-1):
        self.log.append(("read", n))
        return super().read(n)

    @property
    def pos(self):
        return self.tell()


def make_under(kind, data, seed, fail_at, fail_exc, max_frag):
    if kind == "bytesio":
        return BytesIOLogged(data)
    if kind == "readonly":
        return ReadOnlyStream(data, seed, fail_at, fail_exc, max_frag)
    s = ReadintoStream(data, seed, fail_at, fail_exc, max_frag)
    if kind == "readinto_none":
        s.none_rate = 0.2
    return s


def make_hooked(base, swallow):
    """Subclass that logs the hook calls (and optionally swallows their errors)."""

    class Hooked(base):  # type: ignore[misc, valid-type]
        def __init__(self, *a, **k):
            super().__init__(*a, **k)
            self.hooks = []

        def on_exhausted(self):
            self.hooks.append("exhausted")
            if swallow:
                return None
            return super().on_exhausted()

        def on_disconnect(self, error=None):
            self.hooks.append(("disconnect", type(error).__name__))
            if swallow:
                return None
            return super().on_disconnect(error=error)

    return Hooked


SIZES = [-1, None, 0, 1, 2, 3, 5, 7, 8, 16, 64, 100, 1000, 70000]
ISIZES = [0, 1, 2, 3, 5, 7, 8, 16, 64, 100, 1000, 70000]


def gen_ops(rng, buffered):
    ops = []
    for _ in range(rng.randint(1, 8)):
        if buffered:
            name = rng.choice(
                ["read", "read1", "readline", "readlines", "readinto", "peek", "next",
                 "raw_exhaust", "raw_tell", "readinto_mv"]
            )
        else:
            name = rng.choice(
                ["read", "readline", "readlines", "readinto", "readinto_mv", "readall",
                 "exhaust", "next", "tell", "is_exhausted", "list"]
            )
        if name in ("readinto", "readinto_mv", "peek"):
            arg = rng.choice(ISIZES)
        else:
            arg = rng.choice(SIZES)
        ops.append((name, arg))
    return ops


def run_ops(ls, ops, buffer_size):
    """Run the operations, returning a trace of results / exception type names."""
    raw = ls
    f = ls if buffer_size is None else io.BufferedReader(ls, buffer_size)
    trace = []
    for name, arg in ops:
        try:
            if name == "read":
                r = f.read() if arg is None else f.read(arg)
            elif name == "read1":
                r = f.read1(-1 if arg is None else arg)
            elif name == "readline":
                r = f.readline() if arg is None else f.readline(arg)
            elif name == "readlines":
                r = f.readlines() if arg is None else f.readlines(arg)
            elif name == "readinto":
                buf = bytearray(arg)
                n = f.readinto(buf)
                r = (n, bytes(buf))
            elif name == "readinto_mv":
                buf = bytearray(arg + 3)
                n = f.readinto(memoryview(buf)[:arg])
                r = (n, bytes(buf))
            elif name == "peek":
                r = f.peek(arg)
            elif name == "readall":
                r = f.readall()
            elif name in ("exhaust", "raw_exhaust"):
                r = raw.exhaust()
            elif name == "next":
                r = next(f)
            elif name == "list":
                r = list(f)
            elif name in ("tell", "raw_tell"):
                r = raw.tell()
            elif name == "is_exhausted":
                r = raw.is_exhausted
            else:
                raise AssertionError(name)
            trace.append((name, arg, "ok", r, type(r).__name__))
        except BaseException as e:  # noqa: B036
            if isinstance(e, (KeyboardInterrupt, SystemExit, AssertionError)):
                raise
            trace.append((name, arg, "exc", type(e).__name__))
        trace.append(("pos", getattr(raw, "_pos", None)))
    return trace


FAIL_EXCS = [OSError, ValueError, ConnectionResetError, io.UnsupportedOperation, Boom,
             TimeoutError, RuntimeError]


def gen_body(rng):
    n = rng.choice([0, 1, 2, 5, 10, 17, 64, 100, 300, 5000, 70000, 140000])
    if n > 5000:
        chunk = bytes(rng.randrange(256) for _ in range(257))
        body = (chunk * (n // 257 + 1))[:n]
    else:
        body = bytes(rng.choice(b"ab\nc\r\n\n\x00xyz") for _ in range(n))
    return body


def one_stream_case(rng, failures, idx):
    body = gen_body(rng)
    # limit below, equal to, or above what the client actually sent
    limit = rng.choice(
        [0, 1, len(body), max(0, len(body) - rng.randint(1, 5)), len(body) + rng.randint(1, 5),
         len(body) // 2, len(body) * 2, -1]
    )
    is_max = rng.random() < 0.5
    kind = rng.choice(["bytesio", "readonly", "readinto", "readinto_none"])
    seed = rng.randrange(1 << 30)
    fail_at = rng.choice([0, 0, 0, 1, 2, 3, 5])
    fail_exc = rng.choice(FAIL_EXCS)
    max_frag = rng.choice([0, 0, 1, 2, 7, 100, 5000])
    buffer_size = rng.choice([None, None, 1, 4, 16, 8192])
    hooked = rng.choice([None, False, True])
    ops = gen_ops(rng, buffer_size is not None)

    results = []
    for cls in (OrigLimitedStream, new_wsgi.LimitedStream):
        under = make_under(kind, body, seed, fail_at, fail_exc, max_frag)
        c = cls if hooked is None else make_hooked(cls, hooked)
        ls = c(under, limit, is_max=is_max)
        trace = run_ops(ls, ops, buffer_size)
        results.append((trace, list(under.log), under.pos, getattr(ls, "hooks", None), ls._pos))
    if results[0] != results[1]:
        failures.append(("stream", idx, kind, len(body), limit, is_max, buffer_size, hooked, ops))
    return results[0]


CL_POOL = [None, "", "0", "1", "5", " 7 ", "-3", "abc", "+5", "1_0", "١٢", "10",
           "17", "100", "5000", "1e3", "0x10", "5.0", " ", "--5", "007", "99999999999999999999",
           "\t12\n", "-0", "１２"]
TE_POOL = [None, None, "chunked", "gzip", "Chunked", "chunked, gzip", "", " chunked"]


def one_environ_case(rng, failures, idx):
    body = gen_body(rng)
    kind = rng.choice(["bytesio", "readonly", "readinto"])
    seed = rng.randrange(1 << 30)
    max_frag = rng.choice([0, 1, 7, 100])
    cl = rng.choice(CL_POOL + [str(len(body)), str(len(body) + 2), str(max(len(body) - 2, 0))])
    te = rng.choice(TE_POOL)
    term = rng.choice(["absent", "absent", True, False, None])
    mcl = rng.choice([None, None, 0, 1, 3, 10, 100, len(body), len(body) + 1, 10**6])
    safe = rng.choice([True, True, False, None])
    missing_input = rng.random() < 0.03
    buffer_size = rng.choice([None, None, 4, 8192])
    ops = gen_ops(rng, buffer_size is not None)
    # restrict to ops that exist on every possible returned stream type
    ops = [o for o in ops if o[0] in ("read", "readline", "readlines", "readinto", "next", "read1", "peek")
           and (buffer_size is not None or o[0] not in ("read1", "peek"))]

    results = []
    for fn, lscls in ((orig_get_input_stream, OrigLimitedStream),
                      (new_wsgi.get_input_stream, new_wsgi.LimitedStream)):
        under = make_under(kind, body, seed, 0, OSError, max_frag)
        environ: dict = {}
        if not missing_input:
            environ["wsgi.input"] = under
        if cl is not None:
            environ["CONTENT_LENGTH"] = cl
        if te is not None:
            environ["HTTP_TRANSFER_ENCODING"] = te
        if term != "absent":
            environ["wsgi.input_terminated"] = term
        kwargs = {}
        if mcl is not None:
            kwargs["max_content_length"] = mcl
        if safe is not None:
            kwargs["safe_fallback"] = safe
        try:
            st = fn(environ, **kwargs)
        except Exception as e:
            results.append(("exc", type(e).__name__, list(under.log)))
            continue
        if st is under:
            desc = ("under",)
        elif type(st) is lscls:
            desc = ("limited", st.limit, st._limit_is_max, st._stream is under, st._pos)
        elif type(st) is io.BytesIO:
            desc = ("bytesio", st.getvalue())
        else:
            desc = ("other", type(st).__name__)
        f = st if buffer_size is None else None
        trace = []
        raw = st
        if f is None:
            try:
                f = io.BufferedReader(st, buffer_size)
            except Exception as e:
                trace.append(("wrap-exc", type(e).__name__))
                f = st
        for name, arg in ops:
            try:
                if name == "read":
                    # never do an unbounded read on the bare endless-capable stream types
                    r = f.read(1000 if arg in (None, -1) and st is under else (-1 if arg is None else arg))
                elif name == "read1":
                    r = f.read1(-1 if arg is None else arg)
                elif name == "peek":
                    r = f.peek(arg)
                elif name == "readline":
                    r = f.readline(-1 if arg is None else arg)
                elif name == "readlines":
                    r = f.readlines(-1 if arg is None else arg)
                elif name == "readinto":
                    buf = bytearray(arg or 0)
                    n = f.readinto(buf)
                    r = (n, bytes(buf))
                elif name == "next":
                    r = next(f)
                trace.append((name, arg, "ok", r))
            except Exception as e:
                trace.append((name, arg, "exc", type(e).__name__))
        results.append((desc, trace, list(under.log), under.pos, getattr(raw, "_pos", None)))
    if results[0] != results[1]:
        failures.append(("environ", idx, cl, te, term, mcl, safe, kind, buffer_size, ops))
    return results[0]


class WeirdEq:
    def __eq__(self, other):
        raise Boom("eq")

    __hash__ = None  # type: ignore[assignment]


def content_length_cases(failures):
    n = 0
    te_values = list(TE_POOL) + [b"chunked", 5, WeirdEq()]
    cl_values = list(CL_POOL) + [str(i) for i in range(-20, 200)] + [
        f" {i}\t" for i in range(0, 40)] + ["1" * k for k in range(1, 30)] + [
        5, b"5", 5.0, object()]
    for te in te_values:
        for cl in cl_values:
            out = []
            for fn in (orig_sansio_get_content_length, new_utils.get_content_length):
                try:
                    r = fn(cl, te)
                    out.append(("ok", r, type(r).__name__))
                except Exception as e:
                    out.append(("exc", type(e).__name__))
            if out[0] != out[1]:
                failures.append(("content_length", cl, te, out))
            n += 1
    # keyword / default calling conventions
    for kwargs in ({}, {"http_content_length": "5"}, {"http_transfer_encoding": "chunked"},
                   {"http_content_length": "x", "http_transfer_encoding": "gzip"}):
        a = orig_sansio_get_content_length(**kwargs)
        b = new_utils.get_content_length(**kwargs)
        if a != b or type(a) is not type(b):
            failures.append(("content_length_kw", kwargs, a, b))
        n += 1
    return n


def main():
    failures: list = []
    rng = random.Random(0xC09)
    n_stream = 6000
    n_env = 4000
    stats = {"exc": 0, "ok": 0}
    for i in range(n_stream):
        res = one_stream_case(rng, failures, i)
        for item in res[0]:
            if len(item) > 2 and item[2] in stats:
                stats[item[2]] += 1
    kinds: dict = {}
    for i in range(n_env):
        res = one_environ_case(rng, failures, i)
        k = res[0] if res[0] == "exc" else res[0][0]
        kinds[k] = kinds.get(k, 0) + 1
    n_cl = content_length_cases(failures)
    print(f"stream cases: {n_stream} (op results ok={stats['ok']} exc={stats['exc']}); "
          f"environ cases: {n_env} {kinds}; content-length cases: {n_cl}")
    if failures:
        print(f"FAIL: {len(failures)} mismatches")
        for f in failures[:10]:
            print("  ", f)
        sys.exit(1)
    print("PASS")


if __name__ == "__main__":
    main()
