"""Differential check for refactoring 3 (DebuggedApplication.__call__).

Part A: "spy" applications whose handlers only record that they were
dispatched (and with which arguments) - compares the dispatch decision and
the sequence of gate calls (check_pin_trust) of the refactored ``__call__``
with a pasted copy of the original over the full cross product of the
request parameters and application configurations.

Part B: two complete debugger applications (one with the original
``__call__``) are driven through identical random stateful request
sequences; full responses, cookies and the failure counter are compared.
"""

from __future__ import annotations

import itertools
import random
import typing as t
from urllib.parse import urlencode

from werkzeug.debug import DebuggedApplication
from werkzeug.debug import hash_pin
from werkzeug.debug import PIN_TIME
from werkzeug.debug import Request
from werkzeug.debug import time
from werkzeug.test import Client
from werkzeug.test import EnvironBuilder
from werkzeug.wrappers import Response


# ---- original implementation (verbatim copy) -------------------------------
def orig_call(self, environ, start_response):
    """Dispatch the requests."""
    # important: don't ever access a function here that reads the incoming
    # form data!  Otherwise the application won't have access to that data
    # any more!
    request = Request(environ)
    response = self.debug_application
    if request.args.get("__debugger__") == "yes":
        cmd = request.args.get("cmd")
        arg = request.args.get("f")
        secret = request.args.get("s")
        frame = self.frames.get(request.args.get("frm", type=int))  # type: ignore
        if cmd == "resource" and arg:
            response = self.get_resource(request, arg)  # type: ignore
        elif cmd == "pinauth" and secret == self.secret:
            response = self.pin_auth(request)  # type: ignore
        elif cmd == "printpin" and secret == self.secret:
            response = self.log_pin_request(request)  # type: ignore
        elif (
            self.evalex
            and cmd is not None
            and frame is not None
            and self.secret == secret
            and self.check_pin_trust(environ)
        ):
            response = self.execute_command(request, cmd, frame)  # type: ignore
    elif (
        self.evalex
        and self.console_path is not None
        and request.path == self.console_path
    ):
        response = self.display_console(request)  # type: ignore
    return response(environ, start_response)


NOW = [1_700_000_000.25]
_real_time = time.time
_real_sleep = time.sleep
rng = random.Random(320)
PIN = "123-456-789"
SECRET = "sekrit"


def wsgi_app(environ, start_response):
    if environ["PATH_INFO"] == "/boom":
        raise ValueError("boom")
    return Response("ok")(environ, start_response)


# ---- Part A: spies -----------------------------------------------------------
class SpyMixin:
    """Replace every handler by a recorder; keep the real gates."""

    log: list[t.Any]
    pin_trust_result: t.Any

    def _spy(self, name: str, *args: t.Any) -> t.Any:
        self.log.append((name,) + args)
        return Response(name)

    def debug_application(self, environ, start_response):  # type: ignore
        self.log.append(("debug_application",))
        return Response("app")(environ, start_response)

    def get_resource(self, request, filename):  # type: ignore
        return self._spy("get_resource", filename)

    def pin_auth(self, request):  # type: ignore
        return self._spy("pin_auth")

    def log_pin_request(self, request):  # type: ignore
        return self._spy("log_pin_request")

    def execute_command(self, request, command, frame):  # type: ignore
        return self._spy("execute_command", command, frame)

    def display_console(self, request):  # type: ignore
        return self._spy("display_console")

    def check_pin_trust(self, environ):  # type: ignore
        self.log.append(("check_pin_trust",))
        return self.pin_trust_result


class NewSpy(SpyMixin, DebuggedApplication):
    pass


class OldSpy(SpyMixin, DebuggedApplication):
    __call__ = orig_call  # type: ignore[assignment]


def make_spy(cls: t.Any, evalex: bool, console_path: t.Any, frames: dict) -> t.Any:
    app = cls(wsgi_app, evalex=evalex, pin_security=False)
    app.console_path = console_path
    app.secret = SECRET
    app.frames = dict(frames)
    app.log = []
    app.pin_trust_result = True
    return app


def run_raw(app: t.Any, path: str, query: str, headers: dict[str, str]) -> t.Any:
    env = EnvironBuilder(path=path, query_string=query, headers=headers).get_environ()
    env["wsgi.errors"] = open("/dev/null", "w")
    try:
        resp = Client(app, use_cookies=False).run_wsgi_app(env)
        return ("ok", resp[1], b"".join(resp[0]))
    except BaseException as e:  # noqa: B036
        return ("exc", type(e), str(e))


# ---- Part B helpers -----------------------------------------------------------
class OrigApp(DebuggedApplication):
    __call__ = orig_call  # type: ignore[assignment]


def make_pair(evalex: bool, pin_on: bool, console: bool) -> list[DebuggedApplication]:
    out = []
    for cls in (DebuggedApplication, OrigApp):
        app = cls(
            wsgi_app,
            evalex=evalex,
            pin_security=pin_on,
            console_path="/console" if console else "/nope",
        )
        app._pin_cookie = "__wzdtest"
        if pin_on:
            app.pin = PIN
        app.secret = SECRET
        app.pin_logging = False
        out.append(app)
    return out


def run_full(app: DebuggedApplication, path: str, headers: dict[str, str]) -> t.Any:
    env = EnvironBuilder(path=path, headers=headers).get_environ()
    env["wsgi.errors"] = open("/dev/null", "w")
    try:
        resp = Client(app, use_cookies=False).run_wsgi_app(env)
        body = b"".join(resp[0])
        hs = sorted(
            (k, v) for k, v in resp[2] if k.lower() in ("set-cookie", "content-type")
        )
        if b"EVALEX_TRUSTED" in body:
            # traceback / console pages embed frame ids; compare the gates only
            body = b"html evalex=%d trusted=%d" % (
                b"EVALEX = true" in body,
                b"EVALEX_TRUSTED = true" in body,
            )
        return ("ok", resp[1], hs, body, app._failed_pin_auth.value, 0 in app.frames, len(app.frames))
    except BaseException as e:  # noqa: B036
        return ("exc", type(e), str(e), app._failed_pin_auth.value)


def main() -> None:
    n = 0
    bad = 0

    def check(a: t.Any, b: t.Any, what: t.Any) -> None:
        nonlocal n, bad
        n += 1
        if a != b:
            bad += 1
            if bad < 20:
                print("MISMATCH", what, "\n   old:", a, "\n   new:", b)

    # ---- Part A ---------------------------------------------------------------
    dbg_vals = [None, "yes", "no", "YES", ""]
    cmd_vals = [None, "", "resource", "pinauth", "printpin", "1+1", "Resource", "pinauth "]
    f_vals = [None, "", "style.css"]
    s_vals = [None, "", SECRET, "wrong", SECRET + "x", SECRET.upper()]
    frm_vals = [None, "0", "7", "abc", "-1", ""]
    paths = ["/", "/console", "/console/", "/other"]
    dispatched: dict[str, int] = {}
    frame_obj = object()

    for evalex, console_path, trust in itertools.product(
        [True, False], [None, "/console"], [True, False, None]
    ):
        for dbg, cmd, f, s, frm in itertools.product(
            dbg_vals, cmd_vals, f_vals, s_vals, frm_vals
        ):
            for path in paths if dbg != "yes" or cmd is None else paths[:2]:
                q = {
                    k: v
                    for k, v in [
                        ("__debugger__", dbg), ("cmd", cmd), ("f", f), ("s", s), ("frm", frm)
                    ]
                    if v is not None
                }
                query = urlencode(q)
                results = []
                for cls in (OldSpy, NewSpy):
                    app = make_spy(cls, evalex, console_path, {0: frame_obj, 7: "f7"})
                    app.pin_trust_result = trust
                    r = run_raw(app, path, query, {"Host": "localhost"})
                    results.append((r, app.log))
                check(results[0], results[1], (evalex, console_path, trust, path, query))
                key = results[0][1][-1][0] if results[0][1] else "none"
                dispatched[key] = dispatched.get(key, 0) + 1

    # repeated / odd query strings
    odd_queries = [
        "__debugger__=yes&__debugger__=no&cmd=pinauth&s=sekrit",
        "__debugger__=no&__debugger__=yes&cmd=pinauth&s=sekrit",
        "__debugger__=yes&cmd=pinauth&cmd=printpin&s=sekrit",
        "__debugger__=yes&cmd=pinauth&s=wrong&s=sekrit",
        "__debugger__=yes&cmd=pinauth&s=sekrit&s=wrong",
        "__debugger__=yes&cmd=resource&f=&f=x&s=sekrit",
        "__debugger__=yes&cmd=resource&s=sekrit&frm=0",
        "__debugger__=yes&cmd=resource&frm=0",
        "__debugger__=yes&cmd=x&frm=0&frm=7&s=sekrit",
        "__debugger__=yes&cmd=x&frm=00&s=sekrit",
        "__debugger__=yes&cmd=x&frm=+0&s=sekrit",
        "__debugger__=yes&cmd=x&frm=0&s=sekrit%00",
        "__debugger__=yes&cmd=x&frm=0&s=%FF",
        "__debugger__=yes;cmd=x",
        "__debugger__=yes&cmd=%70inauth&s=sekrit",
        "__debugger__=yes&s=sekrit&frm=0",
    ]
    for query, evalex, trust in itertools.product(odd_queries, [True, False], [True, False, None]):
        results = []
        for cls in (OldSpy, NewSpy):
            app = make_spy(cls, evalex, "/console", {0: frame_obj, 7: "f7"})
            app.pin_trust_result = trust
            r = run_raw(app, "/console", query, {"Host": "localhost"})
            results.append((r, app.log))
        check(results[0], results[1], (evalex, trust, query))

    print("part A dispatch distribution:", dispatched)

    # ---- Part B ---------------------------------------------------------------
    time.time = lambda: NOW[0]  # type: ignore[assignment]
    time.sleep = lambda s: None  # type: ignore[assignment]
    seen_b: dict[t.Any, int] = {}

    def cookie(app: DebuggedApplication) -> str | None:
        r = rng.random()
        now = int(NOW[0])
        if r < 0.35:
            return None
        if r < 0.7:
            return f"{app.pin_cookie_name}={now - rng.randint(0, 60)}|{hash_pin(PIN)}"
        if r < 0.8:
            return f"{app.pin_cookie_name}={now - PIN_TIME - 5}|{hash_pin(PIN)}"
        if r < 0.9:
            return f"{app.pin_cookie_name}={now}|{hash_pin('000')}"
        return f"{app.pin_cookie_name}=" + rng.choice(["", "x", "|", "abc|" + hash_pin(PIN)])

    for _seq in range(500):
        evalex = rng.random() < 0.85
        pin_on = rng.random() < 0.85
        console = rng.random() < 0.85
        new_app, old_app = make_pair(evalex, pin_on, console)
        pins = [PIN, "123456789", " 123-456-789 ", "111-111-111", ""]
        lockout_seq = pin_on and rng.random() < 0.35
        if lockout_seq:
            # burn through the allowed attempts first; afterwards even the
            # correct PIN must stay refused
            pins = [PIN, PIN, "000"]
            for _ in range(rng.randint(9, 13)):
                path = f"/?__debugger__=yes&cmd=pinauth&s={SECRET}&pin=000"
                a = run_full(old_app, path, {"Host": "localhost"})
                b = run_full(new_app, path, {"Host": "localhost"})
                check(a, b, ("burn", path))
        for _step in range(30):
            host = rng.choice(
                ["localhost", "127.0.0.1", "evil.com", "a.localhost:5000",
                 "evillocalhost", "127.0.0.1.evil.com", "localhost", "localhost"]
            )
            secret = rng.choice([SECRET, SECRET, SECRET, SECRET, "wrong", None])
            s_part = "" if secret is None else f"&s={secret}"
            r = rng.random()
            if r < 0.4:
                path = f"/?__debugger__=yes&cmd=pinauth{s_part}&pin={rng.choice(pins)}"
            elif r < 0.45:
                path = f"/?__debugger__=yes&cmd=pinauth{s_part}"  # missing pin arg
            elif r < 0.52:
                path = f"/?__debugger__=yes&cmd=printpin{s_part}"
            elif r < 0.7:
                frm = rng.choice(["0", "0", "0", "1", "x"])
                path = f"/?__debugger__=yes&cmd=1%2B1&frm={frm}{s_part}"
            elif r < 0.75:
                f = rng.choice(["style.css", "nope.css", "", "../__init__.py"])
                path = f"/?__debugger__=yes&cmd=resource&f={f}{s_part}&frm=0"
            elif r < 0.78:
                path = f"/?__debugger__=yes&frm=0{s_part}"
            elif r < 0.9:
                path = "/console"
            elif r < 0.96:
                path = "/boom"
            else:
                path = "/"
            headers = {"Host": host}
            ck = cookie(new_app)
            if ck is not None:
                headers["Cookie"] = ck
            a = run_full(old_app, path, dict(headers))
            b = run_full(new_app, path, dict(headers))
            check(a, b, (evalex, pin_on, console, path, headers))
            key = (
                path.split("&pin=")[0].split("&s=")[0][:44],
                a[1],
                a[3][:38] if a[0] == "ok" else "",
            )
            seen_b[key] = seen_b.get(key, 0) + 1

    print("part B outcome distribution:")
    for k, v in sorted(seen_b.items(), key=repr):
        print("   ", v, k)

    print(f"{n} comparisons, {bad} mismatches")
    print("PASS" if bad == 0 else "FAIL")


if __name__ == "__main__":
    try:
        main()
    finally:
        time.time = _real_time
        time.sleep = _real_sleep
