"""Differential check for refactoring 1 (Response.get_wsgi_headers).

Run: cd /tmp/wt10-C05 && PYTHONPATH=/tmp/wt10-C05/src /venv/bin/python /tmp/twin6-C05/1/diff_check.py
"""
import random
import sys
from urllib.parse import urljoin

from werkzeug.datastructures import Headers
from werkzeug.http import remove_entity_headers
from werkzeug.urls import iri_to_uri
from werkzeug.wrappers import Response
from werkzeug.wsgi import get_current_url


# ---- ORIGINAL implementation (copied verbatim from the unmodified tree) ----
def orig_get_wsgi_headers(self, environ):
    headers = Headers(self.headers)
    location = None
    content_location = None
    content_length = None
    status = self.status_code

    for key, value in headers:
        ikey = key.lower()
        if ikey == "location":
            location = value
        elif ikey == "content-location":
            content_location = value
        elif ikey == "content-length":
            content_length = value

    if location is not None:
        location = iri_to_uri(location)

        if self.autocorrect_location_header:
            # Make the location header an absolute URL.
            current_url = get_current_url(environ, strip_querystring=True)
            current_url = iri_to_uri(current_url)
            location = urljoin(current_url, location)

        headers["Location"] = location

    # make sure the content location is a URL
    if content_location is not None:
        headers["Content-Location"] = iri_to_uri(content_location)

    if 100 <= status < 200 or status == 204:
        headers.remove("Content-Length")
    elif status == 304:
        remove_entity_headers(headers)

    if (
        self.automatically_set_content_length
        and self.is_sequence
        and content_length is None
        and status not in (204, 304)
        and not (100 <= status < 200)
    ):
        content_length = sum(len(x) for x in self.iter_encoded())
        headers["Content-Length"] = str(content_length)

    return headers


STATUSES = (
    [0, 1, 99, 100, 101, 102, 103, 150, 199, 200, 201, 202, 203, 204, 205, 206]
    + [299, 300, 301, 302, 303, 304, 305, 307, 308, 400, 404, 418, 500, 503, 599, 999]
    + ["204 No Content", "304", "100 Continue", "200 OK", "wat", "204", "199 x", "  304 NM "]
)
LOCATIONS = [
    None, "/", "/foo", "foo/bar?x=1", "http://example.org/", "//other/host",
    "/äöü", "http://☃.net/✓?q=é#fräg", "../up", "?only=query",
    "/a b", "/%zz", "", "https://[::1]:8000/x", "/x#frag", "mailto:a@b",
]
HEADER_POOL = [
    ("Content-Type", "text/plain; charset=utf-8"), ("Content-Type", "application/json"),
    ("Content-Encoding", "gzip"), ("Content-Language", "de"), ("Content-MD5", "abc"),
    ("Content-Range", "bytes 0-1/2"), ("Expires", "0"), ("Last-Modified", "x"),
    ("Allow", "GET"), ("ETag", '"abc"'), ("X-Foo", "bar"), ("Set-Cookie", "a=b"),
    ("Set-Cookie", "c=d"), ("content-length", "7"), ("Content-Length", "0"),
    ("CONTENT-LENGTH", "12345"), ("Cache-Control", "no-cache"), ("Vary", "Cookie"),
    ("X-ä", "ü"), ("content-location", "/cl/é"), ("Content-Location", "http://h/☃"),
    ("LOCATION", "/upper"), ("location", "/lower/ä"),
]


def gen(n):
    for _ in range(n):
        yield b"x" * n


class LenNoIter(list):
    pass


def make_body(rng):
    k = rng.randrange(10)
    if k == 0:
        return None
    if k == 1:
        return b"hello world"
    if k == 2:
        return "sträng body"
    if k == 3:
        return [b"a", b"bc", b""]
    if k == 4:
        return ["ä", b"b", "cc☃"]
    if k == 5:
        return (b"tuple", "tüple")
    if k == 6:
        return ("gen", rng.randrange(4))
    if k == 7:
        return []
    if k == 8:
        return ("iter", [b"ab", "c"])
    return [b"x" * rng.randrange(50) for _ in range(rng.randrange(5))]


def realise(body):
    if isinstance(body, tuple) and len(body) == 2 and body[0] == "gen":
        return gen(body[1])
    if isinstance(body, tuple) and len(body) == 2 and body[0] == "iter":
        return iter(body[1])
    return body


def make_environ(rng):
    env = {
        "REQUEST_METHOD": rng.choice(["GET", "HEAD", "POST"]),
        "wsgi.url_scheme": rng.choice(["http", "https"]),
        "SERVER_NAME": rng.choice(["localhost", "example.org"]),
        "SERVER_PORT": rng.choice(["80", "443", "8080"]),
        "SCRIPT_NAME": rng.choice(["", "/app", "/\xc3\xa4pp"]),
        "PATH_INFO": rng.choice(["", "/", "/a/b", "/p\xc3\xa4th", "/a b"]),
        "QUERY_STRING": rng.choice(["", "x=1"]),
    }
    if rng.random() < 0.5:
        env["HTTP_HOST"] = rng.choice(["example.com", "example.com:8443", "bücher.example"])
    if rng.random() < 0.05:
        del env["wsgi.url_scheme"]  # provoke KeyError inside get_current_url
    return env


def make_case(rng):
    hdrs = [rng.choice(HEADER_POOL) for _ in range(rng.randrange(6))]
    loc = rng.choice(LOCATIONS)
    if loc is not None:
        hdrs.insert(rng.randrange(len(hdrs) + 1), ("Location", loc))
    return dict(
        status=rng.choice(STATUSES),
        headers=hdrs,
        body=make_body(rng),
        autocorrect=rng.random() < 0.5,
        auto_cl=rng.random() < 0.8,
        passthrough=rng.random() < 0.15,
        environ=make_environ(rng),
    )


def build(case):
    r = Response(realise(case["body"]), status=case["status"], headers=list(case["headers"]))
    r.autocorrect_location_header = case["autocorrect"]
    r.automatically_set_content_length = case["auto_cl"]
    r.direct_passthrough = case["passthrough"]
    return r


def run(func, case):
    r = build(case)
    try:
        h = func(r, dict(case["environ"]))
        out = ("ok", type(h).__name__, h.to_wsgi_list())
    except Exception as e:  # noqa: BLE001
        out = ("exc", type(e).__name__, str(e))
    # state left behind on the response object
    resp = r.response
    if isinstance(resp, (list, tuple)):
        resp_state = (type(resp).__name__, list(resp))
    else:
        resp_state = (type(resp).__name__, list(resp))  # drain: detects premature consumption
    return out, r.headers.to_wsgi_list(), r.status, resp_state


def main():
    rng = random.Random(50501)
    n = 6000
    bad = 0
    seen_ok = seen_exc = 0
    for i in range(n):
        case = make_case(rng)
        a = run(orig_get_wsgi_headers, case)
        b = run(Response.get_wsgi_headers, case)
        if a[0][0] == "ok":
            seen_ok += 1
        else:
            seen_exc += 1
        if a != b:
            bad += 1
            if bad <= 5:
                print("MISMATCH", case, a, b, sep="\n  ")
    print(f"cases={n} ok={seen_ok} exc={seen_exc} mismatches={bad}")
    if bad == 0:
        print("PASS")
    else:
        print("FAIL")
        sys.exit(1)


if __name__ == "__main__":
    main()
