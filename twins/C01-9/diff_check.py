"""Differential check: refactored werkzeug.formparser.MultiPartParser.parse and
werkzeug.formparser._chunk_iter (from the worktree on PYTHONPATH) vs. a pasted copy
of the ORIGINAL implementations.

Run: cd /tmp/wt9-C01 && PYTHONPATH=/tmp/wt9-C01/src /venv/bin/python diff_check.py
Prints PASS only if all outputs (fields, files, part headers, payload bytes,
stream_factory calls, stream.read call log, raised exception types) are identical.
"""
from __future__ import annotations

import random
import sys
import typing as t
from io import BytesIO

from werkzeug import formparser as new_fp
from werkzeug.datastructures import FileStorage
from werkzeug.datastructures import MultiDict
from werkzeug.exceptions import RequestEntityTooLarge
from werkzeug.sansio.multipart import Data
from werkzeug.sansio.multipart import Epilogue
from werkzeug.sansio.multipart import Field
from werkzeug.sansio.multipart import File
from werkzeug.sansio.multipart import MultipartDecoder
from werkzeug.sansio.multipart import NeedData

# --------------------------------------------------------------------------
# ORIGINAL implementation (verbatim copy from the unmodified tree; only the
# name of the module-level helper is changed to _orig_chunk_iter)
# --------------------------------------------------------------------------
def _orig_chunk_iter(read: t.Callable[[int], bytes], size: int) -> t.Iterator[bytes | None]:
    """Read data in chunks for multipart/form-data parsing. Stop if no data is read.
    Yield ``None`` at the end to signal end of parsing.
    """
    while True:
        data = read(size)

        if not data:
            break

        yield data

    yield None


class OrigMultiPartParser(new_fp.MultiPartParser):
    def parse(
        self, stream: t.IO[bytes], boundary: bytes, content_length: int | None
    ) -> tuple[MultiDict[str, str], MultiDict[str, FileStorage]]:
        current_part: Field | File
        field_size: int | None = None
        container: t.IO[bytes] | list[bytes]
        _write: t.Callable[[bytes], t.Any]

        parser = MultipartDecoder(
            boundary,
            max_form_memory_size=self.max_form_memory_size,
            max_parts=self.max_form_parts,
        )

        fields = []
        files = []

        for data in _orig_chunk_iter(stream.read, self.buffer_size):
            parser.receive_data(data)
            event = parser.next_event()
            while not isinstance(event, (Epilogue, NeedData)):
                if isinstance(event, Field):
                    current_part = event
                    field_size = 0
                    container = []
                    _write = container.append
                elif isinstance(event, File):
                    current_part = event
                    field_size = None
                    container = self.start_file_streaming(event, content_length)
                    _write = container.write
                elif isinstance(event, Data):
                    if self.max_form_memory_size is not None and field_size is not None:
                        # Ensure that accumulated data events do not exceed limit.
                        # Also checked within single event in MultipartDecoder.
                        field_size += len(event.data)

                        if field_size > self.max_form_memory_size:
                            raise RequestEntityTooLarge()

                    _write(event.data)
                    if not event.more_data:
                        if isinstance(current_part, Field):
                            value = b"".join(container).decode(
                                self.get_part_charset(current_part.headers), "replace"
                            )
                            fields.append((current_part.name, value))
                        else:
                            container = t.cast(t.IO[bytes], container)
                            container.seek(0)
                            files.append(
                                (
                                    current_part.name,
                                    FileStorage(
                                        container,
                                        current_part.filename,
                                        current_part.name,
                                        headers=current_part.headers,
                                    ),
                                )
                            )

                event = parser.next_event()

        return self.cls(fields), self.cls(files)


# --------------------------------------------------------------------------
# input generation
# --------------------------------------------------------------------------
BOUNDARIES = [b"b", b"xyz", b"----WebKitFormBoundaryABC123", b"a.b+c(d)", b"--", b"-", b"0123456789" * 4]
LBS = [b"\r\n", b"\n", b"\r"]


def rand_payload(rng: random.Random, boundary: bytes) -> bytes:
    pieces = []
    for _ in range(rng.randint(0, 6)):
        k = rng.randint(0, 9)
        if k == 0:
            pieces.append(bytes(rng.randrange(256) for _ in range(rng.randint(0, 40))))
        elif k == 1:
            pieces.append(rng.choice(LBS) * rng.randint(1, 3))
        elif k == 2:
            # partial delimiter
            full = rng.choice(LBS) + b"--" + boundary
            pieces.append(full[: rng.randint(1, len(full))])
        elif k == 3:
            pieces.append(b"--" + boundary[: max(0, len(boundary) - 1)])
        elif k == 4:
            pieces.append(b"x" * rng.randint(0, 200))
        elif k == 5:
            pieces.append(b"-" * rng.randint(1, 4))
        elif k == 6:
            # a complete boundary string without a leading line break
            pieces.append(b"--" + boundary + rng.choice([b"", b"--", b" ", b"zz"]))
        elif k == 7:
            pieces.append(rng.choice([b"\r", b"\n", b"\r\n"]) + b"-")
        elif k == 8:
            pieces.append(b"abc" + rng.choice(LBS) + b"def")
        else:
            pieces.append(b"")
    return b"".join(pieces)


def rand_body(rng: random.Random, boundary: bytes) -> bytes:
    lb = rng.choice(LBS) if rng.random() < 0.8 else None

    def L() -> bytes:
        return lb if lb is not None else rng.choice(LBS)

    out = bytearray()
    if rng.random() < 0.4:
        out += rand_payload(rng, boundary)
        out += L()
    elif rng.random() < 0.3:
        out += L()
    nparts = rng.randint(0, 4)
    for i in range(nparts):
        out += b"--" + boundary + rng.choice([b"", b" ", b"\t ", b""]) + L()
        r = rng.random()
        name = rng.choice(["a", "field", "f\xfc", "x y", ""])
        if r < 0.45:
            out += f'Content-Disposition: form-data; name="{name}"'.encode()
        elif r < 0.9:
            fn = rng.choice(["t.txt", "", "a b.bin", "☃.png"])
            out += f'Content-Disposition: form-data; name="{name}"; filename="{fn}"'.encode()
            out += L() + b"Content-Type: " + rng.choice([b"text/plain", b"application/octet-stream; charset=utf-8"])
        elif r < 0.95:
            out += b"X-Other: 1"  # missing content-disposition -> ValueError
        else:
            out += b"Content-Disposition: form-data;" + L() + b'\tname="cont"'
        if rng.random() < 0.2:
            out += L() + b"X-Extra:  v " + L() + b" folded"
        if rng.random() < 0.05:
            out += L() + b"X-Bad: \xff\xfe"  # undecodable header -> UnicodeDecodeError
        if lb is None:
            # blank line must be a doubled identical line break to be recognised
            x = rng.choice(LBS)
            out += x + x
        else:
            out += lb + lb
        out += rand_payload(rng, boundary)
        out += L()
    r = rng.random()
    if r < 0.8:
        out += b"--" + boundary + b"--" + rng.choice([b"", b" ", L(), b" " + L()])
        if rng.random() < 0.3:
            out += rand_payload(rng, boundary)
    elif r < 0.9:
        out += b"--" + boundary + L()  # truncated: opens a part that never comes
    # else: no closing delimiter at all
    body = bytes(out)
    r = rng.random()
    if r < 0.1 and body:
        # truncate
        body = body[: rng.randrange(len(body))]
    elif r < 0.15 and body:
        i = rng.randrange(len(body))
        body = body[:i] + bytes([rng.randrange(256)]) + body[i + 1 :]
    return body


def rand_chunks(rng: random.Random, body: bytes) -> list[bytes]:
    mode = rng.randint(0, 5)
    if mode == 0:
        return [body]
    if mode == 1:
        return [body[i : i + 1] for i in range(len(body))]
    if mode == 2:
        n = rng.randint(2, 7)
        return [body[i : i + n] for i in range(0, len(body), n)]
    out = []
    i = 0
    hi = rng.choice([3, 10, 40, 200])
    while i < len(body):
        n = rng.randint(0 if mode == 5 else 1, hi)
        out.append(body[i : i + n])
        i += n
    return out




class LoggedStream:
    """Input stream with configurable short reads / end marker, logs read() calls."""

    def __init__(self, body: bytes, seed: int, mode: int, end: object, as_bytearray: bool):
        self.body = body
        self.pos = 0
        self.rng = random.Random(seed)
        self.mode = mode
        self.end = end
        self.as_bytearray = as_bytearray
        self.log: list = []

    def read(self, size: int = -1):
        self.log.append(size)
        if self.pos >= len(self.body):
            return self.end
        if size is None or size < 0:
            n = len(self.body) - self.pos
        elif self.mode == 0:
            n = size
        elif self.mode == 1:
            n = 1
        else:
            n = self.rng.randint(1, size)
        chunk = self.body[self.pos : self.pos + n]
        self.pos += len(chunk)
        return bytearray(chunk) if self.as_bytearray else chunk


class Factory:
    def __init__(self):
        self.calls: list = []

    def __call__(self, total_content_length, content_type, filename, content_length=None):
        self.calls.append((total_content_length, content_type, filename, content_length))
        return BytesIO()


def run(cls, body, boundary, seed, mode, end, as_ba, buffer_size, mfs, mfp, use_factory, clen):
    stream = LoggedStream(body, seed, mode, end, as_ba)
    fac = Factory() if use_factory else None
    p = cls(stream_factory=fac, max_form_memory_size=mfs, buffer_size=buffer_size, max_form_parts=mfp)
    try:
        form, files = p.parse(stream, boundary, clen)
    except Exception as e:  # noqa: B902
        return ("exc", type(e), str(e) if isinstance(e, ValueError) else None, stream.log, stream.pos, fac.calls if fac else None)
    out_fields = [(k, type(v), v) for k, v in form.items(multi=True)]
    out_files = []
    for k, fs in files.items(multi=True):
        assert isinstance(fs, FileStorage)
        pos = fs.stream.tell()
        out_files.append((k, fs.name, fs.filename, list(fs.headers), fs.content_type, pos, fs.stream.read()))
    return ("ok", type(form), type(files), out_fields, out_files, stream.log, stream.pos, fac.calls if fac else None)


def check_chunk_iter(rng: random.Random) -> int:
    n = 0
    for _ in range(3000):
        items: list = []
        for _ in range(rng.randint(0, 6)):
            items.append(rng.choice([b"a", b"bc", bytearray(b"x"), b"\r\n", b"0" * 10]))
        items.append(rng.choice([b"", None, bytearray(), 0]))
        items.extend([b"late", b""])  # must never be consumed
        size = rng.choice([1, 5, 64 * 1024])
        res = []
        for fn in (_orig_chunk_iter, new_fp._chunk_iter):
            it = iter(list(items))
            log: list = []

            def read(sz, it=it, log=log):
                log.append(sz)
                try:
                    return next(it)
                except StopIteration:
                    raise OSError("eof") from None

            try:
                got = [(type(x), x) for x in fn(read, size)]
                res.append(("ok", got, log))
            except Exception as e:  # noqa: B902
                res.append(("exc", type(e), log))
        if res[0] != res[1]:
            print("CHUNK_ITER MISMATCH", items, res)
            sys.exit(1)
        n += 1
    return n


def main() -> None:
    rng = random.Random(987654321)
    kinds: dict = {}
    n = 0
    for i in range(8000):
        boundary = rng.choice(BOUNDARIES)
        body = rand_body(rng, boundary)
        seed = rng.randrange(1 << 30)
        mode = rng.randint(0, 2)
        end = rng.choice([b"", b"", None])
        as_ba = rng.random() < 0.15
        buffer_size = rng.choice([1, 2, 3, 7, 16, 64, 1024, 64 * 1024])
        mfs = rng.choice([None] * 6 + [5, 20, 100, 500])
        mfp = rng.choice([None] * 6 + [0, 1, 2])
        use_factory = rng.random() < 0.5
        clen = rng.choice([None, len(body)])
        args = (body, boundary, seed, mode, end, as_ba, buffer_size, mfs, mfp, use_factory, clen)
        a = run(OrigMultiPartParser, *args)
        b = run(new_fp.MultiPartParser, *args)
        if a != b:
            print("MISMATCH on input", i, args)
            print(" orig:", a)
            print(" new :", b)
            sys.exit(1)
        key = a[0] if a[0] == "ok" else (a[0], a[1].__name__)
        kinds[key] = kinds.get(key, 0) + 1
        n += 1

    # chunking independence sanity on the new code for the successful cases is
    # implied by equality with the original; additionally compare directly
    # across two buffer sizes to make sure the harness really varies chunking.
    c = check_chunk_iter(rng)
    print("parse cases:", n, "outcomes:", kinds)
    print("_chunk_iter cases:", c)
    print("PASS")


if __name__ == "__main__":
    main()
