"""Differential check for refactoring 3 (wsgi._RangeWrapper iteration)."""
from __future__ import annotations

import io
import random

from werkzeug.test import EnvironBuilder
from werkzeug.wrappers import Response
from werkzeug.wsgi import FileWrapper
from werkzeug.wsgi import _RangeWrapper as NewRW
from werkzeug import wsgi as wz_wsgi
from werkzeug.wrappers import response as wz_resp


class OrigRW:
    def __init__(self, iterable, start_byte=0, byte_range=None):
        self.iterable = iter(iterable)
        self.byte_range = byte_range
        self.start_byte = start_byte
        self.end_byte = None

        if byte_range is not None:
            self.end_byte = start_byte + byte_range

        self.read_length = 0
        self.seekable = hasattr(iterable, "seekable") and iterable.seekable()
        self.end_reached = False

    def __iter__(self):
        return self

    def _next_chunk(self):
        try:
            chunk = next(self.iterable)
            self.read_length += len(chunk)
            return chunk
        except StopIteration:
            self.end_reached = True
            raise

    def _first_iteration(self):
        chunk = None
        if self.seekable:
            self.iterable.seek(self.start_byte)
            self.read_length = self.iterable.tell()
            contextual_read_length = self.read_length
        else:
            while self.read_length <= self.start_byte:
                chunk = self._next_chunk()
            if chunk is not None:
                chunk = chunk[self.start_byte - self.read_length :]
            contextual_read_length = self.start_byte
        return chunk, contextual_read_length

    def _next(self):
        if self.end_reached:
            raise StopIteration()
        chunk = None
        contextual_read_length = self.read_length
        if self.read_length == 0:
            chunk, contextual_read_length = self._first_iteration()
        if chunk is None:
            chunk = self._next_chunk()
        if self.end_byte is not None and self.read_length >= self.end_byte:
            self.end_reached = True
            return chunk[: self.end_byte - contextual_read_length]
        return chunk

    def __next__(self):
        chunk = self._next()
        if chunk:
            return chunk
        self.end_reached = True
        raise StopIteration()

    def close(self):
        if hasattr(self.iterable, "close"):
            self.iterable.close()


class OddSeekable:
    """Seekable iterable whose tell() may not land on the requested offset
    and whose chunk sizes are irregular."""

    def __init__(self, data, sizes, clamp):
        self.data, self.sizes, self.clamp = data, list(sizes), clamp
        self.pos = 0
        self.i = 0
        self.log = []

    def seekable(self):
        return True

    def seek(self, n):
        self.log.append(("seek", n))
        self.pos = min(n, len(self.data)) if self.clamp else n

    def tell(self):
        self.log.append(("tell",))
        return self.pos

    def __iter__(self):
        return self

    def __next__(self):
        if self.pos >= len(self.data):
            raise StopIteration
        size = self.sizes[self.i % len(self.sizes)]
        self.i += 1
        c = self.data[self.pos : self.pos + size]
        self.pos += size
        return c

    def close(self):
        self.log.append(("close",))


rnd = random.Random(3333)


def gen_case():
    n = rnd.choice([0, 1, 2, 5, 10, 17, 40])
    data = bytes(rnd.randrange(256) for _ in range(n))
    kind = rnd.choice(["list", "list", "gen", "filewrapper", "odd", "bytesio"])
    sizes = [rnd.choice([0, 1, 1, 2, 3, 5, 8, 50]) for _ in range(rnd.randint(1, 4))]
    if kind in ("filewrapper",):
        sizes = [max(1, sizes[0])]
    if kind == "odd":
        sizes = [max(1, s) for s in sizes]
    start = rnd.choice([0, 0, 1, 2, 3, n - 1, n, n + 1, rnd.randint(0, n + 3), -1])
    br = rnd.choice([None, 0, 1, 2, 3, n, n + 5, max(0, n - start), rnd.randint(0, n + 3)])
    return data, kind, sizes, start, br, rnd.choice([True, False])


def chunks(data, sizes):
    out, pos, i = [], 0, 0
    guard = 0
    while pos < len(data) and guard < 200:
        s = sizes[i % len(sizes)]
        i += 1
        guard += 1
        out.append(data[pos : pos + s])
        pos += s
    return out


def make_iterable(data, kind, sizes, clamp):
    if kind == "list":
        return chunks(data, sizes)
    if kind == "gen":
        return (c for c in chunks(data, sizes))
    if kind == "filewrapper":
        return FileWrapper(io.BytesIO(data), sizes[0])
    if kind == "bytesio":
        # iterates by lines; seekable()
        return io.BytesIO(data)
    return OddSeekable(data, sizes, clamp)


def drive(cls, case):
    data, kind, sizes, start, br, clamp = case
    it = make_iterable(data, kind, sizes, clamp)
    trace = []
    try:
        w = cls(it, start, br)
    except Exception as e:  # noqa: BLE001
        return [("init-exc", type(e).__name__)]
    for step in range(60):
        try:
            c = next(w)
            trace.append(("chunk", c, w.read_length, w.end_reached))
        except BaseException as e:  # noqa: BLE001
            trace.append(("exc", type(e).__name__, w.read_length, w.end_reached))
            if len(trace) >= 2 and trace[-2][0] == "exc":
                break
    try:
        w.close()
        trace.append("closed")
    except Exception as e:  # noqa: BLE001
        trace.append(("close-exc", type(e).__name__))
    if isinstance(it, OddSeekable):
        trace.append(tuple(it.log))
    trace.append((w.seekable, w.start_byte, w.end_byte, w.byte_range))
    return trace


total = bad = nonempty = 0
for _ in range(40000):
    case = gen_case()
    a, b = drive(OrigRW, case), drive(NewRW, case)
    total += 1
    if any(isinstance(t, tuple) and t and t[0] == "chunk" for t in a):
        nonempty += 1
    if a != b:
        bad += 1
        if bad < 10:
            print("MISMATCH", case, "\n ", a, "\n ", b)

# End-to-end through Response.make_conditional (206 body == declared bytes)
e2e = 0
st = {}
for _ in range(4000):
    n = rnd.choice([1, 2, 10, 33])
    data = bytes(rnd.randrange(256) for _ in range(n))
    kind = rnd.choice(["list", "gen", "filewrapper", "odd"])
    sizes = [rnd.choice([1, 2, 3, 7, 64]) for _ in range(rnd.randint(1, 3))]
    a_ = rnd.randint(0, n + 2)
    hdr = rnd.choice([f"bytes={a_}-{a_ + rnd.randint(-1, n)}", f"bytes={a_}-", f"bytes=-{rnd.randint(0, n + 2)}",
                      "bytes=0-0,2-3", "junk", None])
    env = EnvironBuilder(method=rnd.choice(["GET", "GET", "HEAD", "POST"]),
                         headers={"Range": hdr} if hdr else {}).get_environ()
    results = []
    for cls in (OrigRW, NewRW):
        saved = wz_resp._RangeWrapper
        wz_resp._RangeWrapper = cls
        try:
            r = Response(make_iterable(data, kind, sizes, True), direct_passthrough=True)
            try:
                r.make_conditional(env, accept_ranges=True, complete_length=n)
                body = b"".join(r.response)
                results.append((r.status_code, r.headers.get("Content-Range"), r.headers.get("Content-Length"), body))
            except Exception as e:  # noqa: BLE001
                results.append(("exc", type(e).__name__))
        finally:
            wz_resp._RangeWrapper = saved
    e2e += 1
    st[results[0][0]] = st.get(results[0][0], 0) + 1
    if results[0] != results[1]:
        bad += 1
        if bad < 10:
            print("E2E MISMATCH", hdr, kind, sizes, results)
    elif results[0][0] == 206:
        cr = results[0][1]
        s_, e_ = cr.split(" ")[1].split("/")[0].split("-")
        assert results[0][3] == data[int(s_) : int(e_) + 1], (hdr, kind, sizes, results[0])

print(f"{total} direct cases ({nonempty} yielding data), {e2e} end-to-end cases {st}, {bad} mismatches")
print("PASS" if bad == 0 and nonempty > 1000 else "FAIL")
