"""Differential check for refactoring 3 (werkzeug.test.Cookie._from_response_header and
Client._update_cookies_from_response: loop -> dict(generator) over an extracted helper,
conditional expression -> if statement hoisted before the constructor call, early return
-> nested if, flipped if/else, local aliases).

Run as: cd /tmp/wt3-C13 && PYTHONPATH=/tmp/wt3-C13/src /venv/bin/python /tmp/twin-C13/3/diff_check.py
"""

from __future__ import annotations

import dataclasses
import random
import warnings
from datetime import datetime
from datetime import timedelta
from datetime import timezone

import werkzeug.test as wt
from werkzeug.http import dump_cookie
from werkzeug.http import parse_cookie
from werkzeug.http import parse_date
from werkzeug.test import Client
from werkzeug.test import Cookie


# ---------------------------------------------------------------- ORIGINAL (pasted)
def orig_from_response_header(cls, server_name, path, header):
    header, _, parameters_str = header.partition(";")
    key, _, value = header.partition("=")
    decoded_key, decoded_value = next(parse_cookie(header).items())
    params = {}

    for item in parameters_str.split(";"):
        k, sep, v = item.partition("=")
        params[k.strip().lower()] = v.strip() if sep else None

    return cls(
        key=key.strip(),
        value=value.strip(),
        decoded_key=decoded_key,
        decoded_value=decoded_value,
        expires=parse_date(params.get("expires")),
        max_age=int(params["max-age"] or 0) if "max-age" in params else None,
        domain=params.get("domain") or server_name,
        origin_only="domain" not in params,
        path=params.get("path") or path.rpartition("/")[0] or "/",
        secure="secure" in params,
        http_only="httponly" in params,
        same_site=params.get("samesite"),
    )


def orig_update_cookies_from_response(self, server_name, path, headers):
    if self._cookies is None:
        return

    for header in headers:
        cookie = orig_from_response_header(Cookie, server_name, path, header)

        if cookie._should_delete:
            self._cookies.pop(cookie._storage_key, None)
        else:
            self._cookies[cookie._storage_key] = cookie


# ---------------------------------------------------------------- generators
rng = random.Random(0xC13 + 3)

TOKENS = [
    '"', "\\", ";", ";", "=", "=", ",", " ", "\t", "\n", "\x00", "\x7f", "\xff", "é", "€",
    "\U0001f600", "\ud800", "\\073", "\\\\", '\\"', "a", "b", "k", "v", "0",
    "; Secure", "; secure", ";SECURE=1", "; HttpOnly", "; httponly=", "; Path=/", "; Path=/a/b",
    "; path=", "; Path", "; Domain=example.com", "; Domain=", "; domain", "; Domain=.x.y",
    "; Max-Age=0", "; Max-Age=10", "; max-age=", "; Max-Age", "; Max-Age=abc", "; Max-Age=-1",
    "; Max-Age= 5 ", "; Max-Age=1.5", "; Max-Age=１２",
    "; Expires=Thu, 01 Jan 1970 00:00:00 GMT", "; Expires=Wed, 01 Jan 2031 00:00:00 GMT",
    "; Expires=garbage", "; Expires=", "; expires", "; Expires=Thu, 01 Jan 1970 00:00:01 GMT",
    "; SameSite=Lax", "; samesite=strict", "; SameSite", "; Partitioned", "; =x", "; ;", ";",
    "; A=b=c", "; Path=/x; Path=/y", "; Max-Age=3; Max-Age=0",
]
SAFE = "abcXYZ019_!#$%&'()*+-./:<=>?@[]^`{|}~"


def rand_text(maxlen=10):
    out = []
    for _ in range(rng.randrange(0, maxlen)):
        r = rng.random()
        if r < 0.35:
            out.append(rng.choice(TOKENS[:25]))
        elif r < 0.5:
            out.append(chr(rng.randrange(0, 0x110000)))
        else:
            out.append(rng.choice(SAFE))
    return "".join(out)


def rand_raw_header():
    return "".join(rng.choice(TOKENS) for _ in range(rng.randrange(0, 10)))


def rand_dumped_header():
    kw = {}
    if rng.random() < 0.4:
        kw["max_age"] = rng.choice([0, 1, 3600, -5, timedelta(days=1), None])
    if rng.random() < 0.3:
        kw["expires"] = rng.choice(
            [0, 1, 1700000000, "Thu, 01 Jan 1970 00:00:00 GMT", "garbage",
             datetime(2030, 1, 2, 3, 4, 5, tzinfo=timezone.utc), None]
        )
    if rng.random() < 0.4:
        kw["path"] = rng.choice([None, "/", "", "/a b", "/x;y", "/é", "/a/b/", rand_text()])
    if rng.random() < 0.4:
        kw["domain"] = rng.choice(
            [None, "", "example.com", ".example.com", "example.com:80", "localhost", "bücher.example"]
        )
    for name in ("secure", "httponly", "partitioned"):
        if rng.random() < 0.3:
            kw[name] = rng.choice([True, False])
    if rng.random() < 0.4:
        kw["samesite"] = rng.choice(["strict", "Lax", "none", None])
    key = rng.choice(["k", "sess", "ü", "a b", rand_text(4) or "k"])
    with warnings.catch_warnings():
        warnings.simplefilter("ignore")
        try:
            return dump_cookie(key, rand_text(), **kw)
        except (UnicodeError, ValueError):
            kw.pop("path", None)
            return dump_cookie("k", "fallback", **kw)


def rand_header():
    r = rng.random()
    if r < 0.45:
        return rand_dumped_header()
    if r < 0.6:
        return rand_dumped_header() + rand_raw_header()
    return rand_raw_header()


SERVER_NAMES = ["localhost", "example.com", "a.example.com", ""]
PATHS = ["/", "", "/a", "/a/b", "/a/b/", "a", "//"]


def run(fn, *args):
    try:
        rv = fn(*args)
        if dataclasses.is_dataclass(rv):
            rv = (type(rv), dataclasses.astuple(rv), repr(rv))
        return ("ok", rv)
    except BaseException as e:  # noqa: BLE001  (StopIteration is an Exception, be wide anyway)
        if isinstance(e, (KeyboardInterrupt, SystemExit)):
            raise
        return ("exc", type(e), str(e))


def jar_view(client):
    if client._cookies is None:
        return None
    return [(k, dataclasses.astuple(v)) for k, v in client._cookies.items()]


def main():
    n = 0
    bad = 0
    stats = {"ok": 0, "exc": 0, "delete": 0}

    # 1. Cookie._from_response_header
    for _ in range(15000):
        header = rand_header()
        if rng.random() < 0.005:
            header = rng.choice([None, b"a=b; Path=/", 5])
        sn = rng.choice(SERVER_NAMES)
        p = rng.choice(PATHS)
        n += 1
        a = run(orig_from_response_header, Cookie, sn, p, header)
        b = run(Cookie._from_response_header, sn, p, header)
        stats[a[0]] += 1
        if a != b:
            bad += 1
            if bad <= 10:
                print("MISMATCH from_response_header", repr(header), sn, p, a, b)

    # 2. the extracted helper against the original loop body
    for _ in range(3000):
        item = rng.choice([rand_text(), rand_raw_header(), " Max-Age = 0 ", "Secure", "=x", ""])
        try:
            item.encode("utf-8", "surrogatepass")
        except Exception:  # noqa: BLE001
            continue
        k, sep, v = item.partition("=")
        exp = (k.strip().lower(), v.strip() if sep else None)
        n += 1
        if wt._split_cookie_parameter(item) != exp:
            bad += 1
            print("MISMATCH split", repr(item))

    # 3. Client._update_cookies_from_response: same header sequences on two jars
    def app(environ, start_response):
        start_response("200 OK", [])
        return [b""]

    for i in range(2500):
        use_cookies = i % 25 != 0
        c_old = Client(app, use_cookies=use_cookies)
        c_new = Client(app, use_cookies=use_cookies)
        for _ in range(rng.randrange(1, 5)):
            headers = []
            for _ in range(rng.randrange(0, 5)):
                r = rng.random()
                if r < 0.5:
                    # small key/domain/path space so that overwrite + delete paths are hit
                    headers.append(
                        dump_cookie(
                            rng.choice(["a", "b"]),
                            rng.choice(["1", "two", "th;ree", ""]),
                            path=rng.choice(["/", "/x", None]),
                            domain=rng.choice([None, "example.com"]),
                            max_age=rng.choice([None, None, 0, 60]),
                            expires=rng.choice([None, None, 0, 1900000000]),
                        )
                    )
                else:
                    headers.append(rand_header())
            sn = rng.choice(SERVER_NAMES)
            p = rng.choice(PATHS)
            n += 1
            a = run(orig_update_cookies_from_response, c_old, sn, p, headers)
            b = run(c_new._update_cookies_from_response, sn, p, headers)
            if a != b or jar_view(c_old) != jar_view(c_new):
                bad += 1
                if bad <= 10:
                    print("MISMATCH update", headers, a, b, jar_view(c_old), jar_view(c_new))
                break
            for h in headers:
                try:
                    if orig_from_response_header(Cookie, sn, p, h)._should_delete:
                        stats["delete"] += 1
                except BaseException:  # noqa: BLE001
                    break

    # 4. end to end through Client.open / set_cookie (property sanity on refactored code)
    from werkzeug.wrappers import Request
    from werkzeug.wrappers import Response

    rt = 0
    for _ in range(400):
        val = rand_text()
        try:
            val.encode()
        except UnicodeEncodeError:
            continue

        @Request.application
        def echo(request, val=val):
            if request.path == "/set":
                r = Response("set")
                r.set_cookie("k", val)
                return r
            return Response(repr(request.cookies.get("k")))

        c = Client(echo)
        c.get("/set")
        got = c.get("/get").text
        assert got == repr(val), (val, got)
        rt += 1

    print(f"cases={n} mismatches={bad} stats={stats} roundtrip_checked={rt}")
    print("PASS" if bad == 0 else "FAIL")


if __name__ == "__main__":
    main()
