"""Differential check for C18 refactoring 1.

Focus: Local.__setattr__ / Local.__delattr__ (copy-on-write of the dict held in the ContextVar): guard-clause flip, local renames, storage hoisted into a local

Run: cd /tmp/wt6-C18 && PYTHONPATH=/tmp/wt6-C18/src /venv/bin/python /tmp/twin4-C18/1/diff_check.py

The complete ORIGINAL src/werkzeug/local.py (unmodified tree, HEAD) is pasted below as
ORIGINAL_SOURCE and exec'd as module ``werkzeug._orig_local``; the refactored code is imported
from the worktree (``werkzeug.local``).  The same randomly generated scripts are run against both:
  * interleavings of Local / LocalStack / LocalManager / ContextVar / LocalProxy operations over
    several contextvars contexts (siblings + children forked with copy_context at random points),
  * concurrent threads, * interleaved asyncio tasks, * constructor / class-level descriptor cases.
Every return value, raised exception (type, message, __context__/__cause__ type,
__suppress_context__) and raw storage snapshot is recorded and must be identical.
Prints PASS only if there is no mismatch.
"""

ORIGINAL_SOURCE = r'''from __future__ import annotations

import copy
import math
import operator
import typing as t
from contextvars import ContextVar
from functools import partial
from functools import update_wrapper
from operator import attrgetter

from .wsgi import ClosingIterator

if t.TYPE_CHECKING:
    from _typeshed.wsgi import StartResponse
    from _typeshed.wsgi import WSGIApplication
    from _typeshed.wsgi import WSGIEnvironment

T = t.TypeVar("T")
F = t.TypeVar("F", bound=t.Callable[..., t.Any])


def release_local(local: Local | LocalStack[t.Any]) -> None:
    """Release the data for the current context in a :class:`Local` or
    :class:`LocalStack` without using a :class:`LocalManager`.

    This should not be needed for modern use cases, and may be removed
    in the future.

    .. versionadded:: 0.6.1
    """
    local.__release_local__()


class Local:
    """Create a namespace of context-local data. This wraps a
    :class:`ContextVar` containing a :class:`dict` value.

    This may incur a performance penalty compared to using individual
    context vars, as it has to copy data to avoid mutating the dict
    between nested contexts.

    :param context_var: The :class:`~contextvars.ContextVar` to use as
        storage for this local. If not given, one will be created.
        Context vars not created at the global scope may interfere with
        garbage collection.

    .. versionchanged:: 2.0
        Uses ``ContextVar`` instead of a custom storage implementation.
    """

    __slots__ = ("__storage",)

    def __init__(self, context_var: ContextVar[dict[str, t.Any]] | None = None) -> None:
        if context_var is None:
            # A ContextVar not created at global scope interferes with
            # Python's garbage collection. However, a local only makes
            # sense defined at the global scope as well, in which case
            # the GC issue doesn't seem relevant.
            context_var = ContextVar(f"werkzeug.Local<{id(self)}>.storage")

        object.__setattr__(self, "_Local__storage", context_var)

    def __iter__(self) -> t.Iterator[tuple[str, t.Any]]:
        return iter(self.__storage.get({}).items())

    def __call__(
        self, name: str, *, unbound_message: str | None = None
    ) -> LocalProxy[t.Any]:
        """Create a :class:`LocalProxy` that access an attribute on this
        local namespace.

        :param name: Proxy this attribute.
        :param unbound_message: The error message that the proxy will
            show if the attribute isn't set.
        """
        return LocalProxy(self, name, unbound_message=unbound_message)

    def __release_local__(self) -> None:
        self.__storage.set({})

    def __getattr__(self, name: str) -> t.Any:
        values = self.__storage.get({})

        if name in values:
            return values[name]

        raise AttributeError(name)

    def __setattr__(self, name: str, value: t.Any) -> None:
        values = self.__storage.get({}).copy()
        values[name] = value
        self.__storage.set(values)

    def __delattr__(self, name: str) -> None:
        values = self.__storage.get({})

        if name in values:
            values = values.copy()
            del values[name]
            self.__storage.set(values)
        else:
            raise AttributeError(name)


class LocalStack(t.Generic[T]):
    """Create a stack of context-local data. This wraps a
    :class:`ContextVar` containing a :class:`list` value.

    This may incur a performance penalty compared to using individual
    context vars, as it has to copy data to avoid mutating the list
    between nested contexts.

    :param context_var: The :class:`~contextvars.ContextVar` to use as
        storage for this local. If not given, one will be created.
        Context vars not created at the global scope may interfere with
        garbage collection.

    .. versionchanged:: 2.0
        Uses ``ContextVar`` instead of a custom storage implementation.

    .. versionadded:: 0.6.1
    """

    __slots__ = ("_storage",)

    def __init__(self, context_var: ContextVar[list[T]] | None = None) -> None:
        if context_var is None:
            # A ContextVar not created at global scope interferes with
            # Python's garbage collection. However, a local only makes
            # sense defined at the global scope as well, in which case
            # the GC issue doesn't seem relevant.
            context_var = ContextVar(f"werkzeug.LocalStack<{id(self)}>.storage")

        self._storage = context_var

    def __release_local__(self) -> None:
        self._storage.set([])

    def push(self, obj: T) -> list[T]:
        """Add a new item to the top of the stack."""
        stack = self._storage.get([]).copy()
        stack.append(obj)
        self._storage.set(stack)
        return stack

    def pop(self) -> T | None:
        """Remove the top item from the stack and return it. If the
        stack is empty, return ``None``.
        """
        stack = self._storage.get([])

        if len(stack) == 0:
            return None

        rv = stack[-1]
        self._storage.set(stack[:-1])
        return rv

    @property
    def top(self) -> T | None:
        """The topmost item on the stack.  If the stack is empty,
        `None` is returned.
        """
        stack = self._storage.get([])

        if len(stack) == 0:
            return None

        return stack[-1]

    def __call__(
        self, name: str | None = None, *, unbound_message: str | None = None
    ) -> LocalProxy[t.Any]:
        """Create a :class:`LocalProxy` that accesses the top of this
        local stack.

        :param name: If given, the proxy access this attribute of the
            top item, rather than the item itself.
        :param unbound_message: The error message that the proxy will
            show if the stack is empty.
        """
        return LocalProxy(self, name, unbound_message=unbound_message)


class LocalManager:
    """Manage releasing the data for the current context in one or more
    :class:`Local` and :class:`LocalStack` objects.

    This should not be needed for modern use cases, and may be removed
    in the future.

    :param locals: A local or list of locals to manage.

    .. versionchanged:: 2.1
        The ``ident_func`` was removed.

    .. versionchanged:: 0.7
        The ``ident_func`` parameter was added.

    .. versionchanged:: 0.6.1
        The :func:`release_local` function can be used instead of a
        manager.
    """

    __slots__ = ("locals",)

    def __init__(
        self,
        locals: None
        | (Local | LocalStack[t.Any] | t.Iterable[Local | LocalStack[t.Any]]) = None,
    ) -> None:
        if locals is None:
            self.locals = []
        elif isinstance(locals, Local):
            self.locals = [locals]
        else:
            self.locals = list(locals)  # type: ignore[arg-type]

    def cleanup(self) -> None:
        """Release the data in the locals for this context. Call this at
        the end of each request or use :meth:`make_middleware`.
        """
        for local in self.locals:
            release_local(local)

    def make_middleware(self, app: WSGIApplication) -> WSGIApplication:
        """Wrap a WSGI application so that local data is released
        automatically after the response has been sent for a request.
        """

        def application(
            environ: WSGIEnvironment, start_response: StartResponse
        ) -> t.Iterable[bytes]:
            return ClosingIterator(app(environ, start_response), self.cleanup)

        return application

    def middleware(self, func: WSGIApplication) -> WSGIApplication:
        """Like :meth:`make_middleware` but used as a decorator on the
        WSGI application function.

        .. code-block:: python

            @manager.middleware
            def application(environ, start_response):
                ...
        """
        return update_wrapper(self.make_middleware(func), func)

    def __repr__(self) -> str:
        return f"<{type(self).__name__} storages: {len(self.locals)}>"


class _ProxyLookup:
    """Descriptor that handles proxied attribute lookup for
    :class:`LocalProxy`.

    :param f: The built-in function this attribute is accessed through.
        Instead of looking up the special method, the function call
        is redone on the object.
    :param fallback: Return this function if the proxy is unbound
        instead of raising a :exc:`RuntimeError`.
    :param is_attr: This proxied name is an attribute, not a function.
        Call the fallback immediately to get the value.
    :param class_value: Value to return when accessed from the
        ``LocalProxy`` class directly. Used for ``__doc__`` so building
        docs still works.
    """

    __slots__ = ("bind_f", "fallback", "is_attr", "class_value", "name")

    def __init__(
        self,
        f: t.Callable[..., t.Any] | None = None,
        fallback: t.Callable[[LocalProxy[t.Any]], t.Any] | None = None,
        class_value: t.Any | None = None,
        is_attr: bool = False,
    ) -> None:
        bind_f: t.Callable[[LocalProxy[t.Any], t.Any], t.Callable[..., t.Any]] | None

        if hasattr(f, "__get__"):
            # A Python function, can be turned into a bound method.

            def bind_f(
                instance: LocalProxy[t.Any], obj: t.Any
            ) -> t.Callable[..., t.Any]:
                return f.__get__(obj, type(obj))  # type: ignore

        elif f is not None:
            # A C function, use partial to bind the first argument.

            def bind_f(
                instance: LocalProxy[t.Any], obj: t.Any
            ) -> t.Callable[..., t.Any]:
                return partial(f, obj)

        else:
            # Use getattr, which will produce a bound method.
            bind_f = None

        self.bind_f = bind_f
        self.fallback = fallback
        self.class_value = class_value
        self.is_attr = is_attr

    def __set_name__(self, owner: LocalProxy[t.Any], name: str) -> None:
        self.name = name

    def __get__(self, instance: LocalProxy[t.Any], owner: type | None = None) -> t.Any:
        if instance is None:
            if self.class_value is not None:
                return self.class_value

            return self

        try:
            obj = instance._get_current_object()
        except RuntimeError:
            if self.fallback is None:
                raise

            fallback = self.fallback.__get__(instance, owner)

            if self.is_attr:
                # __class__ and __doc__ are attributes, not methods.
                # Call the fallback to get the value.
                return fallback()

            return fallback

        if self.bind_f is not None:
            return self.bind_f(instance, obj)

        return getattr(obj, self.name)

    def __repr__(self) -> str:
        return f"proxy {self.name}"

    def __call__(
        self, instance: LocalProxy[t.Any], *args: t.Any, **kwargs: t.Any
    ) -> t.Any:
        """Support calling unbound methods from the class. For example,
        this happens with ``copy.copy``, which does
        ``type(x).__copy__(x)``. ``type(x)`` can't be proxied, so it
        returns the proxy type and descriptor.
        """
        return self.__get__(instance, type(instance))(*args, **kwargs)


class _ProxyIOp(_ProxyLookup):
    """Look up an augmented assignment method on a proxied object. The
    method is wrapped to return the proxy instead of the object.
    """

    __slots__ = ()

    def __init__(
        self,
        f: t.Callable[..., t.Any] | None = None,
        fallback: t.Callable[[LocalProxy[t.Any]], t.Any] | None = None,
    ) -> None:
        super().__init__(f, fallback)

        def bind_f(instance: LocalProxy[t.Any], obj: t.Any) -> t.Callable[..., t.Any]:
            def i_op(self: t.Any, other: t.Any) -> LocalProxy[t.Any]:
                f(self, other)  # type: ignore
                return instance

            return i_op.__get__(obj, type(obj))  # type: ignore

        self.bind_f = bind_f


def _l_to_r_op(op: F) -> F:
    """Swap the argument order to turn an l-op into an r-op."""

    def r_op(obj: t.Any, other: t.Any) -> t.Any:
        return op(other, obj)

    return t.cast(F, r_op)


def _identity(o: T) -> T:
    return o


class LocalProxy(t.Generic[T]):
    """A proxy to the object bound to a context-local object. All
    operations on the proxy are forwarded to the bound object. If no
    object is bound, a ``RuntimeError`` is raised.

    :param local: The context-local object that provides the proxied
        object.
    :param name: Proxy this attribute from the proxied object.
    :param unbound_message: The error message to show if the
        context-local object is unbound.

    Proxy a :class:`~contextvars.ContextVar` to make it easier to
    access. Pass a name to proxy that attribute.

    .. code-block:: python

        _request_var = ContextVar("request")
        request = LocalProxy(_request_var)
        session = LocalProxy(_request_var, "session")

    Proxy an attribute on a :class:`Local` namespace by calling the
    local with the attribute name:

    .. code-block:: python

        data = Local()
        user = data("user")

    Proxy the top item on a :class:`LocalStack` by calling the local.
    Pass a name to proxy that attribute.

    .. code-block::

        app_stack = LocalStack()
        current_app = app_stack()
        g = app_stack("g")

    Pass a function to proxy the return value from that function. This
    was previously used to access attributes of local objects before
    that was supported directly.

    .. code-block:: python

        session = LocalProxy(lambda: request.session)

    ``__repr__`` and ``__class__`` are proxied, so ``repr(x)`` and
    ``isinstance(x, cls)`` will look like the proxied object. Use
    ``issubclass(type(x), LocalProxy)`` to check if an object is a
    proxy.

    .. code-block:: python

        repr(user)  # <User admin>
        isinstance(user, User)  # True
        issubclass(type(user), LocalProxy)  # True

    .. versionchanged:: 2.2.2
        ``__wrapped__`` is set when wrapping an object, not only when
        wrapping a function, to prevent doctest from failing.

    .. versionchanged:: 2.2
        Can proxy a ``ContextVar`` or ``LocalStack`` directly.

    .. versionchanged:: 2.2
        The ``name`` parameter can be used with any proxied object, not
        only ``Local``.

    .. versionchanged:: 2.2
        Added the ``unbound_message`` parameter.

    .. versionchanged:: 2.0
        Updated proxied attributes and methods to reflect the current
        data model.

    .. versionchanged:: 0.6.1
        The class can be instantiated with a callable.
    """

    __slots__ = ("__wrapped", "_get_current_object")

    _get_current_object: t.Callable[[], T]
    """Return the current object this proxy is bound to. If the proxy is
    unbound, this raises a ``RuntimeError``.

    This should be used if you need to pass the object to something that
    doesn't understand the proxy. It can also be useful for performance
    if you are accessing the object multiple times in a function, rather
    than going through the proxy multiple times.
    """

    def __init__(
        self,
        local: ContextVar[T] | Local | LocalStack[T] | t.Callable[[], T],
        name: str | None = None,
        *,
        unbound_message: str | None = None,
    ) -> None:
        if name is None:
            get_name = _identity
        else:
            get_name = attrgetter(name)  # type: ignore[assignment]

        if unbound_message is None:
            unbound_message = "object is not bound"

        if isinstance(local, Local):
            if name is None:
                raise TypeError("'name' is required when proxying a 'Local' object.")

            def _get_current_object() -> T:
                try:
                    return get_name(local)  # type: ignore[return-value]
                except AttributeError:
                    raise RuntimeError(unbound_message) from None

        elif isinstance(local, LocalStack):

            def _get_current_object() -> T:
                obj = local.top

                if obj is None:
                    raise RuntimeError(unbound_message)

                return get_name(obj)

        elif isinstance(local, ContextVar):

            def _get_current_object() -> T:
                try:
                    obj = local.get()
                except LookupError:
                    raise RuntimeError(unbound_message) from None

                return get_name(obj)

        elif callable(local):

            def _get_current_object() -> T:
                return get_name(local())

        else:
            raise TypeError(f"Don't know how to proxy '{type(local)}'.")

        object.__setattr__(self, "_LocalProxy__wrapped", local)
        object.__setattr__(self, "_get_current_object", _get_current_object)

    __doc__ = _ProxyLookup(  # type: ignore[assignment]
        class_value=__doc__, fallback=lambda self: type(self).__doc__, is_attr=True
    )
    __wrapped__ = _ProxyLookup(
        fallback=lambda self: self._LocalProxy__wrapped,  # type: ignore[attr-defined]
        is_attr=True,
    )
    # __del__ should only delete the proxy
    __repr__ = _ProxyLookup(  # type: ignore[assignment]
        repr, fallback=lambda self: f"<{type(self).__name__} unbound>"
    )
    __str__ = _ProxyLookup(str)  # type: ignore[assignment]
    __bytes__ = _ProxyLookup(bytes)
    __format__ = _ProxyLookup()  # type: ignore[assignment]
    __lt__ = _ProxyLookup(operator.lt)
    __le__ = _ProxyLookup(operator.le)
    __eq__ = _ProxyLookup(operator.eq)  # type: ignore[assignment]
    __ne__ = _ProxyLookup(operator.ne)  # type: ignore[assignment]
    __gt__ = _ProxyLookup(operator.gt)
    __ge__ = _ProxyLookup(operator.ge)
    __hash__ = _ProxyLookup(hash)  # type: ignore[assignment]
    __bool__ = _ProxyLookup(bool, fallback=lambda self: False)
    __getattr__ = _ProxyLookup(getattr)
    # __getattribute__ triggered through __getattr__
    __setattr__ = _ProxyLookup(setattr)  # type: ignore[assignment]
    __delattr__ = _ProxyLookup(delattr)  # type: ignore[assignment]
    __dir__ = _ProxyLookup(dir, fallback=lambda self: [])  # type: ignore[assignment]
    # __get__ (proxying descriptor not supported)
    # __set__ (descriptor)
    # __delete__ (descriptor)
    # __set_name__ (descriptor)
    # __objclass__ (descriptor)
    # __slots__ used by proxy itself
    # __dict__ (__getattr__)
    # __weakref__ (__getattr__)
    # __init_subclass__ (proxying metaclass not supported)
    # __prepare__ (metaclass)
    __class__ = _ProxyLookup(fallback=lambda self: type(self), is_attr=True)  # type: ignore[assignment]
    __instancecheck__ = _ProxyLookup(lambda self, other: isinstance(other, self))
    __subclasscheck__ = _ProxyLookup(lambda self, other: issubclass(other, self))
    # __class_getitem__ triggered through __getitem__
    __call__ = _ProxyLookup(lambda self, *args, **kwargs: self(*args, **kwargs))
    __len__ = _ProxyLookup(len)
    __length_hint__ = _ProxyLookup(operator.length_hint)
    __getitem__ = _ProxyLookup(operator.getitem)
    __setitem__ = _ProxyLookup(operator.setitem)
    __delitem__ = _ProxyLookup(operator.delitem)
    # __missing__ triggered through __getitem__
    __iter__ = _ProxyLookup(iter)
    __next__ = _ProxyLookup(next)
    __reversed__ = _ProxyLookup(reversed)
    __contains__ = _ProxyLookup(operator.contains)
    __add__ = _ProxyLookup(operator.add)
    __sub__ = _ProxyLookup(operator.sub)
    __mul__ = _ProxyLookup(operator.mul)
    __matmul__ = _ProxyLookup(operator.matmul)
    __truediv__ = _ProxyLookup(operator.truediv)
    __floordiv__ = _ProxyLookup(operator.floordiv)
    __mod__ = _ProxyLookup(operator.mod)
    __divmod__ = _ProxyLookup(divmod)
    __pow__ = _ProxyLookup(pow)
    __lshift__ = _ProxyLookup(operator.lshift)
    __rshift__ = _ProxyLookup(operator.rshift)
    __and__ = _ProxyLookup(operator.and_)
    __xor__ = _ProxyLookup(operator.xor)
    __or__ = _ProxyLookup(operator.or_)
    __radd__ = _ProxyLookup(_l_to_r_op(operator.add))
    __rsub__ = _ProxyLookup(_l_to_r_op(operator.sub))
    __rmul__ = _ProxyLookup(_l_to_r_op(operator.mul))
    __rmatmul__ = _ProxyLookup(_l_to_r_op(operator.matmul))
    __rtruediv__ = _ProxyLookup(_l_to_r_op(operator.truediv))
    __rfloordiv__ = _ProxyLookup(_l_to_r_op(operator.floordiv))
    __rmod__ = _ProxyLookup(_l_to_r_op(operator.mod))
    __rdivmod__ = _ProxyLookup(_l_to_r_op(divmod))
    __rpow__ = _ProxyLookup(_l_to_r_op(pow))
    __rlshift__ = _ProxyLookup(_l_to_r_op(operator.lshift))
    __rrshift__ = _ProxyLookup(_l_to_r_op(operator.rshift))
    __rand__ = _ProxyLookup(_l_to_r_op(operator.and_))
    __rxor__ = _ProxyLookup(_l_to_r_op(operator.xor))
    __ror__ = _ProxyLookup(_l_to_r_op(operator.or_))
    __iadd__ = _ProxyIOp(operator.iadd)
    __isub__ = _ProxyIOp(operator.isub)
    __imul__ = _ProxyIOp(operator.imul)
    __imatmul__ = _ProxyIOp(operator.imatmul)
    __itruediv__ = _ProxyIOp(operator.itruediv)
    __ifloordiv__ = _ProxyIOp(operator.ifloordiv)
    __imod__ = _ProxyIOp(operator.imod)
    __ipow__ = _ProxyIOp(operator.ipow)
    __ilshift__ = _ProxyIOp(operator.ilshift)
    __irshift__ = _ProxyIOp(operator.irshift)
    __iand__ = _ProxyIOp(operator.iand)
    __ixor__ = _ProxyIOp(operator.ixor)
    __ior__ = _ProxyIOp(operator.ior)
    __neg__ = _ProxyLookup(operator.neg)
    __pos__ = _ProxyLookup(operator.pos)
    __abs__ = _ProxyLookup(abs)
    __invert__ = _ProxyLookup(operator.invert)
    __complex__ = _ProxyLookup(complex)
    __int__ = _ProxyLookup(int)
    __float__ = _ProxyLookup(float)
    __index__ = _ProxyLookup(operator.index)
    __round__ = _ProxyLookup(round)
    __trunc__ = _ProxyLookup(math.trunc)
    __floor__ = _ProxyLookup(math.floor)
    __ceil__ = _ProxyLookup(math.ceil)
    __enter__ = _ProxyLookup()
    __exit__ = _ProxyLookup()
    __await__ = _ProxyLookup()
    __aiter__ = _ProxyLookup()
    __anext__ = _ProxyLookup()
    __aenter__ = _ProxyLookup()
    __aexit__ = _ProxyLookup()
    __copy__ = _ProxyLookup(copy.copy)
    __deepcopy__ = _ProxyLookup(copy.deepcopy)
    # __getnewargs_ex__ (pickle through proxy not supported)
    # __getnewargs__ (pickle)
    # __getstate__ (pickle)
    # __setstate__ (pickle)
    # __reduce__ (pickle)
    # __reduce_ex__ (pickle)
'''


# --------------------------------------------------------------------------
# Load the two implementations
# --------------------------------------------------------------------------
import asyncio
import copy as _copy
import random
import re
import sys
import threading
import types
from contextvars import ContextVar, copy_context

import werkzeug  # the worktree (PYTHONPATH=/tmp/wt6-C18/src)
from werkzeug import local as NEW

assert NEW.__file__.startswith("/tmp/wt6-C18/"), NEW.__file__

ORIG = types.ModuleType("werkzeug._orig_local")
ORIG.__package__ = "werkzeug"
ORIG.__file__ = "<original local.py>"
sys.modules["werkzeug._orig_local"] = ORIG
exec(compile(ORIGINAL_SOURCE, "<original local.py>", "exec"), ORIG.__dict__)


# --------------------------------------------------------------------------
# World: one set of locals / proxies built on top of one implementation
# --------------------------------------------------------------------------
class Obj:
    """Small value type with an attribute, equality and a stable repr."""

    def __init__(self, x):
        self.x = x

    def __repr__(self):
        return f"Obj({self.x!r})"

    def __eq__(self, other):
        return isinstance(other, Obj) and other.x == self.x

    def __hash__(self):
        return hash(("Obj", self.x))

    def __bool__(self):
        return bool(self.x)

    def __call__(self, *a, **kw):
        return ("called", self.x, a, sorted(kw.items()))

    def __iadd__(self, other):
        self.x = self.x + other
        return self


class RecursionErrorLike(RuntimeError):
    pass


class Weird:
    """Bound object whose ``x`` attribute raises: exercises errors raised *after*
    the context lookup succeeded (KeyError is a LookupError, RuntimeError is what
    the proxy uses for 'unbound')."""

    def __init__(self, exc):
        self.exc = exc

    @property
    def x(self):
        raise self.exc("from-x")

    def __repr__(self):
        return f"Weird({self.exc.__name__})"

    def __len__(self):
        raise RuntimeError("len-runtime")


NAMES = ["a", "b", "x", "request", "_p", "__storage", "_Local__storage"]


def make_value(rng):
    k = rng.randrange(11)
    if k == 0:
        return None
    if k >= 9:
        return Weird(rng.choice([KeyError, RuntimeError, AttributeError, LookupError, RecursionErrorLike]))
    if k == 1:
        return rng.randrange(-3, 50)
    if k == 2:
        return rng.choice(["", "s", "hello", "x"])
    if k == 3:
        return [rng.randrange(5) for _ in range(rng.randrange(4))]
    if k == 4:
        return {"x": rng.randrange(5)}
    if k == 5:
        return Obj(rng.randrange(4))
    if k == 6:
        return Obj([rng.randrange(3)])
    if k == 7:
        return 0
    return Obj(Obj(rng.randrange(3)))


class World:
    def __init__(self, mod, use_given_cv, tag):
        self.mod = mod
        if use_given_cv:
            self.loc = mod.Local(ContextVar(f"{tag}.loc"))
            self.stk = mod.LocalStack(ContextVar(f"{tag}.stk"))
        else:
            self.loc = mod.Local()
            self.stk = mod.LocalStack()
        self.loc2 = mod.Local()
        self.cv = ContextVar(f"{tag}.cv")
        self.mgr = mod.LocalManager([self.loc, self.stk])
        self.mgr1 = mod.LocalManager(self.loc2)
        self.mgr0 = mod.LocalManager()
        self.counter = [0]

        def fn():
            self.counter[0] += 1
            return self.stk.top

        self.proxies = {
            "loc.a": self.loc("a"),
            "loc.b": self.loc("b", unbound_message="no b here"),
            "loc.request.x": mod.LocalProxy(self.loc, "request.x"),
            "loc2.a": self.loc2("a"),
            "stk": self.stk(),
            "stk.x": self.stk("x", unbound_message="empty stack"),
            "cv": mod.LocalProxy(self.cv),
            "cv.x": mod.LocalProxy(self.cv, "x", unbound_message="cv unset"),
            "fn": mod.LocalProxy(fn),
            "fn.x": mod.LocalProxy(fn, "x"),
        }


_ADDR = re.compile(r"0x[0-9a-fA-F]+")
_LID = re.compile(r"(Local(?:Stack)?)<\d+>")


def scrub(s):
    """Remove memory addresses / id() values, which legitimately differ per object."""
    return _LID.sub(r"\1<ID>", _ADDR.sub("<addr>", s)).replace("werkzeug._orig_local", "werkzeug.local")


def norm(v, depth=0):
    """Normalise a result to something comparable across implementations."""
    if isinstance(v, BaseException):
        return ("EXC", type(v).__name__, scrub(str(v)))
    if isinstance(v, (list, tuple)) and depth < 4:
        return (type(v).__name__, [norm(i, depth + 1) for i in v])
    if isinstance(v, dict) and depth < 4:
        return ("dict", [(norm(k, depth + 1), norm(i, depth + 1)) for k, i in v.items()])
    tn = type(v).__name__
    if tn in ("_ProxyLookup", "_ProxyIOp"):
        return ("descr", tn, scrub(repr(v)))
    if tn in ("method", "function", "builtin_function_or_method", "partial", "method-wrapper"):
        return ("callable", tn)
    return (tn, scrub(repr(v)))


def attempt(fn):
    try:
        return norm(fn())
    except RecursionError:
        raise
    except BaseException as e:  # noqa: BLE001
        out = norm(e)
        ctx = e.__context__
        cause = e.__cause__
        return out + (
            type(ctx).__name__ if ctx is not None else None,
            type(cause).__name__ if cause is not None else None,
            e.__suppress_context__,
        )


PROXY_OBS = [
    "repr", "bool", "str", "gco", "dir", "getx", "eq1", "len", "class", "wrapped",
    "doc", "call", "iadd", "setx", "delx", "hash", "copy", "getitem", "isinst",
    "descr_call", "iter", "contains", "add", "radd",
]


def observe_proxy(world, pname, what):
    p = world.proxies[pname]
    mod = world.mod
    if what == "repr":
        return repr(p)
    if what == "bool":
        return bool(p)
    if what == "str":
        return str(p)
    if what == "gco":
        return p._get_current_object()
    if what == "dir":
        return [n for n in dir(p) if not n.startswith("__")][:6]
    if what == "getx":
        return p.x
    if what == "eq1":
        return (p == 1, p != 1)
    if what == "len":
        return len(p)
    if what == "class":
        return p.__class__.__name__
    if what == "wrapped":
        w = p.__wrapped__
        return (type(w).__name__, w is object.__getattribute__(p, "_LocalProxy__wrapped"))
    if what == "doc":
        d = p.__doc__
        return None if d is None else d[:20]
    if what == "call":
        return p(1, k=2)
    if what == "iadd":
        q = p
        q += 1
        return (q is p, repr(q))
    if what == "setx":
        p.x = 7
        return p.x
    if what == "delx":
        del p.x
        return "deleted"
    if what == "hash":
        return hash(p) == hash(p._get_current_object())
    if what == "copy":
        c = _copy.copy(p)
        return (type(c).__name__, repr(c))
    if what == "getitem":
        return p[0]
    if what == "isinst":
        return (isinstance(p, Obj), isinstance(p, mod.LocalProxy), issubclass(type(p), mod.LocalProxy))
    if what == "descr_call":
        # _ProxyLookup.__call__ -> __get__(instance, type(instance))
        return type(p).__repr__(p)
    if what == "iter":
        return list(iter(p))
    if what == "contains":
        return 0 in p
    if what == "add":
        return p + 1
    if what == "radd":
        return 1 + p
    raise AssertionError(what)


def gen_op(rng, nctx):
    """Return (ctx_index, op tuple)."""
    c = rng.randrange(nctx)
    k = rng.randrange(100)
    if k < 12:
        return c, ("set", rng.choice(NAMES), make_value(rng))
    if k < 19:
        return c, ("del", rng.choice(NAMES))
    if k < 25:
        return c, ("get", rng.choice(NAMES))
    if k < 28:
        return c, ("iter",)
    if k < 31:
        return c, ("rel_loc",)
    if k < 34:
        return c, ("rel_stk",)
    if k < 37:
        return c, ("cleanup", rng.choice(["mgr", "mgr1", "mgr0"]))
    if k < 49:
        return c, ("push", make_value(rng))
    if k < 52:
        return c, ("push_mut", make_value(rng), make_value(rng))
    if k < 61:
        return c, ("pop",)
    if k < 65:
        return c, ("top",)
    if k < 69:
        return c, ("cvset", make_value(rng))
    if k < 71:
        return c, ("set2", "a", make_value(rng))
    if k < 74:
        return c, ("release_fn", rng.choice(["loc", "stk", "loc2"]))
    if k < 77:
        return c, ("raw",)
    if k < 80:
        return c, ("fork", rng.randrange(nctx))
    return c, ("obs", rng.choice(list(PROXY_NAMES)), rng.choice(PROXY_OBS))


PROXY_NAMES = [
    "loc.a", "loc.b", "loc.request.x", "loc2.a", "stk", "stk.x", "cv", "cv.x", "fn", "fn.x",
]


def apply_op(world, op):
    kind = op[0]
    loc, stk = world.loc, world.stk
    if kind == "set":
        v = _copy.deepcopy(op[2])
        setattr(loc, op[1], v)
        return "ok"
    if kind == "set2":
        setattr(world.loc2, op[1], _copy.deepcopy(op[2]))
        return "ok"
    if kind == "del":
        delattr(loc, op[1])
        return "ok"
    if kind == "get":
        return getattr(loc, op[1])
    if kind == "iter":
        return list(loc)
    if kind == "rel_loc":
        return loc.__release_local__()
    if kind == "rel_stk":
        return stk.__release_local__()
    if kind == "release_fn":
        return world.mod.release_local(getattr(world, op[1]))
    if kind == "cleanup":
        return getattr(world, op[1]).cleanup()
    if kind == "push":
        rv = stk.push(_copy.deepcopy(op[1]))
        return (list(rv), rv is stk._storage.get())
    if kind == "push_mut":
        rv = stk.push(_copy.deepcopy(op[1]))
        rv.append(_copy.deepcopy(op[2]))  # aliasing of the returned list
        return (list(rv), stk.top)
    if kind == "pop":
        before = stk._storage.get(None)
        rv = stk.pop()
        after = stk._storage.get(None)
        return (rv, None if before is None else list(before), None if after is None else list(after),
                before is after)
    if kind == "top":
        return stk.top
    if kind == "cvset":
        world.cv.set(_copy.deepcopy(op[1]))
        return "ok"
    if kind == "raw":
        # raw storage snapshot of both locals in this context
        d = object.__getattribute__(loc, "_Local__storage").get(None)
        s = stk._storage.get(None)
        return (None if d is None else dict(d), None if s is None else list(s))
    if kind == "obs":
        return observe_proxy(world, op[1], op[2])
    raise AssertionError(kind)


def run_contexts_script(mod, seed, use_given_cv):
    """Interleave operations over several contextvars contexts (siblings and
    children forked by copy_context at random points) and record every result."""
    rng = random.Random(seed)
    trace = []

    def body():
        world = World(mod, use_given_cv, f"w{seed}")
        ctxs = [copy_context()]
        nops = rng.randrange(10, 45)
        for _ in range(nops):
            c, op = gen_op(rng, len(ctxs))
            if op[0] == "fork":
                if len(ctxs) < 6:
                    # child context = snapshot of parent at this moment
                    ctxs.append(ctxs[op[1]].run(copy_context))
                    trace.append(("fork", op[1]))
                continue
            trace.append((c, op[0], attempt(lambda: ctxs[c].run(apply_op, world, op))))
        # final snapshot of every context
        for i, cx in enumerate(ctxs):
            trace.append((i, "final", attempt(lambda: cx.run(apply_op, world, ("raw",)))))
            for pn in PROXY_NAMES:
                trace.append((i, pn, attempt(lambda: cx.run(observe_proxy, world, pn, "repr"))))
                trace.append((i, pn, attempt(lambda: cx.run(observe_proxy, world, pn, "bool"))))

    # run in a fresh context so nothing leaks between scripts/implementations
    copy_context().run(body)
    return trace


def run_threads_script(mod, seed):
    """Each thread (its own fresh context) runs its own op sequence against the
    SAME locals, truly concurrently; per-thread traces must be deterministic."""
    rng = random.Random(seed)
    world_box = []
    nthreads = rng.randrange(2, 5)
    scripts = []
    for _ in range(nthreads):
        r = random.Random(rng.random())
        scripts.append([gen_op(r, 1)[1] for _ in range(r.randrange(5, 30))])
    traces = [[] for _ in range(nthreads)]

    def main():
        world = World(mod, False, f"t{seed}")
        world_box.append(world)
        # parent binds something first: threads must NOT see it
        apply_op(world, ("set", "a", "parent"))
        apply_op(world, ("push", "parent"))
        barrier = threading.Barrier(nthreads)

        def worker(i):
            barrier.wait()
            for op in scripts[i]:
                if op[0] == "fork":
                    continue
                traces[i].append((op[0], attempt(lambda: apply_op(world, op))))
            traces[i].append(("final", attempt(lambda: apply_op(world, ("raw",)))))

        ts = [threading.Thread(target=worker, args=(i,)) for i in range(nthreads)]
        for th in ts:
            th.start()
        for th in ts:
            th.join()
        traces.append([("parent-final", attempt(lambda: apply_op(world, ("raw",))))])

    copy_context().run(main)
    return traces


def run_asyncio_script(mod, seed):
    """Tasks copy the creating context; they interleave at every await."""
    rng = random.Random(seed)
    ntasks = rng.randrange(2, 5)
    pre = [gen_op(rng, 1)[1] for _ in range(rng.randrange(0, 8))]
    scripts = []
    for _ in range(ntasks):
        r = random.Random(rng.random())
        scripts.append([gen_op(r, 1)[1] for _ in range(r.randrange(5, 25))])
    traces = [[] for _ in range(ntasks + 1)]

    async def main():
        world = World(mod, True, f"a{seed}")
        for op in pre:
            if op[0] != "fork":
                traces[-1].append((op[0], attempt(lambda: apply_op(world, op))))

        async def worker(i):
            for op in scripts[i]:
                if op[0] == "fork":
                    continue
                traces[i].append((op[0], attempt(lambda: apply_op(world, op))))
                await asyncio.sleep(0)
            traces[i].append(("final", attempt(lambda: apply_op(world, ("raw",)))))

        await asyncio.gather(*[asyncio.ensure_future(worker(i)) for i in range(ntasks)])
        traces[-1].append(("parent-final", attempt(lambda: apply_op(world, ("raw",)))))

    copy_context().run(asyncio.run, main())
    return traces


def run_ctor_cases(mod, seed):
    """LocalProxy.__init__ / LocalManager.__init__ / class-level descriptor access
    with valid and invalid arguments."""
    rng = random.Random(seed)
    out = []
    cv = ContextVar("ctor.cv")
    loc = mod.Local()
    stk = mod.LocalStack()
    targets = [loc, stk, cv, lambda: Obj(3), 42, None, "str", Obj(1), [1], mod.Local, object()]
    names = [None, "x", "x.x", "", 5, "a", b"x", "real", ("x",)]
    msgs = [None, "custom", ""]
    for _ in range(12):
        tgt = rng.choice(targets)
        nm = rng.choice(names)
        msg = rng.choice(msgs)
        bind = rng.choice([None, Obj(5), Obj(Obj(9)), 3 + 4j, None])

        def case():
            p = mod.LocalProxy(tgt, nm, unbound_message=msg)
            res = [type(p).__name__]
            if bind is not None:
                if tgt is loc:
                    for n in ("x", "a"):
                        setattr(loc, n, bind)
                elif tgt is stk:
                    stk.push(bind)
                elif tgt is cv:
                    cv.set(bind)
            for what in ("gco", "repr", "bool", "getx", "class", "doc", "wrapped", "dir"):
                w = types.SimpleNamespace(proxies={"p": p}, mod=mod)
                res.append(attempt(lambda: observe_proxy(w, "p", what)))
            return res

        out.append(attempt(lambda: copy_context().run(case)))
    # class-level access
    LP = mod.LocalProxy
    out.append(norm(LP.__repr__))
    out.append(norm(LP.__doc__[:30]))
    out.append(norm(LP.__dict__["__doc__"].__get__(None, LP)[:30]))
    out.append(norm(LP.__dict__["__bool__"].__get__(None, LP)))
    out.append(norm(LP.__dict__["__iadd__"].__get__(None)))
    out.append(norm(LP.__dict__["__wrapped__"].__get__(None, None)))
    # LocalManager ctor variants
    for arg in (None, loc, stk, [loc, stk], (), iter([stk]), 5):
        def mk():
            m = mod.LocalManager(arg)
            return (repr(m), [type(i).__name__ for i in m.locals])
        out.append(attempt(mk))
    # cleanup with a foreign object in locals
    def bad_cleanup():
        m = mod.LocalManager([loc, object(), stk])
        loc.z = 1
        stk.push(1)
        try:
            m.cleanup()
        finally:
            return (list(loc), stk.top)
    out.append(attempt(lambda: copy_context().run(bad_cleanup)))
    return out


def first_diff(a, b):
    if a == b:
        return None
    if isinstance(a, list) and isinstance(b, list):
        for i, (x, y) in enumerate(zip(a, b)):
            if x != y:
                return i, str(x)[:400], str(y)[:400]
        return ("len", len(a), len(b))
    return str(a)[:400], str(b)[:400]


def main():
    n_ctx = int(sys.argv[1]) if len(sys.argv) > 1 else 3000
    total = 0
    steps = 0
    fails = 0
    for seed in range(n_ctx):
        for given in (False, True):
            a = run_contexts_script(ORIG, seed, given)
            b = run_contexts_script(NEW, seed, given)
            total += 1
            steps += len(a)
            if a != b:
                fails += 1
                print("DIFF contexts seed", seed, given, first_diff(a, b))
    for seed in range(300):
        a = run_threads_script(ORIG, seed)
        b = run_threads_script(NEW, seed)
        total += 1
        steps += sum(len(t) for t in a)
        if a != b:
            fails += 1
            print("DIFF threads seed", seed, first_diff(a, b))
    for seed in range(300):
        a = run_asyncio_script(ORIG, seed)
        b = run_asyncio_script(NEW, seed)
        total += 1
        steps += sum(len(t) for t in a)
        if a != b:
            fails += 1
            print("DIFF asyncio seed", seed, first_diff(a, b))
    for seed in range(400):
        a = run_ctor_cases(ORIG, seed)
        b = run_ctor_cases(NEW, seed)
        total += 1
        steps += len(a)
        if a != b:
            fails += 1
            print("DIFF ctor seed", seed, first_diff(a, b))
    print(f"scripts={total} recorded_results={steps} mismatches={fails}")
    print("PASS" if fails == 0 else "FAIL")
    return 0 if fails == 0 else 1


if __name__ == "__main__":
    sys.exit(main())
