"""C03 twin 2: differential check of the refactored Rule._parse_rule (rules.py) and
StateMachineMatcher.add / update (matcher.py) against the original implementations
(original modules embedded below).

Run: cd /tmp/wt6-C03 && PYTHONPATH=/tmp/wt6-C03/src /venv/bin/python /tmp/twin4-C03/2/diff_check.py
"""
# ---------------------------------------------------------------------------
# Shared input generators (rule sets, request paths) for the C03 differential
# checks.  Everything is seeded, so runs are reproducible.
# ---------------------------------------------------------------------------
import random

from werkzeug.exceptions import HTTPException
from werkzeug.routing import BaseConverter
from werkzeug.routing import Map
from werkzeug.routing import RequestRedirect
from werkzeug.routing import Rule
from werkzeug.routing.exceptions import NoMatch
from werkzeug.routing.exceptions import RequestAliasRedirect
from werkzeug.routing.exceptions import RequestPath


class TwoSegConverter(BaseConverter):
    # regex contains a slash -> part_isolating is False automatically
    regex = "[a-z]+/[a-z]+"
    weight = 150


class EvenConverter(BaseConverter):
    # to_python may reject a value the regex admitted (ValidationError path)
    regex = r"\d+"
    weight = 60

    def to_python(self, value):
        from werkzeug.routing import ValidationError

        if int(value) % 2:
            raise ValidationError()
        return int(value)


EXTRA_CONVERTERS = {"two": TwoSegConverter, "even": EvenConverter}

STATIC_SEGS = ["a", "b", "foo", "bar", "x.y", "a+b", "12", "index.html", "(z)"]
VAR_SEGS = [
    "<{n}>",
    "<int:{n}>",
    "<int(signed=True):{n}>",
    "<int(fixed_digits=3):{n}>",
    "<float:{n}>",
    "<string(length=2):{n}>",
    "<string(minlength=2, maxlength=3):{n}>",
    "<any(a,b,foo):{n}>",
    "<uuid:{n}>",
    "<{n}>",
    "<int:{n}>",
    "<{n}>",
    "<int:{n}>",
    "<float:{n}>",
    "<path:{n}>",
    "<even:{n}>",
    "<path:{n}>",
    "<two:{n}>",
    "foo-<int:{n}>",
    "<{n}>.html",
    "<int:{n}>-<{n}2>",
    "pre<path:{n}>",
    "<path:{n}>.txt",
]
VALUES = [
    "a", "b", "foo", "bar", "ab", "abc", "abcd", "12", "7", "007", "-3", "1.5",
    "-2.25", "x.y", "a+b", "index.html", "foo-12", "foo-x", "12-zz", "q.html",
    "pre", "prea", "n.txt", "(z)", "z", "12345678-1234-5678-1234-567812345678",
    "a b", "%20", "ü", "",
]
METHOD_SETS = [None, None, ["GET"], ["POST"], ["GET", "POST"], ["PUT", "DELETE"], ["HEAD"]]
REQ_METHODS = ["GET", "POST", "PUT", "HEAD", "DELETE", "OPTIONS", "get"]


def gen_rule_string(rnd):
    nseg = rnd.choice([0, 1, 1, 1, 2, 2, 2, 3, 4])
    segs = []
    used = 0
    for _ in range(nseg):
        if rnd.random() < 0.5:
            segs.append(rnd.choice(STATIC_SEGS))
        else:
            segs.append(rnd.choice(VAR_SEGS).format(n=f"v{used}"))
            used += 1
    s = "/" + "/".join(segs)
    if segs and rnd.random() < 0.45:
        s += "/"
    if rnd.random() < 0.05:
        s = s.replace("/", "//", 1)
    return s


def vary_rule_string(rnd, rule):
    """Derive a sibling rule sharing a prefix with *rule* (exercises priority
    between literal/variable segments and backtracking)."""
    trailing = rule.endswith("/") and rule != "/"
    segs = [s for s in rule.strip("/").split("/")] if rule.strip("/") else []
    if not segs or rnd.random() < 0.2:
        segs.append(rnd.choice(STATIC_SEGS))
    else:
        i = rnd.randrange(len(segs))
        if rnd.random() < 0.5:
            segs[i] = rnd.choice(STATIC_SEGS)
        else:
            segs[i] = rnd.choice(VAR_SEGS).format(n=f"w{i}")
    if rnd.random() < 0.3:
        trailing = not trailing
    return "/" + "/".join(segs) + ("/" if trailing else "")


def gen_spec(rnd, idx, host_matching, previous=()):
    kwargs = {"endpoint": f"ep{idx}"}
    if previous and rnd.random() < 0.45:
        rule = vary_rule_string(rnd, rnd.choice(previous)[0])
    else:
        rule = gen_rule_string(rnd)
    kwargs["methods"] = rnd.choice(METHOD_SETS)
    r = rnd.random()
    if r < 0.2:
        kwargs["strict_slashes"] = False
    elif r < 0.3:
        kwargs["strict_slashes"] = True
    r = rnd.random()
    if r < 0.15:
        kwargs["merge_slashes"] = False
    elif r < 0.25:
        kwargs["merge_slashes"] = True
    if rnd.random() < 0.07:
        kwargs["websocket"] = True
        if kwargs["methods"] is not None:
            kwargs["methods"] = ["GET"]
    if rnd.random() < 0.12:
        kwargs["defaults"] = {"extra": rnd.choice([1, "d"])}
    if rnd.random() < 0.1:
        if host_matching:
            kwargs["host"] = rnd.choice(["example.org", "<sub>.example.org", "other"])
        else:
            kwargs["subdomain"] = rnd.choice(["api", "<sub>", "www"])
    if rnd.random() < 0.06:
        kwargs["redirect_to"] = rnd.choice(["/target", "/t/<v0>"])
        if "<v0>" in kwargs["redirect_to"] and "v0>" not in rule:
            kwargs["redirect_to"] = "/target"
    return rule, kwargs


def gen_mapspec(rnd):
    host_matching = rnd.random() < 0.15
    n = rnd.choice([1, 2, 3, 4, 6, 8, 12])
    specs = []
    for i in range(n):
        specs.append(gen_spec(rnd, i, host_matching, specs))
    # occasionally add alias / defaults pairs that share an endpoint
    if rnd.random() < 0.3:
        base_rule, base_kw = rnd.choice(specs)
        kw = dict(base_kw)
        kw.pop("redirect_to", None)
        if rnd.random() < 0.5:
            kw["alias"] = True
            specs.append((gen_rule_string(rnd), kw))
        else:
            kw["defaults"] = {"v0": 1}
            specs.insert(0, ("/dflt", kw))
    if rnd.random() < 0.4:
        rnd.shuffle(specs)
    map_kwargs = {
        "strict_slashes": rnd.random() < 0.7,
        "merge_slashes": rnd.random() < 0.7,
        "redirect_defaults": rnd.random() < 0.8,
        "host_matching": host_matching,
    }
    return specs, map_kwargs


def build_map(specs, map_kwargs, rule_cls=Rule, map_cls=Map):
    """Returns a Map or the exception raised while building it."""
    rules = [rule_cls(r, **kw) for r, kw in specs]
    return map_cls(rules, converters=dict(EXTRA_CONVERTERS), **map_kwargs)


GOOD_VALUES = {
    "default": ["foo", "a", "ab", "abc", "12", "x.y", "q.html", "12-zz"],
    "string": ["ab", "abc", "abcd", "a", "12"],
    "int": ["12", "7", "007", "-3", "123", "120"],
    "float": ["1.5", "-2.25", "12"],
    "any": ["a", "b", "foo", "bar"],
    "uuid": ["12345678-1234-5678-1234-567812345678", "abc"],
    "even": ["12", "7", "8"],
    "path": ["a", "a/b", "x/y/z", "a//b", "foo/bar", "a/b/", "n.txt", "a/n.txt"],
    "two": ["a/b", "foo/bar", "a", "a/b/c", "a/b/"],
}


def _fill(rnd, rule):
    import re

    def sub(m):
        if rnd.random() < 0.1:
            return rnd.choice(VALUES + ["a/b", "x/y/z", "a//b", "foo/bar", "a/b/"])
        conv = re.match(r"<(?:([a-zA-Z_]+)(?:\(.*\))?:)?", m.group(0)).group(1)
        return rnd.choice(GOOD_VALUES[conv or "default"])

    return re.sub(r"<[^>]+>", sub, rule)


def gen_paths(rnd, specs, n):
    out = []
    for _ in range(n):
        r = rnd.random()
        if r < 0.88 and specs:
            p = _fill(rnd, rnd.choice(specs)[0])
        else:
            k = rnd.choice([0, 1, 2, 3, 4])
            p = "/" + "/".join(rnd.choice(VALUES + STATIC_SEGS) for _ in range(k))
        m = rnd.random()
        if m < 0.15:
            p = p.rstrip("/") if rnd.random() < 0.5 else p + "/"
        elif m < 0.20:
            i = rnd.randrange(len(p) + 1)
            p = p[:i] + "/" + p[i:]
        elif m < 0.24:
            p = p.replace("/", "//")
        elif m < 0.26:
            p = p + "//"
        out.append(p)
    return out


def gen_bind(rnd, map_kwargs):
    if map_kwargs["host_matching"]:
        return {"server_name": rnd.choice(["example.org", "api.example.org", "other"])}
    return {
        "server_name": "example.org",
        "subdomain": rnd.choice([None, None, "", "api", "www", "zz"]),
        "script_name": rnd.choice(["/", "/app"]),
    }


def observe_adapter(call):
    """Normalise the outcome of a MapAdapter.match-like call."""
    try:
        rv = call()
    except RequestRedirect as e:
        return ("RequestRedirect", e.new_url, e.code)
    except HTTPException as e:
        return (type(e).__name__, getattr(e, "valid_methods", None), e.code)
    except Exception as e:  # noqa: BLE001
        return ("EXC", type(e).__name__, str(e))
    first, args = rv
    if hasattr(first, "rule") and hasattr(first, "endpoint"):
        first = ("RULE", first.rule, first.endpoint)
    return ("OK", first, sorted(args.items(), key=repr), [type(v).__name__ for _, v in sorted(args.items(), key=repr)])


def observe_matcher(matcher, domain, path, method, websocket):
    """Normalise the outcome of StateMachineMatcher.match."""
    try:
        rule, values = matcher.match(domain, path, method, websocket)
    except RequestPath as e:
        return ("RequestPath", e.path_info)
    except RequestAliasRedirect as e:
        return ("RequestAliasRedirect", e.endpoint, sorted(e.matched_values.items(), key=repr))
    except NoMatch as e:
        return ("NoMatch", list(e.have_match_for), e.websocket_mismatch)
    except Exception as e:  # noqa: BLE001
        return ("EXC", type(e).__name__, str(e))
    return ("OK", rule.rule, rule.endpoint, list(values.items()), [type(v).__name__ for v in values.values()])


ORIG_RULES_SRC = r'''from __future__ import annotations

import ast
import re
import typing as t
from dataclasses import dataclass
from string import Template
from types import CodeType
from urllib.parse import quote

from ..datastructures import iter_multi_items
from ..urls import _urlencode
from .converters import ValidationError

if t.TYPE_CHECKING:
    from .converters import BaseConverter
    from .map import Map


class Weighting(t.NamedTuple):
    number_static_weights: int
    static_weights: list[tuple[int, int]]
    number_argument_weights: int
    argument_weights: list[int]


@dataclass
class RulePart:
    """A part of a rule.

    Rules can be represented by parts as delimited by `/` with
    instances of this class representing those parts. The *content* is
    either the raw content if *static* or a regex string to match
    against. The *weight* can be used to order parts when matching.

    """

    content: str
    final: bool
    static: bool
    suffixed: bool
    weight: Weighting


_part_re = re.compile(
    r"""
    (?:
        (?P<slash>/)                                 # a slash
      |
        (?P<static>[^</]+)                           # static rule data
      |
        (?:
          <
            (?:
              (?P<converter>[a-zA-Z_][a-zA-Z0-9_]*)   # converter name
              (?:\((?P<arguments>.*?)\))?             # converter arguments
              :                                       # variable delimiter
            )?
            (?P<variable>[a-zA-Z_][a-zA-Z0-9_]*)      # variable name
           >
        )
    )
    """,
    re.VERBOSE,
)

_simple_rule_re = re.compile(r"<([^>]+)>")
_converter_args_re = re.compile(
    r"""
    \s*
    ((?P<name>\w+)\s*=\s*)?
    (?P<value>
        True|False|
        \d+.\d+|
        \d+.|
        \d+|
        [\w\d_.]+|
        [urUR]?(?P<stringval>"[^"]*?"|'[^']*')
    )\s*,
    """,
    re.VERBOSE,
)


_PYTHON_CONSTANTS = {"None": None, "True": True, "False": False}


def _find(value: str, target: str, pos: int) -> int:
    """Find the *target* in *value* after *pos*.

    Returns the *value* length if *target* isn't found.
    """
    try:
        return value.index(target, pos)
    except ValueError:
        return len(value)


def _pythonize(value: str) -> None | bool | int | float | str:
    if value in _PYTHON_CONSTANTS:
        return _PYTHON_CONSTANTS[value]
    for convert in int, float:
        try:
            return convert(value)
        except ValueError:
            pass
    if value[:1] == value[-1:] and value[0] in "\"'":
        value = value[1:-1]
    return str(value)


def parse_converter_args(argstr: str) -> tuple[tuple[t.Any, ...], dict[str, t.Any]]:
    argstr += ","
    args = []
    kwargs = {}
    position = 0

    for item in _converter_args_re.finditer(argstr):
        if item.start() != position:
            raise ValueError(
                f"Cannot parse converter argument '{argstr[position:item.start()]}'"
            )

        value = item.group("stringval")
        if value is None:
            value = item.group("value")
        value = _pythonize(value)
        if not item.group("name"):
            args.append(value)
        else:
            name = item.group("name")
            kwargs[name] = value
        position = item.end()

    return tuple(args), kwargs


class RuleFactory:
    """As soon as you have more complex URL setups it's a good idea to use rule
    factories to avoid repetitive tasks.  Some of them are builtin, others can
    be added by subclassing `RuleFactory` and overriding `get_rules`.
    """

    def get_rules(self, map: Map) -> t.Iterable[Rule]:
        """Subclasses of `RuleFactory` have to override this method and return
        an iterable of rules."""
        raise NotImplementedError()


class Subdomain(RuleFactory):
    """All URLs provided by this factory have the subdomain set to a
    specific domain. For example if you want to use the subdomain for
    the current language this can be a good setup::

        url_map = Map([
            Rule('/', endpoint='#select_language'),
            Subdomain('<string(length=2):lang_code>', [
                Rule('/', endpoint='index'),
                Rule('/about', endpoint='about'),
                Rule('/help', endpoint='help')
            ])
        ])

    All the rules except for the ``'#select_language'`` endpoint will now
    listen on a two letter long subdomain that holds the language code
    for the current request.
    """

    def __init__(self, subdomain: str, rules: t.Iterable[RuleFactory]) -> None:
        self.subdomain = subdomain
        self.rules = rules

    def get_rules(self, map: Map) -> t.Iterator[Rule]:
        for rulefactory in self.rules:
            for rule in rulefactory.get_rules(map):
                rule = rule.empty()
                rule.subdomain = self.subdomain
                yield rule


class Submount(RuleFactory):
    """Like `Subdomain` but prefixes the URL rule with a given string::

        url_map = Map([
            Rule('/', endpoint='index'),
            Submount('/blog', [
                Rule('/', endpoint='blog/index'),
                Rule('/entry/<entry_slug>', endpoint='blog/show')
            ])
        ])

    Now the rule ``'blog/show'`` matches ``/blog/entry/<entry_slug>``.
    """

    def __init__(self, path: str, rules: t.Iterable[RuleFactory]) -> None:
        self.path = path.rstrip("/")
        self.rules = rules

    def get_rules(self, map: Map) -> t.Iterator[Rule]:
        for rulefactory in self.rules:
            for rule in rulefactory.get_rules(map):
                rule = rule.empty()
                rule.rule = self.path + rule.rule
                yield rule


class EndpointPrefix(RuleFactory):
    """Prefixes all endpoints (which must be strings for this factory) with
    another string. This can be useful for sub applications::

        url_map = Map([
            Rule('/', endpoint='index'),
            EndpointPrefix('blog/', [Submount('/blog', [
                Rule('/', endpoint='index'),
                Rule('/entry/<entry_slug>', endpoint='show')
            ])])
        ])
    """

    def __init__(self, prefix: str, rules: t.Iterable[RuleFactory]) -> None:
        self.prefix = prefix
        self.rules = rules

    def get_rules(self, map: Map) -> t.Iterator[Rule]:
        for rulefactory in self.rules:
            for rule in rulefactory.get_rules(map):
                rule = rule.empty()
                rule.endpoint = self.prefix + rule.endpoint
                yield rule


class RuleTemplate:
    """Returns copies of the rules wrapped and expands string templates in
    the endpoint, rule, defaults or subdomain sections.

    Here a small example for such a rule template::

        from werkzeug.routing import Map, Rule, RuleTemplate

        resource = RuleTemplate([
            Rule('/$name/', endpoint='$name.list'),
            Rule('/$name/<int:id>', endpoint='$name.show')
        ])

        url_map = Map([resource(name='user'), resource(name='page')])

    When a rule template is called the keyword arguments are used to
    replace the placeholders in all the string parameters.
    """

    def __init__(self, rules: t.Iterable[Rule]) -> None:
        self.rules = list(rules)

    def __call__(self, *args: t.Any, **kwargs: t.Any) -> RuleTemplateFactory:
        return RuleTemplateFactory(self.rules, dict(*args, **kwargs))


class RuleTemplateFactory(RuleFactory):
    """A factory that fills in template variables into rules.  Used by
    `RuleTemplate` internally.

    :internal:
    """

    def __init__(
        self, rules: t.Iterable[RuleFactory], context: dict[str, t.Any]
    ) -> None:
        self.rules = rules
        self.context = context

    def get_rules(self, map: Map) -> t.Iterator[Rule]:
        for rulefactory in self.rules:
            for rule in rulefactory.get_rules(map):
                new_defaults = subdomain = None
                if rule.defaults:
                    new_defaults = {}
                    for key, value in rule.defaults.items():
                        if isinstance(value, str):
                            value = Template(value).substitute(self.context)
                        new_defaults[key] = value
                if rule.subdomain is not None:
                    subdomain = Template(rule.subdomain).substitute(self.context)
                new_endpoint = rule.endpoint
                if isinstance(new_endpoint, str):
                    new_endpoint = Template(new_endpoint).substitute(self.context)
                yield Rule(
                    Template(rule.rule).substitute(self.context),
                    new_defaults,
                    subdomain,
                    rule.methods,
                    rule.build_only,
                    new_endpoint,
                    rule.strict_slashes,
                )


_ASTT = t.TypeVar("_ASTT", bound=ast.AST)


def _prefix_names(src: str, expected_type: type[_ASTT]) -> _ASTT:
    """ast parse and prefix names with `.` to avoid collision with user vars"""
    tree: ast.AST = ast.parse(src).body[0]
    if isinstance(tree, ast.Expr):
        tree = tree.value
    if not isinstance(tree, expected_type):
        raise TypeError(
            f"AST node is of type {type(tree).__name__}, not {expected_type.__name__}"
        )
    for node in ast.walk(tree):
        if isinstance(node, ast.Name):
            node.id = f".{node.id}"
    return tree


_CALL_CONVERTER_CODE_FMT = "self._converters[{elem!r}].to_url()"
_IF_KWARGS_URL_ENCODE_CODE = """\
if kwargs:
    params = self._encode_query_vars(kwargs)
    q = "?" if params else ""
else:
    q = params = ""
"""
_IF_KWARGS_URL_ENCODE_AST = _prefix_names(_IF_KWARGS_URL_ENCODE_CODE, ast.If)
_URL_ENCODE_AST_NAMES = (
    _prefix_names("q", ast.Name),
    _prefix_names("params", ast.Name),
)


class Rule(RuleFactory):
    """A Rule represents one URL pattern.  There are some options for `Rule`
    that change the way it behaves and are passed to the `Rule` constructor.
    Note that besides the rule-string all arguments *must* be keyword arguments
    in order to not break the application on Werkzeug upgrades.

    `string`
        Rule strings basically are just normal URL paths with placeholders in
        the format ``<converter(arguments):name>`` where the converter and the
        arguments are optional.  If no converter is defined the `default`
        converter is used which means `string` in the normal configuration.

        URL rules that end with a slash are branch URLs, others are leaves.
        If you have `strict_slashes` enabled (which is the default), all
        branch URLs that are matched without a trailing slash will trigger a
        redirect to the same URL with the missing slash appended.

        The converters are defined on the `Map`.

    `endpoint`
        The endpoint for this rule. This can be anything. A reference to a
        function, a string, a number etc.  The preferred way is using a string
        because the endpoint is used for URL generation.

    `defaults`
        An optional dict with defaults for other rules with the same endpoint.
        This is a bit tricky but useful if you want to have unique URLs::

            url_map = Map([
                Rule('/all/', defaults={'page': 1}, endpoint='all_entries'),
                Rule('/all/page/<int:page>', endpoint='all_entries')
            ])

        If a user now visits ``http://example.com/all/page/1`` they will be
        redirected to ``http://example.com/all/``.  If `redirect_defaults` is
        disabled on the `Map` instance this will only affect the URL
        generation.

    `subdomain`
        The subdomain rule string for this rule. If not specified the rule
        only matches for the `default_subdomain` of the map.  If the map is
        not bound to a subdomain this feature is disabled.

        Can be useful if you want to have user profiles on different subdomains
        and all subdomains are forwarded to your application::

            url_map = Map([
                Rule('/', subdomain='<username>', endpoint='user/homepage'),
                Rule('/stats', subdomain='<username>', endpoint='user/stats')
            ])

    `methods`
        A sequence of http methods this rule applies to.  If not specified, all
        methods are allowed. For example this can be useful if you want different
        endpoints for `POST` and `GET`.  If methods are defined and the path
        matches but the method matched against is not in this list or in the
        list of another rule for that path the error raised is of the type
        `MethodNotAllowed` rather than `NotFound`.  If `GET` is present in the
        list of methods and `HEAD` is not, `HEAD` is added automatically.

    `strict_slashes`
        Override the `Map` setting for `strict_slashes` only for this rule. If
        not specified the `Map` setting is used.

    `merge_slashes`
        Override :attr:`Map.merge_slashes` for this rule.

    `build_only`
        Set this to True and the rule will never match but will create a URL
        that can be build. This is useful if you have resources on a subdomain
        or folder that are not handled by the WSGI application (like static data)

    `redirect_to`
        If given this must be either a string or callable.  In case of a
        callable it's called with the url adapter that triggered the match and
        the values of the URL as keyword arguments and has to return the target
        for the redirect, otherwise it has to be a string with placeholders in
        rule syntax::

            def foo_with_slug(adapter, id):
                # ask the database for the slug for the old id.  this of
                # course has nothing to do with werkzeug.
                return f'foo/{Foo.get_slug_for_id(id)}'

            url_map = Map([
                Rule('/foo/<slug>', endpoint='foo'),
                Rule('/some/old/url/<slug>', redirect_to='foo/<slug>'),
                Rule('/other/old/url/<int:id>', redirect_to=foo_with_slug)
            ])

        When the rule is matched the routing system will raise a
        `RequestRedirect` exception with the target for the redirect.

        Keep in mind that the URL will be joined against the URL root of the
        script so don't use a leading slash on the target URL unless you
        really mean root of that domain.

    `alias`
        If enabled this rule serves as an alias for another rule with the same
        endpoint and arguments.

    `host`
        If provided and the URL map has host matching enabled this can be
        used to provide a match rule for the whole host.  This also means
        that the subdomain feature is disabled.

    `websocket`
        If ``True``, this rule is only matches for WebSocket (``ws://``,
        ``wss://``) requests. By default, rules will only match for HTTP
        requests.

    .. versionchanged:: 2.1
        Percent-encoded newlines (``%0a``), which are decoded by WSGI
        servers, are considered when routing instead of terminating the
        match early.

    .. versionadded:: 1.0
        Added ``websocket``.

    .. versionadded:: 1.0
        Added ``merge_slashes``.

    .. versionadded:: 0.7
        Added ``alias`` and ``host``.

    .. versionchanged:: 0.6.1
       ``HEAD`` is added to ``methods`` if ``GET`` is present.
    """

    def __init__(
        self,
        string: str,
        defaults: t.Mapping[str, t.Any] | None = None,
        subdomain: str | None = None,
        methods: t.Iterable[str] | None = None,
        build_only: bool = False,
        endpoint: t.Any | None = None,
        strict_slashes: bool | None = None,
        merge_slashes: bool | None = None,
        redirect_to: str | t.Callable[..., str] | None = None,
        alias: bool = False,
        host: str | None = None,
        websocket: bool = False,
    ) -> None:
        if not string.startswith("/"):
            raise ValueError(f"URL rule '{string}' must start with a slash.")

        self.rule = string
        self.is_leaf = not string.endswith("/")
        self.is_branch = string.endswith("/")

        self.map: Map = None  # type: ignore
        self.strict_slashes = strict_slashes
        self.merge_slashes = merge_slashes
        self.subdomain = subdomain
        self.host = host
        self.defaults = defaults
        self.build_only = build_only
        self.alias = alias
        self.websocket = websocket

        if methods is not None:
            if isinstance(methods, str):
                raise TypeError("'methods' should be a list of strings.")

            methods = {x.upper() for x in methods}

            if "HEAD" not in methods and "GET" in methods:
                methods.add("HEAD")

            if websocket and methods - {"GET", "HEAD", "OPTIONS"}:
                raise ValueError(
                    "WebSocket rules can only use 'GET', 'HEAD', and 'OPTIONS' methods."
                )

        self.methods = methods
        self.endpoint: t.Any = endpoint
        self.redirect_to = redirect_to

        if defaults:
            self.arguments = set(map(str, defaults))
        else:
            self.arguments = set()

        self._converters: dict[str, BaseConverter] = {}
        self._trace: list[tuple[bool, str]] = []
        self._parts: list[RulePart] = []

    def empty(self) -> Rule:
        """
        Return an unbound copy of this rule.

        This can be useful if want to reuse an already bound URL for another
        map.  See ``get_empty_kwargs`` to override what keyword arguments are
        provided to the new copy.
        """
        return type(self)(self.rule, **self.get_empty_kwargs())

    def get_empty_kwargs(self) -> t.Mapping[str, t.Any]:
        """
        Provides kwargs for instantiating empty copy with empty()

        Use this method to provide custom keyword arguments to the subclass of
        ``Rule`` when calling ``some_rule.empty()``.  Helpful when the subclass
        has custom keyword arguments that are needed at instantiation.

        Must return a ``dict`` that will be provided as kwargs to the new
        instance of ``Rule``, following the initial ``self.rule`` value which
        is always provided as the first, required positional argument.
        """
        defaults = None
        if self.defaults:
            defaults = dict(self.defaults)
        return dict(
            defaults=defaults,
            subdomain=self.subdomain,
            methods=self.methods,
            build_only=self.build_only,
            endpoint=self.endpoint,
            strict_slashes=self.strict_slashes,
            redirect_to=self.redirect_to,
            alias=self.alias,
            host=self.host,
        )

    def get_rules(self, map: Map) -> t.Iterator[Rule]:
        yield self

    def refresh(self) -> None:
        """Rebinds and refreshes the URL.  Call this if you modified the
        rule in place.

        :internal:
        """
        self.bind(self.map, rebind=True)

    def bind(self, map: Map, rebind: bool = False) -> None:
        """Bind the url to a map and create a regular expression based on
        the information from the rule itself and the defaults from the map.

        :internal:
        """
        if self.map is not None and not rebind:
            raise RuntimeError(f"url rule {self!r} already bound to map {self.map!r}")
        self.map = map
        if self.strict_slashes is None:
            self.strict_slashes = map.strict_slashes
        if self.merge_slashes is None:
            self.merge_slashes = map.merge_slashes
        if self.subdomain is None:
            self.subdomain = map.default_subdomain
        self.compile()

    def get_converter(
        self,
        variable_name: str,
        converter_name: str,
        args: tuple[t.Any, ...],
        kwargs: t.Mapping[str, t.Any],
    ) -> BaseConverter:
        """Looks up the converter for the given parameter.

        .. versionadded:: 0.9
        """
        if converter_name not in self.map.converters:
            raise LookupError(f"the converter {converter_name!r} does not exist")
        return self.map.converters[converter_name](self.map, *args, **kwargs)

    def _encode_query_vars(self, query_vars: t.Mapping[str, t.Any]) -> str:
        items: t.Iterable[tuple[str, str]] = iter_multi_items(query_vars)

        if self.map.sort_parameters:
            items = sorted(items, key=self.map.sort_key)

        return _urlencode(items)

    def _parse_rule(self, rule: str) -> t.Iterable[RulePart]:
        content = ""
        static = True
        argument_weights = []
        static_weights: list[tuple[int, int]] = []
        final = False
        convertor_number = 0

        pos = 0
        while pos < len(rule):
            match = _part_re.match(rule, pos)
            if match is None:
                raise ValueError(f"malformed url rule: {rule!r}")

            data = match.groupdict()
            if data["static"] is not None:
                static_weights.append((len(static_weights), -len(data["static"])))
                self._trace.append((False, data["static"]))
                content += data["static"] if static else re.escape(data["static"])

            if data["variable"] is not None:
                if static:
                    # Switching content to represent regex, hence the need to escape
                    content = re.escape(content)
                static = False
                c_args, c_kwargs = parse_converter_args(data["arguments"] or "")
                convobj = self.get_converter(
                    data["variable"], data["converter"] or "default", c_args, c_kwargs
                )
                self._converters[data["variable"]] = convobj
                self.arguments.add(data["variable"])
                if not convobj.part_isolating:
                    final = True
                content += f"(?P<__werkzeug_{convertor_number}>{convobj.regex})"
                convertor_number += 1
                argument_weights.append(convobj.weight)
                self._trace.append((True, data["variable"]))

            if data["slash"] is not None:
                self._trace.append((False, "/"))
                if final:
                    content += "/"
                else:
                    if not static:
                        content += r"\Z"
                    weight = Weighting(
                        -len(static_weights),
                        static_weights,
                        -len(argument_weights),
                        argument_weights,
                    )
                    yield RulePart(
                        content=content,
                        final=final,
                        static=static,
                        suffixed=False,
                        weight=weight,
                    )
                    content = ""
                    static = True
                    argument_weights = []
                    static_weights = []
                    final = False
                    convertor_number = 0

            pos = match.end()

        suffixed = False
        if final and content[-1] == "/":
            # If a converter is part_isolating=False (matches slashes) and ends with a
            # slash, augment the regex to support slash redirects.
            suffixed = True
            content = content[:-1] + "(?<!/)(/?)"
        if not static:
            content += r"\Z"
        weight = Weighting(
            -len(static_weights),
            static_weights,
            -len(argument_weights),
            argument_weights,
        )
        yield RulePart(
            content=content,
            final=final,
            static=static,
            suffixed=suffixed,
            weight=weight,
        )
        if suffixed:
            yield RulePart(
                content="", final=False, static=True, suffixed=False, weight=weight
            )

    def compile(self) -> None:
        """Compiles the regular expression and stores it."""
        assert self.map is not None, "rule not bound"

        if self.map.host_matching:
            domain_rule = self.host or ""
        else:
            domain_rule = self.subdomain or ""
        self._parts = []
        self._trace = []
        self._converters = {}
        if domain_rule == "":
            self._parts = [
                RulePart(
                    content="",
                    final=False,
                    static=True,
                    suffixed=False,
                    weight=Weighting(0, [], 0, []),
                )
            ]
        else:
            self._parts.extend(self._parse_rule(domain_rule))
        self._trace.append((False, "|"))
        rule = self.rule
        if self.merge_slashes:
            rule = re.sub("/{2,}?", "/", self.rule)
        self._parts.extend(self._parse_rule(rule))

        self._build: t.Callable[..., tuple[str, str]]
        self._build = self._compile_builder(False).__get__(self, None)
        self._build_unknown: t.Callable[..., tuple[str, str]]
        self._build_unknown = self._compile_builder(True).__get__(self, None)

    @staticmethod
    def _get_func_code(code: CodeType, name: str) -> t.Callable[..., tuple[str, str]]:
        globs: dict[str, t.Any] = {}
        locs: dict[str, t.Any] = {}
        exec(code, globs, locs)
        return locs[name]  # type: ignore

    def _compile_builder(
        self, append_unknown: bool = True
    ) -> t.Callable[..., tuple[str, str]]:
        defaults = self.defaults or {}
        dom_ops: list[tuple[bool, str]] = []
        url_ops: list[tuple[bool, str]] = []

        opl = dom_ops
        for is_dynamic, data in self._trace:
            if data == "|" and opl is dom_ops:
                opl = url_ops
                continue
            # this seems like a silly case to ever come up but:
            # if a default is given for a value that appears in the rule,
            # resolve it to a constant ahead of time
            if is_dynamic and data in defaults:
                data = self._converters[data].to_url(defaults[data])
                opl.append((False, data))
            elif not is_dynamic:
                # safe = https://url.spec.whatwg.org/#url-path-segment-string
                opl.append((False, quote(data, safe="!$&'()*+,/:;=@")))
            else:
                opl.append((True, data))

        def _convert(elem: str) -> ast.Call:
            ret = _prefix_names(_CALL_CONVERTER_CODE_FMT.format(elem=elem), ast.Call)
            ret.args = [ast.Name(elem, ast.Load())]
            return ret

        def _parts(ops: list[tuple[bool, str]]) -> list[ast.expr]:
            parts: list[ast.expr] = [
                _convert(elem) if is_dynamic else ast.Constant(elem)
                for is_dynamic, elem in ops
            ]
            parts = parts or [ast.Constant("")]
            # constant fold
            ret = [parts[0]]
            for p in parts[1:]:
                if isinstance(p, ast.Constant) and isinstance(ret[-1], ast.Constant):
                    ret[-1] = ast.Constant(ret[-1].value + p.value)
                else:
                    ret.append(p)
            return ret

        dom_parts = _parts(dom_ops)
        url_parts = _parts(url_ops)
        body: list[ast.stmt]
        if not append_unknown:
            body = []
        else:
            body = [_IF_KWARGS_URL_ENCODE_AST]
            url_parts.extend(_URL_ENCODE_AST_NAMES)

        def _join(parts: list[ast.expr]) -> ast.expr:
            if len(parts) == 1:  # shortcut
                return parts[0]
            return ast.JoinedStr(parts)

        body.append(
            ast.Return(ast.Tuple([_join(dom_parts), _join(url_parts)], ast.Load()))
        )

        pargs = [
            elem
            for is_dynamic, elem in dom_ops + url_ops
            if is_dynamic and elem not in defaults
        ]
        kargs = [str(k) for k in defaults]

        func_ast = _prefix_names("def _(): pass", ast.FunctionDef)
        func_ast.name = f"<builder:{self.rule!r}>"
        func_ast.args.args.append(ast.arg(".self", None))
        for arg in pargs + kargs:
            func_ast.args.args.append(ast.arg(arg, None))
        func_ast.args.kwarg = ast.arg(".kwargs", None)
        for _ in kargs:
            func_ast.args.defaults.append(ast.Constant(""))
        func_ast.body = body

        # Use `ast.parse` instead of `ast.Module` for better portability, since the
        # signature of `ast.Module` can change.
        module = ast.parse("")
        module.body = [func_ast]

        # mark everything as on line 1, offset 0
        # less error-prone than `ast.fix_missing_locations`
        # bad line numbers cause an assert to fail in debug builds
        for node in ast.walk(module):
            if "lineno" in node._attributes:
                node.lineno = 1  # type: ignore[attr-defined]
            if "end_lineno" in node._attributes:
                node.end_lineno = node.lineno  # type: ignore[attr-defined]
            if "col_offset" in node._attributes:
                node.col_offset = 0  # type: ignore[attr-defined]
            if "end_col_offset" in node._attributes:
                node.end_col_offset = node.col_offset  # type: ignore[attr-defined]

        code = compile(module, "<werkzeug routing>", "exec")
        return self._get_func_code(code, func_ast.name)

    def build(
        self, values: t.Mapping[str, t.Any], append_unknown: bool = True
    ) -> tuple[str, str] | None:
        """Assembles the relative url for that rule and the subdomain.
        If building doesn't work for some reasons `None` is returned.

        :internal:
        """
        try:
            if append_unknown:
                return self._build_unknown(**values)
            else:
                return self._build(**values)
        except ValidationError:
            return None

    def provides_defaults_for(self, rule: Rule) -> bool:
        """Check if this rule has defaults for a given rule.

        :internal:
        """
        return bool(
            not self.build_only
            and self.defaults
            and self.endpoint == rule.endpoint
            and self != rule
            and self.arguments == rule.arguments
        )

    def suitable_for(
        self, values: t.Mapping[str, t.Any], method: str | None = None
    ) -> bool:
        """Check if the dict of values has enough data for url generation.

        :internal:
        """
        # if a method was given explicitly and that method is not supported
        # by this rule, this rule is not suitable.
        if (
            method is not None
            and self.methods is not None
            and method not in self.methods
        ):
            return False

        defaults = self.defaults or ()

        # all arguments required must be either in the defaults dict or
        # the value dictionary otherwise it's not suitable
        for key in self.arguments:
            if key not in defaults and key not in values:
                return False

        # in case defaults are given we ensure that either the value was
        # skipped or the value is the same as the default value.
        if defaults:
            for key, value in defaults.items():
                if key in values and value != values[key]:
                    return False

        return True

    def build_compare_key(self) -> tuple[int, int, int]:
        """The build compare key for sorting.

        :internal:
        """
        return (1 if self.alias else 0, -len(self.arguments), -len(self.defaults or ()))

    def __eq__(self, other: object) -> bool:
        return isinstance(other, type(self)) and self._trace == other._trace

    __hash__ = None  # type: ignore

    def __str__(self) -> str:
        return self.rule

    def __repr__(self) -> str:
        if self.map is None:
            return f"<{type(self).__name__} (unbound)>"
        parts = []
        for is_dynamic, data in self._trace:
            if is_dynamic:
                parts.append(f"<{data}>")
            else:
                parts.append(data)
        parts_str = "".join(parts).lstrip("|")
        methods = f" ({', '.join(self.methods)})" if self.methods is not None else ""
        return f"<{type(self).__name__} {parts_str!r}{methods} -> {self.endpoint}>"
'''


ORIG_MATCHER_SRC = r'''from __future__ import annotations

import re
import typing as t
from dataclasses import dataclass
from dataclasses import field

from .converters import ValidationError
from .exceptions import NoMatch
from .exceptions import RequestAliasRedirect
from .exceptions import RequestPath
from .rules import Rule
from .rules import RulePart


class SlashRequired(Exception):
    pass


@dataclass
class State:
    """A representation of a rule state.

    This includes the *rules* that correspond to the state and the
    possible *static* and *dynamic* transitions to the next state.
    """

    dynamic: list[tuple[RulePart, State]] = field(default_factory=list)
    rules: list[Rule] = field(default_factory=list)
    static: dict[str, State] = field(default_factory=dict)


class StateMachineMatcher:
    def __init__(self, merge_slashes: bool) -> None:
        self._root = State()
        self.merge_slashes = merge_slashes

    def add(self, rule: Rule) -> None:
        state = self._root
        for part in rule._parts:
            if part.static:
                state.static.setdefault(part.content, State())
                state = state.static[part.content]
            else:
                for test_part, new_state in state.dynamic:
                    if test_part == part:
                        state = new_state
                        break
                else:
                    new_state = State()
                    state.dynamic.append((part, new_state))
                    state = new_state
        state.rules.append(rule)

    def update(self) -> None:
        # For every state the dynamic transitions should be sorted by
        # the weight of the transition
        state = self._root

        def _update_state(state: State) -> None:
            state.dynamic.sort(key=lambda entry: entry[0].weight)
            for new_state in state.static.values():
                _update_state(new_state)
            for _, new_state in state.dynamic:
                _update_state(new_state)

        _update_state(state)

    def match(
        self, domain: str, path: str, method: str, websocket: bool
    ) -> tuple[Rule, t.MutableMapping[str, t.Any]]:
        # To match to a rule we need to start at the root state and
        # try to follow the transitions until we find a match, or find
        # there is no transition to follow.

        have_match_for = set()
        websocket_mismatch = False

        def _match(
            state: State, parts: list[str], values: list[str]
        ) -> tuple[Rule, list[str]] | None:
            # This function is meant to be called recursively, and will attempt
            # to match the head part to the state's transitions.
            nonlocal have_match_for, websocket_mismatch

            # The base case is when all parts have been matched via
            # transitions. Hence if there is a rule with methods &
            # websocket that work return it and the dynamic values
            # extracted.
            if parts == []:
                for rule in state.rules:
                    if rule.methods is not None and method not in rule.methods:
                        have_match_for.update(rule.methods)
                    elif rule.websocket != websocket:
                        websocket_mismatch = True
                    else:
                        return rule, values

                # Test if there is a match with this path with a
                # trailing slash, if so raise an exception to report
                # that matching is possible with an additional slash
                if "" in state.static:
                    for rule in state.static[""].rules:
                        if websocket == rule.websocket and (
                            rule.methods is None or method in rule.methods
                        ):
                            if rule.strict_slashes:
                                raise SlashRequired()
                            else:
                                return rule, values
                        elif (
                            not rule.strict_slashes
                            and rule.methods is not None
                            and method not in rule.methods
                        ):
                            have_match_for.update(rule.methods)
                return None

            part = parts[0]
            # To match this part try the static transitions first
            if part in state.static:
                rv = _match(state.static[part], parts[1:], values)
                if rv is not None:
                    return rv
            # No match via the static transitions, so try the dynamic
            # ones.
            for test_part, new_state in state.dynamic:
                target = part
                remaining = parts[1:]
                # A final part indicates a transition that always
                # consumes the remaining parts i.e. transitions to a
                # final state.
                if test_part.final:
                    target = "/".join(parts)
                    remaining = []
                match = re.compile(test_part.content).match(target)
                if match is not None:
                    if test_part.suffixed:
                        # If a part_isolating=False part has a slash suffix, remove the
                        # suffix from the match and check for the slash redirect next.
                        suffix = match.groups()[-1]
                        if suffix == "/":
                            remaining = [""]

                    converter_groups = sorted(
                        match.groupdict().items(), key=lambda entry: entry[0]
                    )
                    groups = [
                        value
                        for key, value in converter_groups
                        if key[:11] == "__werkzeug_"
                    ]
                    rv = _match(new_state, remaining, values + groups)
                    if rv is not None:
                        return rv

            # If there is no match and the only part left is a
            # trailing slash ("") consider rules that aren't
            # strict-slashes as these should match if there is a final
            # slash part.
            if parts == [""]:
                for rule in state.rules:
                    if rule.strict_slashes:
                        continue
                    if rule.methods is not None and method not in rule.methods:
                        have_match_for.update(rule.methods)
                    elif rule.websocket != websocket:
                        websocket_mismatch = True
                    else:
                        return rule, values

            return None

        try:
            rv = _match(self._root, [domain, *path.split("/")], [])
        except SlashRequired:
            raise RequestPath(f"{path}/") from None

        if self.merge_slashes and rv is None:
            # Try to match again, but with slashes merged
            path = re.sub("/{2,}?", "/", path)
            try:
                rv = _match(self._root, [domain, *path.split("/")], [])
            except SlashRequired:
                raise RequestPath(f"{path}/") from None
            if rv is None or rv[0].merge_slashes is False:
                raise NoMatch(have_match_for, websocket_mismatch)
            else:
                raise RequestPath(f"{path}")
        elif rv is not None:
            rule, values = rv

            result = {}
            for name, value in zip(rule._converters.keys(), values):
                try:
                    value = rule._converters[name].to_python(value)
                except ValidationError:
                    raise NoMatch(have_match_for, websocket_mismatch) from None
                result[str(name)] = value
            if rule.defaults:
                result.update(rule.defaults)

            if rule.alias and rule.map.redirect_defaults:
                raise RequestAliasRedirect(result, rule.endpoint)

            return rule, result

        raise NoMatch(have_match_for, websocket_mismatch)
'''


# ---------------------------------------------------------------------------
# Driver: ORIGINAL rules.py (Rule._parse_rule) + ORIGINAL matcher.py
# (StateMachineMatcher.add/update), both embedded above, versus the refactored
# modules from the worktree.
# ---------------------------------------------------------------------------
import sys
import types

import werkzeug.routing.matcher as new_matcher_mod
import werkzeug.routing.rules as new_rules_mod


def load_orig(name, src):
    mod = types.ModuleType(name)
    mod.__package__ = "werkzeug.routing"
    mod.__file__ = f"<{name}>"
    sys.modules[name] = mod
    exec(compile(src, mod.__file__, "exec"), mod.__dict__)
    return mod


orig_rules_mod = load_orig("werkzeug.routing._orig_rules_c03", ORIG_RULES_SRC)
orig_matcher_mod = load_orig("werkzeug.routing._orig_matcher_c03", ORIG_MATCHER_SRC)
OrigRule = orig_rules_mod.Rule
assert OrigRule is not Rule
assert not hasattr(orig_rules_mod, "_make_weighting")


class OrigMap(Map):
    """A Map whose matcher is the ORIGINAL StateMachineMatcher."""

    def __init__(self, rules=None, **kw):
        super().__init__(None, **kw)
        self._matcher = orig_matcher_mod.StateMachineMatcher(kw.get("merge_slashes", True))
        for rulefactory in rules or ():
            self.add(rulefactory)


def dump_weight(w):
    assert type(w).__name__ == "Weighting" and len(w) == 4
    return (
        w.number_static_weights,
        list(w.static_weights),
        w.number_argument_weights,
        list(w.argument_weights),
        type(w.number_static_weights).__name__,
    )


def dump_part(p):
    return (p.content, p.final, p.static, p.suffixed, dump_weight(p.weight),
            type(p.final).__name__, type(p.static).__name__, type(p.suffixed).__name__)


def dump_rule(r):
    return (
        [dump_part(p) for p in r._parts],
        list(r._trace),
        [(k, type(v).__name__, v.regex, v.weight, v.part_isolating) for k, v in r._converters.items()],
        sorted(r.arguments),
    )


def dump_state(state):
    return (
        [r.rule + "|" + str(r.endpoint) for r in state.rules],
        [(k, dump_state(v)) for k, v in state.static.items()],
        [(dump_part(p), dump_state(s)) for p, s in state.dynamic],
    )


MALFORMED = [
    "/<foo", "/foo>", "/<int:>", "/<a>/<a>", "/<unknown:x>", "/<int(:x>", "/<int(1:x>",
    "/<a><b>", "/<a>/<path:b>/<c>", "/<path:a>/<path:b>", "/<path:a>/", "/<path:a>/x/",
    "/<path:a>/x/<int:b>/", "/<two:a>/<int:b>", "/x<two:a>y/", "/<string(length=0):a>",
    "/<any():a>", "/<1a>", "//", "///a///<b>//", "", "x", "<a>", "/<int(min=3,max=5):a>",
    "/<float(signed=True):a>/<path:p>/", "/a/<path:p>/b/<path:q>/c/",
]


def parse_only(rule_cls, rule_string, map_kwargs):
    """Bind a single rule to a fresh map and dump its compiled parts."""
    try:
        r = rule_cls(rule_string, endpoint="e")
        Map([r], converters=dict(EXTRA_CONVERTERS), **map_kwargs)
        return ("OK", dump_rule(r))
    except Exception as e:  # noqa: BLE001
        return ("EXC", type(e).__name__, str(e))


def main():
    rnd = random.Random(0x2C03)
    total = 0
    mismatches = 0
    outcomes = {}

    # (a) direct _parse_rule comparison, also driving the generator by hand
    plain_kwargs = {"merge_slashes": True}
    strings = list(MALFORMED)
    for _ in range(3000):
        s = gen_rule_string(rnd)
        if rnd.random() < 0.3:
            s = vary_rule_string(rnd, s)
        strings.append(s)
    for s in strings:
        for mk in (plain_kwargs, {"merge_slashes": False}):
            a = parse_only(Rule, s, mk)
            b = parse_only(OrigRule, s, mk)
            total += 1
            outcomes["parse:" + a[0]] = outcomes.get("parse:" + a[0], 0) + 1
            if a != b:
                mismatches += 1
                print("PARSE MISMATCH", repr(s), a, b)
        # step-by-step generator protocol: the side effects visible between
        # yields (self._trace / _converters / arguments) must agree as well
        steps = []
        for cls in (Rule, OrigRule):
            r = cls(s if s.startswith("/") else "/" + s, endpoint="e")
            r.map = Map(converters=dict(EXTRA_CONVERTERS))
            r._trace, r._converters = [], {}
            log = []
            try:
                for part in r._parse_rule(r.rule):
                    log.append((dump_part(part), list(r._trace), list(r._converters), sorted(r.arguments)))
            except Exception as e:  # noqa: BLE001
                log.append(("EXC", type(e).__name__, str(e)))
            steps.append(log)
        total += 1
        if steps[0] != steps[1]:
            mismatches += 1
            print("STEP MISMATCH", repr(s))

    # (b) whole maps: state tree after add()+update(), then matching
    for mi in range(1200):
        specs, map_kwargs = gen_mapspec(rnd)
        built = []
        for rule_cls, map_cls in ((Rule, Map), (OrigRule, OrigMap)):
            try:
                built.append(build_map(specs, map_kwargs, rule_cls=rule_cls, map_cls=map_cls))
            except Exception as e:  # noqa: BLE001
                built.append(("BUILD_EXC", type(e).__name__, str(e)))
        new_map, old_map = built
        if isinstance(new_map, tuple) or isinstance(old_map, tuple):
            total += 1
            if new_map != old_map:
                mismatches += 1
                print("BUILD MISMATCH", specs, new_map, old_map)
            continue
        assert type(new_map._matcher) is new_matcher_mod.StateMachineMatcher
        assert type(old_map._matcher) is orig_matcher_mod.StateMachineMatcher
        assert all(type(r) is OrigRule for r in old_map._rules)
        # tree before update (pure add() behaviour) ...
        total += 1
        if dump_state(new_map._matcher._root) != dump_state(old_map._matcher._root):
            mismatches += 1
            print("TREE MISMATCH (add)", specs)
        new_map.update()
        old_map.update()
        # ... and after update (sorted dynamic transitions)
        total += 1
        if dump_state(new_map._matcher._root) != dump_state(old_map._matcher._root):
            mismatches += 1
            print("TREE MISMATCH (update)", specs)
        bind = gen_bind(rnd, map_kwargs)
        new_ad = new_map.bind(**bind)
        old_ad = old_map.bind(**bind)
        for path in gen_paths(rnd, specs, 10):
            method = rnd.choice(REQ_METHODS)
            websocket = rnd.random() < 0.08
            a = observe_adapter(lambda: new_ad.match(path, method, websocket=websocket))
            b = observe_adapter(lambda: old_ad.match(path, method, websocket=websocket))
            total += 1
            outcomes["adapter:" + a[0]] = outcomes.get("adapter:" + a[0], 0) + 1
            if a != b:
                mismatches += 1
                print("ADAPTER MISMATCH", specs, map_kwargs, bind, path, method, websocket, a, b)
        # late add() after update(): Map.add re-sorts lazily
        if rnd.random() < 0.3:
            extra_rule, extra_kw = gen_spec(rnd, 99, map_kwargs["host_matching"], specs)
            extra_kw.pop("redirect_to", None)
            try:
                new_map.add(Rule(extra_rule, **extra_kw))
                old_map.add(OrigRule(extra_rule, **extra_kw))
            except Exception:  # noqa: BLE001
                continue
            new_map.update()
            old_map.update()
            total += 1
            if dump_state(new_map._matcher._root) != dump_state(old_map._matcher._root):
                mismatches += 1
                print("TREE MISMATCH (late add)", specs, extra_rule)

    print("comparisons:", total, "outcome histogram:", dict(sorted(outcomes.items())))
    if mismatches == 0 and total >= 3000:
        print("PASS")
    else:
        print("FAIL", mismatches)
        sys.exit(1)


if __name__ == "__main__":
    main()
