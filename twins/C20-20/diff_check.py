"""Differential check for refactoring 2 (check_pin_trust / _fail_pin_auth).

Run: cd /tmp/wt15-C20 && PYTHONPATH=/tmp/wt15-C20/src /venv/bin/python /tmp/twin10-C20/2/diff_check.py
"""
from __future__ import annotations

import random
import time

import werkzeug.debug as dbg
from werkzeug.debug import DebuggedApplication
from werkzeug.debug import hash_pin
from werkzeug.debug import PIN_TIME
from werkzeug.http import parse_cookie
from werkzeug.test import EnvironBuilder
from werkzeug.wrappers import Request

# ---- deterministic clock / recorded sleeps ----
NOW = [1_700_000_000.5]
SLEEPS: list[float] = []


class _FakeTime:
    @staticmethod
    def time():
        return NOW[0]

    @staticmethod
    def sleep(x):
        SLEEPS.append(x)

    def __getattr__(self, name):
        return getattr(time, name)


dbg.time = _FakeTime()  # both implementations look up the module global `time`


# ---- ORIGINAL implementation (copied from the unmodified tree) ----
class OrigApp(DebuggedApplication):
    def check_pin_trust(self, environ):
        if self.pin is None:
            return True
        val = parse_cookie(environ).get(self.pin_cookie_name)
        if not val or "|" not in val:
            return False
        ts_str, pin_hash = val.split("|", 1)

        try:
            ts = int(ts_str)
        except ValueError:
            return False

        if pin_hash != hash_pin(self.pin):
            return None
        return (dbg.time.time() - PIN_TIME) < ts

    def _fail_pin_auth(self):
        with self._failed_pin_auth.get_lock():
            count = self._failed_pin_auth.value
            self._failed_pin_auth.value = count + 1

        dbg.time.sleep(5.0 if count > 5 else 0.5)


def wsgi_app(environ, start_response):
    start_response("200 OK", [("Content-Type", "text/plain")])
    return [b"ok"]


PIN = "123-456-789"
COOKIE = "__wzdtest"
SECRET = "s3cr3t"


def make(cls, pin=PIN):
    app = cls(wsgi_app, evalex=True, pin_logging=False)
    app._pin = pin
    app._pin_cookie = COOKIE
    app.secret = SECRET
    return app


rng = random.Random(2020)
GOOD = hash_pin(PIN)
now_i = int(NOW[0])

TS = [
    str(now_i), str(now_i - PIN_TIME), str(now_i - PIN_TIME + 1),
    str(now_i - PIN_TIME - 1), "0", "-1", "", " ", "abc", "1e9", "1.5",
    " 1700000000 ", "+1700000000", "1_700_000_000", "१२३", "9" * 30,
    "9" * 5000, "0x10", str(now_i + 10**6), "\t" + str(now_i), "None",
]
HASHES = [GOOD, GOOD.upper(), GOOD[:-1], GOOD + "x", "", "deadbeefdead",
          GOOD + "|", "|" + GOOD, hash_pin("000-000-000"), " " + GOOD]


def gen_cookie_value():
    r = rng.random()
    if r < 0.08:
        return None
    if r < 0.16:
        return rng.choice(["", "|", "||", "nopipe", GOOD, str(now_i), "a|b|c",
                           '"quoted|' + GOOD + '"', "%7C", "x%7Cy"])
    ts = rng.choice(TS) if rng.random() < 0.7 else str(
        now_i - PIN_TIME + rng.randint(-3, 3)
    )
    h = rng.choice(HASHES) if rng.random() < 0.6 else GOOD
    sep = rng.choice(["|", "|", "|", "||", "", " | "])
    return f"{ts}{sep}{h}"


def environ_for(value, host="localhost", query=None, name=COOKIE):
    headers = {}
    if value is not None:
        headers["Cookie"] = f"{name}={value}"
    b = EnvironBuilder(path="/", query_string=query, headers=headers)
    env = b.get_environ()
    env["HTTP_HOST"] = host
    return env


def run(f, *a):
    try:
        return ("ok", f(*a))
    except BaseException as e:  # noqa: BLE001
        return ("exc", type(e), str(e))


n = bad = 0
from collections import Counter

stats = Counter()

# 1) check_pin_trust directly
orig, new = make(OrigApp), make(DebuggedApplication)
orig_nopin, new_nopin = make(OrigApp, None), make(DebuggedApplication, None)
for _ in range(12000):
    v = gen_cookie_value()
    name = COOKIE if rng.random() < 0.9 else "other"
    NOW[0] = 1_700_000_000.5 + rng.choice([0, 0, 0.5, -0.5, 1, -1])
    a = run(orig.check_pin_trust, environ_for(v, name=name))
    stats["trust=" + repr(a[1])] += 1
    b = run(new.check_pin_trust, environ_for(v, name=name))
    n += 1
    if a != b or (a[0] == "ok" and type(a[1]) is not type(b[1])):
        bad += 1
        print("MISMATCH check_pin_trust", repr(v), a, b)
    a = run(orig_nopin.check_pin_trust, environ_for(v))
    b = run(new_nopin.check_pin_trust, environ_for(v))
    n += 1
    if a != b:
        bad += 1
        print("MISMATCH check_pin_trust(nopin)", repr(v), a, b)
NOW[0] = 1_700_000_000.5

# 2) _fail_pin_auth: counter and delay over 300 consecutive failures (wraps a ubyte)
orig, new = make(OrigApp), make(DebuggedApplication)
for i in range(300):
    SLEEPS.clear()
    orig._fail_pin_auth()
    sa = list(SLEEPS)
    SLEEPS.clear()
    new._fail_pin_auth()
    sb = list(SLEEPS)
    n += 1
    if sa != sb or orig._failed_pin_auth.value != new._failed_pin_auth.value:
        bad += 1
        print("MISMATCH _fail_pin_auth", i, sa, sb)


# 3) whole pin_auth / dispatch sequences through __call__
def call(app, env):
    SLEEPS.clear()
    captured = {}

    def sr(status, headers, exc_info=None):
        captured["status"] = status
        captured["headers"] = sorted(headers)

    try:
        body = b"".join(app(env, sr))
    except BaseException as e:  # noqa: BLE001
        return ("exc", type(e), str(e))
    return (captured.get("status"), captured.get("headers"), body,
            list(SLEEPS), app._failed_pin_auth.value)


PINS = [PIN, "123456789", " 123-456-789 ", "1-2-3-4-5-6-7-8-9", "000-000-000",
        "", "123-456-78", "１２３-456-789"]
HOSTS = ["localhost", "127.0.0.1", "localhost:5000", "a.localhost", "evil.com",
         "notlocalhost", "127.0.0.1.evil.com", "[::1]"]

for seq in range(150):
    orig, new = make(OrigApp), make(DebuggedApplication)
    for step in range(25):
        host = rng.choice(HOSTS) if rng.random() < 0.3 else "localhost"
        cmd = rng.choice(["pinauth", "pinauth", "pinauth", "printpin", "x"])
        secret = SECRET if rng.random() < 0.9 else "bad"
        q = {"__debugger__": "yes", "cmd": cmd, "s": secret}
        r = rng.random()
        if r < 0.85:
            q["pin"] = rng.choice(PINS) if rng.random() < 0.35 else "000-000-000"
        v = gen_cookie_value() if rng.random() < 0.35 else None
        a = call(orig, environ_for(v, host=host, query=q))
        b = call(new, environ_for(v, host=host, query=q))
        n += 1
        stats["seq:" + str(a[0])[:12] + (" auth" if b'"auth": true' in (a[2] if isinstance(a[2], bytes) else b"") else "") + (" exhausted" if b'"exhausted": true' in (a[2] if isinstance(a[2], bytes) else b"") else "")] += 1
        if a != b:
            bad += 1
            print("MISMATCH sequence", seq, step, q, repr(v), host, a, b)

print(dict(stats))
print(f"{n} cases, {bad} mismatches")
print("PASS" if bad == 0 else "FAIL")
