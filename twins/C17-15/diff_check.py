"""Differential check for refactoring 3 (werkzeug.datastructures.accept).

The complete ORIGINAL accept.py is pasted below as ORIG_SOURCE and loaded as a
sibling module; every class is compared against the refactored one in the
worktree.

Run as:
  cd /tmp/wt12-C17 && PYTHONPATH=/tmp/wt12-C17/src /venv/bin/python /tmp/twin7-C17/3/diff_check.py
"""

ORIG_SOURCE = r'''
from __future__ import annotations

import codecs
import collections.abc as cabc
import re
import typing as t

from .structures import ImmutableList


class Accept(ImmutableList[tuple[str, float]]):
    """An :class:`Accept` object is just a list subclass for lists of
    ``(value, quality)`` tuples.  It is automatically sorted by specificity
    and quality.

    All :class:`Accept` objects work similar to a list but provide extra
    functionality for working with the data.  Containment checks are
    normalized to the rules of that header:

    >>> a = CharsetAccept([('ISO-8859-1', 1), ('utf-8', 0.7)])
    >>> a.best
    'ISO-8859-1'
    >>> 'iso-8859-1' in a
    True
    >>> 'UTF8' in a
    True
    >>> 'utf7' in a
    False

    To get the quality for an item you can use normal item lookup:

    >>> print a['utf-8']
    0.7
    >>> a['utf7']
    0

    .. versionchanged:: 0.5
       :class:`Accept` objects are forced immutable now.

    .. versionchanged:: 1.0.0
       :class:`Accept` internal values are no longer ordered
       alphabetically for equal quality tags. Instead the initial
       order is preserved.

    """

    def __init__(
        self, values: Accept | cabc.Iterable[tuple[str, float]] | None = ()
    ) -> None:
        if values is None:
            super().__init__()
            self.provided = False
        elif isinstance(values, Accept):
            self.provided = values.provided
            super().__init__(values)
        else:
            self.provided = True
            values = sorted(
                values, key=lambda x: (self._specificity(x[0]), x[1]), reverse=True
            )
            super().__init__(values)

    def _specificity(self, value: str) -> tuple[bool, ...]:
        """Returns a tuple describing the value's specificity."""
        return (value != "*",)

    def _value_matches(self, value: str, item: str) -> bool:
        """Check if a value matches a given accept item."""
        return item == "*" or item.lower() == value.lower()

    @t.overload
    def __getitem__(self, key: str) -> float: ...
    @t.overload
    def __getitem__(self, key: t.SupportsIndex) -> tuple[str, float]: ...
    @t.overload
    def __getitem__(self, key: slice) -> list[tuple[str, float]]: ...
    def __getitem__(
        self, key: str | t.SupportsIndex | slice
    ) -> float | tuple[str, float] | list[tuple[str, float]]:
        """Besides index lookup (getting item n) you can also pass it a string
        to get the quality for the item.  If the item is not in the list, the
        returned quality is ``0``.
        """
        if isinstance(key, str):
            return self.quality(key)
        return list.__getitem__(self, key)

    def quality(self, key: str) -> float:
        """Returns the quality of the key.

        .. versionadded:: 0.6
           In previous versions you had to use the item-lookup syntax
           (eg: ``obj[key]`` instead of ``obj.quality(key)``)
        """
        for item, quality in self:
            if self._value_matches(key, item):
                return quality
        return 0

    def __contains__(self, value: str) -> bool:  # type: ignore[override]
        for item, _quality in self:
            if self._value_matches(value, item):
                return True
        return False

    def __repr__(self) -> str:
        pairs_str = ", ".join(f"({x!r}, {y})" for x, y in self)
        return f"{type(self).__name__}([{pairs_str}])"

    def index(self, key: str | tuple[str, float]) -> int:  # type: ignore[override]
        """Get the position of an entry or raise :exc:`ValueError`.

        :param key: The key to be looked up.

        .. versionchanged:: 0.5
           This used to raise :exc:`IndexError`, which was inconsistent
           with the list API.
        """
        if isinstance(key, str):
            for idx, (item, _quality) in enumerate(self):
                if self._value_matches(key, item):
                    return idx
            raise ValueError(key)
        return list.index(self, key)

    def find(self, key: str | tuple[str, float]) -> int:
        """Get the position of an entry or return -1.

        :param key: The key to be looked up.
        """
        try:
            return self.index(key)
        except ValueError:
            return -1

    def values(self) -> cabc.Iterator[str]:
        """Iterate over all values."""
        for item in self:
            yield item[0]

    def to_header(self) -> str:
        """Convert the header set into an HTTP header string."""
        result = []
        for value, quality in self:
            if quality != 1:
                value = f"{value};q={quality}"
            result.append(value)
        return ",".join(result)

    def __str__(self) -> str:
        return self.to_header()

    def _best_single_match(self, match: str) -> tuple[str, float] | None:
        for client_item, quality in self:
            if self._value_matches(match, client_item):
                # self is sorted by specificity descending, we can exit
                return client_item, quality
        return None

    @t.overload
    def best_match(self, matches: cabc.Iterable[str]) -> str | None: ...
    @t.overload
    def best_match(self, matches: cabc.Iterable[str], default: str = ...) -> str: ...
    def best_match(
        self, matches: cabc.Iterable[str], default: str | None = None
    ) -> str | None:
        """Returns the best match from a list of possible matches based
        on the specificity and quality of the client. If two items have the
        same quality and specificity, the one is returned that comes first.

        :param matches: a list of matches to check for
        :param default: the value that is returned if none match
        """
        result = default
        best_quality: float = -1
        best_specificity: tuple[float, ...] = (-1,)
        for server_item in matches:
            match = self._best_single_match(server_item)
            if not match:
                continue
            client_item, quality = match
            specificity = self._specificity(client_item)
            if quality <= 0 or quality < best_quality:
                continue
            # better quality or same quality but more specific => better match
            if quality > best_quality or specificity > best_specificity:
                result = server_item
                best_quality = quality
                best_specificity = specificity
        return result

    @property
    def best(self) -> str | None:
        """The best match as value."""
        if self:
            return self[0][0]

        return None


_mime_split_re = re.compile(r"/|(?:\s*;\s*)")


def _normalize_mime(value: str) -> list[str]:
    return _mime_split_re.split(value.lower())


class MIMEAccept(Accept):
    """Like :class:`Accept` but with special methods and behavior for
    mimetypes.
    """

    def _specificity(self, value: str) -> tuple[bool, ...]:
        return tuple(x != "*" for x in _mime_split_re.split(value))

    def _value_matches(self, value: str, item: str) -> bool:
        # item comes from the client, can't match if it's invalid.
        if "/" not in item:
            return False

        # value comes from the application, tell the developer when it
        # doesn't look valid.
        if "/" not in value:
            raise ValueError(f"invalid mimetype {value!r}")

        # Split the match value into type, subtype, and a sorted list of parameters.
        normalized_value = _normalize_mime(value)
        value_type, value_subtype = normalized_value[:2]
        value_params = sorted(normalized_value[2:])

        # "*/*" is the only valid value that can start with "*".
        if value_type == "*" and value_subtype != "*":
            raise ValueError(f"invalid mimetype {value!r}")

        # Split the accept item into type, subtype, and parameters.
        normalized_item = _normalize_mime(item)
        item_type, item_subtype = normalized_item[:2]
        item_params = sorted(normalized_item[2:])

        # "*/not-*" from the client is invalid, can't match.
        if item_type == "*" and item_subtype != "*":
            return False

        return (
            (item_type == "*" and item_subtype == "*")
            or (value_type == "*" and value_subtype == "*")
        ) or (
            item_type == value_type
            and (
                item_subtype == "*"
                or value_subtype == "*"
                or (item_subtype == value_subtype and item_params == value_params)
            )
        )

    @property
    def accept_html(self) -> bool:
        """True if this object accepts HTML."""
        return "text/html" in self or self.accept_xhtml  # type: ignore[comparison-overlap]

    @property
    def accept_xhtml(self) -> bool:
        """True if this object accepts XHTML."""
        return "application/xhtml+xml" in self or "application/xml" in self  # type: ignore[comparison-overlap]

    @property
    def accept_json(self) -> bool:
        """True if this object accepts JSON."""
        return "application/json" in self  # type: ignore[comparison-overlap]


_locale_delim_re = re.compile(r"[_-]")


def _normalize_lang(value: str) -> list[str]:
    """Process a language tag for matching."""
    return _locale_delim_re.split(value.lower())


class LanguageAccept(Accept):
    """Like :class:`Accept` but with normalization for language tags."""

    def _value_matches(self, value: str, item: str) -> bool:
        return item == "*" or _normalize_lang(value) == _normalize_lang(item)

    @t.overload
    def best_match(self, matches: cabc.Iterable[str]) -> str | None: ...
    @t.overload
    def best_match(self, matches: cabc.Iterable[str], default: str = ...) -> str: ...
    def best_match(
        self, matches: cabc.Iterable[str], default: str | None = None
    ) -> str | None:
        """Given a list of supported values, finds the best match from
        the list of accepted values.

        Language tags are normalized for the purpose of matching, but
        are returned unchanged.

        If no exact match is found, this will fall back to matching
        the first subtag (primary language only), first with the
        accepted values then with the match values. This partial is not
        applied to any other language subtags.

        The default is returned if no exact or fallback match is found.

        :param matches: A list of supported languages to find a match.
        :param default: The value that is returned if none match.
        """
        # Look for an exact match first. If a client accepts "en-US",
        # "en-US" is a valid match at this point.
        result = super().best_match(matches)

        if result is not None:
            return result

        # Fall back to accepting primary tags. If a client accepts
        # "en-US", "en" is a valid match at this point. Need to use
        # re.split to account for 2 or 3 letter codes.
        fallback = Accept(
            [(_locale_delim_re.split(item[0], 1)[0], item[1]) for item in self]
        )
        result = fallback.best_match(matches)

        if result is not None:
            return result

        # Fall back to matching primary tags. If the client accepts
        # "en", "en-US" is a valid match at this point.
        fallback_matches = [_locale_delim_re.split(item, 1)[0] for item in matches]
        result = super().best_match(fallback_matches)

        # Return a value from the original match list. Find the first
        # original value that starts with the matched primary tag.
        if result is not None:
            return next(
                item
                for item in matches
                if _locale_delim_re.split(item, 1)[0] == result
            )

        return default


class CharsetAccept(Accept):
    """Like :class:`Accept` but with normalization for charsets."""

    def _value_matches(self, value: str, item: str) -> bool:
        def _normalize(name: str) -> str:
            try:
                return codecs.lookup(name).name
            except LookupError:
                return name.lower()

        return item == "*" or _normalize(value) == _normalize(item)
'''


# ---------------------------------------------------------------------------
# Harness: load the original classes next to the refactored ones and compare.
# ---------------------------------------------------------------------------
import math
import random
import sys
import types

import werkzeug.datastructures  # noqa: F401  (package must be imported first)
from werkzeug.datastructures import accept as new
from werkzeug.http import parse_accept_header

orig = types.ModuleType("werkzeug.datastructures._orig_accept")
orig.__package__ = "werkzeug.datastructures"
sys.modules[orig.__name__] = orig
exec(compile(ORIG_SOURCE, "<original accept.py>", "exec"), orig.__dict__)

rng = random.Random(170017)

FAMILIES = ["Accept", "MIMEAccept", "LanguageAccept", "CharsetAccept"]

GENERIC = ["gzip", "GZIP", "br", "identity", "deflate", "*", "x-gzip", "", " gzip", "**"]
MTYPES = ["text", "application", "image", "*", "TEXT", "a"]
MSUBS = ["html", "plain", "json", "xml", "xhtml+xml", "png", "*", "HTML", "b"]
MPARAMS = ["", "", "", ";level=1", "; level=1", ";level=2", ";charset=utf-8", ";a=1;b=2",
           ";b=2;a=1", " ;  q2=x", ";LEVEL=1", ";*"]
MBAD = ["text", "*", "", "html", "text/", "/html", "/", "text/html/x", "*/", "/*", "a;b/c"]
LANGS = ["en", "EN", "en-US", "en_US", "en-us", "en-GB", "de", "de-DE", "de_AT", "fr", "fr-CA",
         "zh", "zh-Hant", "zh-Hant-TW", "zh_hant_tw", "*", "e", "", "en-", "-en", "_", "en--US",
         "es-419", "sr-Latn", "i-klingon", "*-US", "en-*"]
CHARSETS = ["utf-8", "UTF-8", "utf8", "UTF8", "utf_8", "u8", "latin1", "latin-1", "iso-8859-1",
            "ISO-8859-1", "iso8859-1", "l1", "ascii", "us-ascii", "646", "cp1252", "windows-1252",
            "utf-16", "utf7", "unknown", "x-unknown", "UnKnown", "*", "", " utf-8", "utf-8 ",
            "a\x00b", "é", "utf 8", "UTF", "big5", "shift_jis", "sjis"]
QUALS = [0, 1, 0.5, 0.3, 0.7, 0.0, 1.0, 0.1, 0.9, 0.001, 0.999, 0.5, 1, 1, 1]
WEIRD_QUALS = [float("nan"), -0.5, -1, 2, 1.5, -0.0, float("inf"), True, False]


def gen_value(family, offer=False):
    r = rng.random()
    if family == "Accept":
        return rng.choice(GENERIC)
    if family == "MIMEAccept":
        if r < (0.04 if offer else 0.1):
            return rng.choice(MBAD)
        t_, s_ = rng.choice(MTYPES), rng.choice(MSUBS)
        if r < 0.3:
            t_, s_ = "text", rng.choice(["html", "plain", "*"])
        if offer and r > 0.15:
            # mostly concrete offers
            t_ = t_ if t_ != "*" else "text"
            s_ = s_ if s_ != "*" else "html"
        return f"{t_}/{s_}{rng.choice(MPARAMS)}"
    if family == "LanguageAccept":
        return rng.choice(LANGS)
    return rng.choice(CHARSETS)


def gen_q(weird_ok):
    r = rng.random()
    if weird_ok and r < 0.08:
        return rng.choice(WEIRD_QUALS)
    if r < 0.25:
        return round(rng.random(), rng.randint(1, 3))
    return rng.choice(QUALS)


def gen_pairs(family, weird_ok):
    n = rng.choice([0, 1, 1, 2, 2, 3, 3, 4, 5, 6, 8])
    return [(gen_value(family), gen_q(weird_ok)) for _ in range(n)]


def gen_header(family):
    items = []
    for value, q in gen_pairs(family, False):
        r = rng.random()
        if r < 0.15:
            items.append(value)
        elif r < 0.25:
            items.append(f"{value};q={rng.choice(['abc', '2', '-1', '1.', '.5', '1e0', '', ' 0.5 ', '-0'])}")
        else:
            items.append(f"{value};q={q}")
    return rng.choice([",", ", ", " , "]).join(items)


def gen_offers(family):
    n = rng.choice([0, 1, 1, 2, 2, 3, 3, 4, 5, 6])
    return [gen_value(family, offer=True) for _ in range(n)]


def norm(x):
    if isinstance(x, float) and math.isnan(x):
        return "<nan>"
    if isinstance(x, (int, float)) and not isinstance(x, bool):
        return (type(x).__name__, repr(x))
    if isinstance(x, (list, tuple)):
        return (type(x).__name__, [norm(i) for i in x])
    return x


def call(fn, *a, **kw):
    try:
        return ("ok", norm(fn(*a, **kw)))
    except Exception as e:  # noqa: BLE001
        return ("exc", type(e).__name__, str(e))


class CountingIterable:
    """Re-iterable that records how often / how far it was iterated."""

    def __init__(self, data):
        self.data = list(data)
        self.log = []

    def __iter__(self):
        self.log.append("iter")
        for i, x in enumerate(self.data):
            self.log.append(i)
            yield x


def observe(mod, family, source, offers, keys, default):
    cls = getattr(mod, family)
    out = []
    kind, payload = source
    if kind == "pairs":
        made = call(lambda: cls(payload))
        if made[0] == "exc":
            return [made]
        acc = cls(payload)
    elif kind == "none":
        acc = cls(None)
    elif kind == "copy":
        acc = cls(getattr(mod, payload[0])(payload[1]))
    else:
        acc = parse_accept_header(payload, cls)
    out.append(("type", type(acc).__name__, [b.__name__ for b in type(acc).__mro__]))
    out.append(("list", norm(list(acc))))
    out.append(("provided", acc.provided))
    out.append(("best", call(lambda: acc.best)))
    out.append(("to_header", call(acc.to_header)))
    out.append(("str", call(str, acc)))
    out.append(("repr", call(repr, acc)))
    out.append(("values", call(lambda: list(acc.values()))))
    for k in keys:
        out.append(("quality", k, call(acc.quality, k)))
        out.append(("getitem", k, call(acc.__getitem__, k)))
        out.append(("contains", k, call(acc.__contains__, k)))
        out.append(("index", k, call(acc.index, k)))
        out.append(("find", k, call(acc.find, k)))
        out.append(("single", k, call(acc._best_single_match, k)))
        out.append(("spec", k, call(acc._specificity, k)))
        for entry in list.__getitem__(acc, slice(0, 4)):
            v = entry[0] if isinstance(entry, tuple) and entry else entry
            out.append(("vm", k, v, call(acc._value_matches, k, v)))
    out.append(("getitem0", call(acc.__getitem__, 0)))
    out.append(("slice", call(acc.__getitem__, slice(0, 2))))
    out.append(("bm", call(acc.best_match, offers)))
    out.append(("bm_default", call(acc.best_match, offers, default)))
    out.append(("bm_kw", call(acc.best_match, offers, default=default)))
    out.append(("bm_tuple", call(acc.best_match, tuple(offers))))
    # one-shot iterator: the number of passes over ``matches`` is observable
    out.append(("bm_iter", call(acc.best_match, iter(offers), default)))
    out.append(("bm_gen", call(acc.best_match, (o for o in offers))))
    ci = CountingIterable(offers)
    out.append(("bm_counting", call(acc.best_match, ci, default), list(ci.log)))
    for o in offers[:3]:
        out.append(("bm1", o, call(acc.best_match, [o])))
    return out


def main():
    n = 0
    chosen = 0
    defaulted = 0
    raised = 0
    for i in range(12000):
        family = FAMILIES[i % 4]
        r = rng.random()
        if r < 0.5:
            source = ("pairs", gen_pairs(family, weird_ok=True))
        elif r < 0.9:
            source = ("header", gen_header(family))
        elif r < 0.93:
            source = ("none", None)
        elif r < 0.95:
            source = ("pairs", rng.choice([[("a",)], [("a", 1, 2)], ["ab"], [(1, 1)], [(None, 1)],
                                            [("a/b", "x")], [("a/b", None), ("c/d", 1)], 5,
                                            [("a/b", 0.5), ("a/b", "0.5")]]))
        else:
            source = ("copy", (rng.choice(FAMILIES), gen_pairs(family, weird_ok=False)))
        offers = gen_offers(family)
        keys = [gen_value(family, offer=True) for _ in range(3)] + [gen_value(family)]
        default = rng.choice([None, "DEFAULT", "", offers[0] if offers else "x"])
        a = observe(orig, family, source, offers, keys, default)
        b = observe(new, family, source, offers, keys, default)
        if a != b:
            print("FAIL", family, source, offers, keys, default)
            for x, y in zip(a, b):
                if x != y:
                    print("  orig:", x)
                    print("  new :", y)
            return 1
        n += 1
        for entry in a:
            if entry[0] == "bm":
                if entry[1][0] == "exc":
                    raised += 1
                elif entry[1][1] is None:
                    defaulted += 1
                else:
                    chosen += 1
    print(f"compared {n} accept objects x ~60 observations each "
          f"(best_match: {chosen} chose an offer, {defaulted} fell to default, {raised} raised)")
    print("PASS")
    return 0


if __name__ == "__main__":
    raise SystemExit(main())
