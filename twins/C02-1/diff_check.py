"""Differential check for refactoring 1 (MultipartEncoder.send_event).

Compares the refactored werkzeug.sansio.multipart.MultipartEncoder against a
pasted copy of the ORIGINAL implementation on random event sequences (valid and
invalid), comparing returned bytes, encoder state after every event and raised
exception types/messages.  Also checks encode->decode round trips.
"""
from __future__ import annotations

import random
import sys
import typing as t

from werkzeug.datastructures import Headers
from werkzeug.sansio.multipart import Data
from werkzeug.sansio.multipart import Epilogue
from werkzeug.sansio.multipart import Event
from werkzeug.sansio.multipart import Field
from werkzeug.sansio.multipart import File
from werkzeug.sansio.multipart import MultipartDecoder
from werkzeug.sansio.multipart import MultipartEncoder
from werkzeug.sansio.multipart import NEED_DATA
from werkzeug.sansio.multipart import Preamble
from werkzeug.sansio.multipart import State


class OrigMultipartEncoder:
    def __init__(self, boundary: bytes) -> None:
        self.boundary = boundary
        self.state = State.PREAMBLE

    def send_event(self, event: Event) -> bytes:
        if isinstance(event, Preamble) and self.state == State.PREAMBLE:
            self.state = State.PART
            return event.data
        elif isinstance(event, (Field, File)) and self.state in {
            State.PREAMBLE,
            State.PART,
            State.DATA,
        }:
            data = b"\r\n--" + self.boundary + b"\r\n"
            data += b'Content-Disposition: form-data; name="%s"' % event.name.encode()
            if isinstance(event, File):
                data += b'; filename="%s"' % event.filename.encode()
            data += b"\r\n"
            for name, value in t.cast(Field, event).headers:
                if name.lower() != "content-disposition":
                    data += f"{name}: {value}\r\n".encode()
            self.state = State.DATA_START
            return data
        elif isinstance(event, Data) and self.state == State.DATA_START:
            self.state = State.DATA
            if len(event.data) > 0:
                return b"\r\n" + event.data
            else:
                return event.data
        elif isinstance(event, Data) and self.state == State.DATA:
            return event.data
        elif isinstance(event, Epilogue):
            self.state = State.COMPLETE
            return b"\r\n--" + self.boundary + b"--\r\n" + event.data
        else:
            raise ValueError(f"Cannot generate {event} in state: {self.state}")


rng = random.Random(20261002)

TEXT_POOL = (
    "abcXYZ019 _-.;=:/'%*\t"
    "äöüßé中文日本\U0001f600\U0001f4a9"
    "\u0000\u007f\u0080ÿĀ  ﻿"
)


def rand_text(maxlen: int = 12, lone_surrogate: bool = False) -> str:
    n = rng.randrange(0, maxlen)
    s = "".join(rng.choice(TEXT_POOL) for _ in range(n))
    if lone_surrogate and rng.random() < 0.05:
        s += "\ud800"  # .encode() raises UnicodeEncodeError
    return s


def rand_boundary() -> bytes:
    n = rng.choice([1, 2, 5, 10, 30, 70])
    return "".join(
        rng.choice("abcdefghijklmnopqrstuvwxyz0123456789-_'") for _ in range(n)
    ).encode()


def rand_bytes(boundary: bytes) -> bytes:
    pieces = [
        b"",
        b"\r",
        b"\n",
        b"\r\n",
        b"--",
        b"-",
        b"\r\n--",
        b"\r\n--" + boundary[:-1],
        b"--" + boundary[: len(boundary) // 2],
        boundary,
        b"\x00\xff\xfe",
        b"abc",
        bytes(rng.randrange(256) for _ in range(rng.randrange(0, 9))),
    ]
    return b"".join(rng.choice(pieces) for _ in range(rng.randrange(0, 6)))


def rand_headers() -> Headers:
    h = Headers()
    for _ in range(rng.randrange(0, 4)):
        name = rng.choice(
            [
                "Content-Type",
                "content-disposition",
                "Content-Disposition",
                "CONTENT-DISPOSITION",
                "X-Custom",
                "Content-Length",
                "X-" + rand_text(5).replace("\t", "") or "X-e",
            ]
        )
        value = rng.choice(
            ["text/plain", "application/octet-stream; charset=utf-8", "12", ""]
        ) + rand_text(6)
        try:
            h.add(name, value)
        except ValueError:
            pass
    return h


def rand_event(boundary: bytes) -> Event:
    r = rng.random()
    if r < 0.12:
        return Preamble(data=rand_bytes(boundary))
    if r < 0.32:
        name: t.Any = rand_text(lone_surrogate=True)
        if rng.random() < 0.03:
            name = None  # AttributeError path
        return Field(name=name, headers=rand_headers())
    if r < 0.52:
        name = rand_text(lone_surrogate=True)
        filename: t.Any = rand_text(lone_surrogate=True)
        if rng.random() < 0.03:
            filename = None
        return File(name=name, filename=filename, headers=rand_headers())
    if r < 0.85:
        data: t.Any = rand_bytes(boundary)
        if rng.random() < 0.1:
            data = bytearray(data)
        return Data(data=data, more_data=rng.random() < 0.5)
    if r < 0.95:
        return Epilogue(data=rand_bytes(boundary))
    return rng.choice([NEED_DATA, Event()])


def valid_sequence(boundary: bytes) -> list[Event]:
    events: list[Event] = []
    if rng.random() < 0.8:
        events.append(Preamble(data=b""))
    for _ in range(rng.randrange(0, 6)):
        name = rand_text().replace('"', "")
        if rng.random() < 0.5:
            events.append(Field(name=name, headers=rand_headers()))
        else:
            events.append(File(name=name, filename=rand_text(), headers=rand_headers()))
        chunks = rng.randrange(0, 4)
        for _ in range(chunks):
            events.append(Data(data=rand_bytes(boundary), more_data=True))
        events.append(Data(data=rand_bytes(boundary), more_data=False))
    events.append(Epilogue(data=b""))
    return events


def run(enc: t.Any, events: list[Event]) -> list[t.Any]:
    out: list[t.Any] = []
    for ev in events:
        try:
            res = enc.send_event(ev)
            out.append(("ok", type(res).__name__, bytes(res), enc.state))
        except Exception as e:  # noqa: B902
            out.append(("exc", type(e).__name__, str(e), enc.state))
    return out


def decode_all(boundary: bytes, body: bytes) -> list[t.Any]:
    dec = MultipartDecoder(boundary)
    dec.receive_data(body)
    dec.receive_data(None)
    evs: list[t.Any] = []
    try:
        while True:
            ev = dec.next_event()
            evs.append(ev)
            if isinstance(ev, Epilogue):
                break
    except Exception as e:  # noqa: B902
        evs.append(("exc", type(e).__name__, str(e)))
    return evs


def main() -> int:
    cases = 0
    for i in range(6000):
        boundary = rand_boundary()
        if i % 2:
            events = valid_sequence(boundary)
        else:
            events = [rand_event(boundary) for _ in range(rng.randrange(1, 12))]
        a = run(OrigMultipartEncoder(boundary), events)
        b = run(MultipartEncoder(boundary), events)
        if a != b:
            print("FAIL: mismatch for", boundary, events)
            for x, y in zip(a, b):
                if x != y:
                    print("  orig:", x)
                    print("  new :", y)
                    break
            return 1
        if i % 2:
            body_a = b"".join(x[2] for x in a if x[0] == "ok")
            body_b = b"".join(x[2] for x in b if x[0] == "ok")
            if decode_all(boundary, body_a) != decode_all(boundary, body_b):
                print("FAIL: decoded streams differ")
                return 1
        cases += 1
    print(f"PASS ({cases} event sequences compared)")
    return 0


if __name__ == "__main__":
    sys.exit(main())
