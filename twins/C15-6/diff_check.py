"""Differential check for refactoring 3 (sansio.utils.get_host / get_current_url).

Run: cd /tmp/wt6-C15 && PYTHONPATH=/tmp/wt6-C15/src /venv/bin/python /tmp/twin4-C15/3/diff_check.py
"""
import random
from urllib.parse import quote

from werkzeug.exceptions import SecurityError
from werkzeug.sansio import utils as new
from werkzeug.sansio.utils import host_is_trusted  # untouched by the refactoring
from werkzeug.urls import uri_to_iri  # untouched by the refactoring
from werkzeug.test import EnvironBuilder
from werkzeug.wrappers import Request


# ---- verbatim copies of the ORIGINAL implementations -------------------------
def o_get_host(scheme, host_header, server=None, trusted_hosts=None):
    host = ""

    if host_header is not None:
        host = host_header
    elif server is not None:
        host = server[0]

        # If SERVER_NAME is IPv6, wrap it in [] to match Host header.
        # Check for : because domain or IPv4 can't have that.
        if ":" in host and host[0] != "[":
            host = f"[{host}]"

        if server[1] is not None:
            host = f"{host}:{server[1]}"

    if scheme in {"http", "ws"} and host.endswith(":80"):
        host = host[:-3]
    elif scheme in {"https", "wss"} and host.endswith(":443"):
        host = host[:-4]

    if trusted_hosts is not None:
        if not host_is_trusted(host, trusted_hosts):
            raise SecurityError(f"Host {host!r} is not trusted.")

    return host


def o_get_current_url(scheme, host, root_path=None, path=None, query_string=None):
    url = [scheme, "://", host]

    if root_path is None:
        url.append("/")
        return uri_to_iri("".join(url))

    # safe = https://url.spec.whatwg.org/#url-path-segment-string
    # as well as percent for things that are already quoted
    url.append(quote(root_path.rstrip("/"), safe="!$&'()*+,/:;=@%"))
    url.append("/")

    if path is None:
        return uri_to_iri("".join(url))

    url.append(quote(path.lstrip("/"), safe="!$&'()*+,/:;=@%"))

    if query_string:
        url.append("?")
        url.append(quote(query_string, safe="!$&'()*+,/:;=?@%"))

    return uri_to_iri("".join(url))


# ---- generators --------------------------------------------------------------
rng = random.Random(315)
SCHEMES = ["http", "https", "ws", "wss", "ftp", "", "HTTP", None, ["http"]]
HOSTS = [
    "example.com", "example.com:80", "example.com:443", "example.com:8080", "",
    ":80", ":443", "[::1]", "[::1]:80", "[::1]:443", "::1", "☃.net", "xn--n3h.net",
    "xn--n3h.net:80", "caf\xe9.example:443", "a b", "user@host", "host:80:80",
    "80", "443", "[fe80::1", "localhost:443", "LOCALHOST:80",
]
SERVERS = [
    None, ("localhost", 80), ("localhost", 443), ("localhost", 8080), ("localhost", None),
    ("::1", 80), ("::1", None), ("[::1]", 443), ("/tmp/sock", None), ("", 80), ("", None),
    ("☃.net", 443), ("a:b", "80"), (None, 80), ("h",), (), ("h", "443"),
]
TRUSTED = [
    None, [], ["example.com"], [".example.com"], "example.com", ["localhost"], ["[::1]"],
    [".net"], ["xn--n3h.net"], ["☃.net"], ["a" * 70], [5],
]
ALPH = list("abcXYZ09-._~!$&'()*+,;=:@/?#[] %\"<>") + ["☃", "\xe9", "𝄞", "%2F", "%C3%A5", "%DF", "%", "%zz", "日本"]


def rand_text(n=10):
    return "".join(rng.choice(ALPH) for _ in range(rng.randrange(0, n)))


def rand_path():
    t = rand_text()
    r = rng.random()
    if r < 0.4:
        return "/" + t
    if r < 0.5:
        return "//" + t + "//"
    return t


def call(f, *a, **k):
    try:
        return ("ok", f(*a, **k))
    except BaseException as e:  # noqa: BLE001
        return ("exc", type(e), str(e))


def main():
    n = 0
    # get_host: exhaustive product + random
    for scheme in SCHEMES:
        for hh in [None, *HOSTS, b"example.com:80", 5]:
            for server in SERVERS:
                for trusted in TRUSTED:
                    a = call(o_get_host, scheme, hh, server, trusted)
                    b = call(new.get_host, scheme, hh, server, trusted)
                    if a != b:
                        print("MISMATCH get_host", scheme, hh, server, trusted, a, b)
                        raise SystemExit(1)
                    n += 1

    for _ in range(20000):
        scheme = rng.choice(["http", "https", "ws", "wss", "ftp", ""])
        host = rng.choice(HOSTS + [rand_text()])
        root = rng.choice([None, "", "/", rand_path(), rand_path() + "/", b"/x", 5])
        path = rng.choice([None, "", "/", rand_path(), rand_path(), b"/y"])
        r = rng.random()
        if r < 0.2:
            qs = None
        elif r < 0.3:
            qs = b""
        elif r < 0.9:
            qs = rand_text().encode("utf-8")
            if rng.random() < 0.2:
                qs += bytes([rng.randrange(128, 256)])
        else:
            qs = rand_text()  # str also accepted by quote
        a = call(o_get_current_url, scheme, host, root, path, qs)
        b = call(new.get_current_url, scheme, host, root, path, qs)
        if a != b:
            print("MISMATCH get_current_url", scheme, host, root, path, qs, a, b)
            raise SystemExit(1)
        n += 1

    # end to end through EnvironBuilder / Request (property level)
    for _ in range(3000):
        path = "/" + rand_text().replace("?", "").replace("#", "")
        query = rand_text().replace("#", "")
        base = rng.choice(
            ["http://localhost/", "https://☃.net:443/app/", "http://example.com:8080/a%20b",
             "https://caf\xe9.example/r\xe9/", "http://[::1]:80/", "ws://h:80/x"]
        )
        try:
            env = EnvironBuilder(path=path, base_url=base, query_string=query).get_environ()
        except Exception:  # noqa: BLE001
            continue
        req = Request(env)
        server = (env["SERVER_NAME"], int(env["SERVER_PORT"]))
        exp_host = o_get_host(req.scheme, env.get("HTTP_HOST"), server)
        if req.host != exp_host:
            print("MISMATCH req.host", base, req.host, exp_host)
            raise SystemExit(1)
        exp = {
            "url": o_get_current_url(req.scheme, exp_host, req.root_path, req.path, req.query_string),
            "base_url": o_get_current_url(req.scheme, exp_host, req.root_path, req.path),
            "root_url": o_get_current_url(req.scheme, exp_host, req.root_path),
            "host_url": o_get_current_url(req.scheme, exp_host),
        }
        for k, v in exp.items():
            if getattr(req, k) != v:
                print("MISMATCH req", k, base, path, query, getattr(req, k), v)
                raise SystemExit(1)
            n += 1

    print(f"PASS ({n} comparisons)")


if __name__ == "__main__":
    main()
