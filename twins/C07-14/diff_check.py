"""Differential check for refactoring 2 (http.parse_dict_header, shared charset helper,
http.parse_options_header).

Run: cd /tmp/wt12-C07 && PYTHONPATH=/tmp/wt12-C07/src /venv/bin/python /tmp/twin7-C07/2/diff_check.py
"""
import random
from urllib.parse import unquote

from werkzeug.http import _charset_value_re
from werkzeug.http import _continuation_re
from werkzeug.http import _parameter_key_re
from werkzeug.http import _parameter_token_value_re
from werkzeug.http import parse_dict_header as new_parse_dict_header
from werkzeug.http import parse_list_header
from werkzeug.http import parse_options_header as new_parse_options_header


def orig_parse_dict_header(value):
    # verbatim copy of the implementation on the unmodified tree
    result = {}

    for item in parse_list_header(value):
        key, has_value, value = item.partition("=")
        key = key.strip()

        if not key:
            # =value is not valid
            continue

        if not has_value:
            result[key] = None
            continue

        value = value.strip()
        encoding = None

        if key[-1] == "*":
            key = key[:-1]
            match = _charset_value_re.match(value)

            if match:
                encoding, value = match.groups()
                encoding = encoding.lower()

            if encoding in {"ascii", "us-ascii", "utf-8", "iso-8859-1"}:
                value = unquote(value, encoding=encoding)

        if len(value) >= 2 and value[0] == value[-1] == '"':
            value = value[1:-1]

        result[key] = value

    return result


def orig_parse_options_header(value):
    # verbatim copy of the implementation on the unmodified tree
    if value is None:
        return "", {}

    value, _, rest = value.partition(";")
    value = value.strip()
    rest = rest.strip()

    if not value or not rest:
        return value, {}

    parts = []

    while True:
        if (m := _parameter_key_re.match(rest)) is not None:
            pk = m.group(1).lower()
            rest = rest[m.end() :]

            if (m := _parameter_token_value_re.match(rest)) is not None:
                parts.append((pk, m.group()))

            elif rest[:1] == '"':
                pos = 1
                length = len(rest)

                while pos < length:
                    if rest[pos : pos + 2] in {"\\\\", '\\"'}:
                        pos += 2
                    elif rest[pos] == '"':
                        parts.append((pk, rest[: pos + 1]))
                        rest = rest[pos + 1 :]
                        break
                    else:
                        pos += 1

        if (end := rest.find(";")) == -1:
            break

        rest = rest[end + 1 :].lstrip()

    options = {}
    encoding = None
    continued_encoding = None

    for pk, pv in parts:
        if pk[-1] == "*":
            pk = pk[:-1]
            match = _charset_value_re.match(pv)

            if match:
                encoding, pv = match.groups()
                encoding = encoding.lower()

            if not encoding:
                encoding = continued_encoding

            if encoding in {"ascii", "us-ascii", "utf-8", "iso-8859-1"}:
                continued_encoding = encoding
                pv = unquote(pv, encoding=encoding)

        if pv[0] == pv[-1] == '"':
            pv = pv[1:-1].replace("\\\\", "\\").replace('\\"', '"').replace("%22", '"')

        match = _continuation_re.search(pk)

        if match:
            pk = pk[: match.start()]

        if not pk:
            continue

        if match:
            options[pk] = options.get(pk, "") + pv
        else:
            options[pk] = pv

    return value, options


def run(func, arg):
    try:
        rv = func(arg)
    except BaseException as e:  # noqa: B036
        return ("raise", type(e).__name__, str(e))
    if isinstance(rv, dict):
        return ("ok", list(rv.items()))
    return ("ok", rv[0], list(rv[1].items()))


KEYS = [
    "a", "key", "filename", "title", "a*", "filename*", "*", "**", "a*0", "a*1", "a*0*",
    "a*1*", "*0", "*0*", "", " ", "A", "Key*", "a b", '"q"', '"q"*', "é", "é*", "realm",
    "nonce", "x-y*", "a=b", "a*=b",
]
CHARSETS = [
    "", "utf-8", "UTF-8", "Utf-8", "ascii", "US-ASCII", "us-ascii", "iso-8859-1",
    "ISO-8859-1", "latin1", "utf-16", "utf8", "cp1252", "x", "İ", "utf-8 ", "'",
]
LANGS = ["", "en", "en-US", "é", "'"]
VALUES = [
    "", "b", "abc", "%E2%82%AC", "%e2%82%ac%20rates", "%FF%FE", "%", "%2", "%zz", "%22",
    "a%22b", "%C3", "£", "€ rates", "a b", '"', '""', '"x"', '"a, b"', '"a\\"b"',
    '"a\\\\"', '"unterminated', "'", "''", "a'b'c", "x;y", "x,y", "=", "==", "a=", " spaced ",
    '"%E2%82%AC"', "%27", "a\tb", "a\nb", "\x00",
]


def make_item(rnd):
    key = rnd.choice(KEYS)
    k = rnd.random()
    if k < 0.1:
        return key
    if k < 0.55:
        value = rnd.choice(VALUES)
    elif k < 0.9:
        value = f"{rnd.choice(CHARSETS)}'{rnd.choice(LANGS)}'{rnd.choice(VALUES)}"
    else:
        value = f"{rnd.choice(CHARSETS)}'{rnd.choice(VALUES)}"
    if rnd.random() < 0.15:
        value = f'"{value}"'
    eq = rnd.choice(["=", "=", "=", " = ", "= ", " ="])
    return f"{key}{eq}{value}"


def gen_inputs():
    rnd = random.Random(7072)
    dict_inputs = ["", " ", ",", "=", "a", "a=", "=b", "a*=", "*=", "*=utf-8''x"]
    opt_inputs = [None, "", ";", "a", "a;", ";a=b", "a; *=b", "a; *0=b"]
    # exhaustive charset x lang x value for a couple of keys
    for key in ("a*", "filename*", "a", "*"):
        for cs in CHARSETS:
            for lang in LANGS:
                for v in VALUES:
                    item = f"{key}={cs}'{lang}'{v}"
                    dict_inputs.append(item)
                    opt_inputs.append(f"form-data; {item}")
    for _ in range(8000):
        items = [make_item(rnd) for _ in range(rnd.randint(1, 4))]
        dict_inputs.append(rnd.choice([", ", ",", " , "]).join(items))
        prefix = rnd.choice(["text/plain", "form-data", "", " ", "a/b "])
        opt_inputs.append(prefix + "; " + rnd.choice(["; ", ";", " ;"]).join(items))
    alphabet = "ab*=,;'\"\\ %2E0utf-8\t\né"
    for _ in range(6000):
        s = "".join(rnd.choice(alphabet) for _ in range(rnd.randint(0, 18)))
        dict_inputs.append(s)
        opt_inputs.append(s)
        opt_inputs.append("x; " + s)
    return dict_inputs, opt_inputs


def main():
    dict_inputs, opt_inputs = gen_inputs()
    bad = 0
    decoded = 0
    for value in dict_inputs:
        a = run(orig_parse_dict_header, value)
        b = run(new_parse_dict_header, value)
        if a != b:
            bad += 1
            if bad <= 10:
                print("MISMATCH parse_dict_header", repr(value), a, b)
        elif a[0] == "ok" and any(k and v for k, v in a[1]):
            decoded += 1
    for value in opt_inputs:
        a = run(orig_parse_options_header, value)
        b = run(new_parse_options_header, value)
        if a != b:
            bad += 1
            if bad <= 10:
                print("MISMATCH parse_options_header", repr(value), a, b)
    print(
        f"{len(dict_inputs)} parse_dict_header inputs ({decoded} with non-empty items), "
        f"{len(opt_inputs)} parse_options_header inputs, mismatches {bad}"
    )
    print("PASS" if bad == 0 else "FAIL")


if __name__ == "__main__":
    main()
