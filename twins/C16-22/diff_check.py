"""Differential check for refactoring 1 (HeaderSet.remove/update/find + _find_key helper).

Compares the worktree's HeaderSet against a pasted copy of the ORIGINAL
implementation on random operation sequences.
"""
import collections.abc as cabc
import random

from werkzeug import http
from werkzeug.datastructures import HeaderSet as NewHeaderSet
from werkzeug.sansio.response import Response


class OrigHeaderSet(cabc.MutableSet):
    def __init__(self, headers=None, on_update=None):
        self._headers = list(headers or ())
        self._set = {x.lower() for x in self._headers}
        self.on_update = on_update

    def add(self, header):
        self.update((header,))

    def remove(self, header):
        key = header.lower()
        if key not in self._set:
            raise KeyError(header)
        self._set.remove(key)
        for idx, item in enumerate(self._headers):
            if item.lower() == key:
                del self._headers[idx]
                break
        if self.on_update is not None:
            self.on_update(self)

    def update(self, iterable):
        inserted_any = False
        for header in iterable:
            key = header.lower()
            if key not in self._set:
                self._headers.append(header)
                self._set.add(key)
                inserted_any = True
        if inserted_any and self.on_update is not None:
            self.on_update(self)

    def discard(self, header):
        try:
            self.remove(header)
        except KeyError:
            pass

    def find(self, header):
        header = header.lower()
        for idx, item in enumerate(self._headers):
            if item.lower() == header:
                return idx
        return -1

    def index(self, header):
        rv = self.find(header)
        if rv < 0:
            raise IndexError(header)
        return rv

    def clear(self):
        self._set.clear()
        self._headers.clear()

        if self.on_update is not None:
            self.on_update(self)

    def as_set(self, preserve_casing=False):
        if preserve_casing:
            return set(self._headers)
        return set(self._set)

    def to_header(self):
        return ", ".join(map(http.quote_header_value, self._headers))

    def __getitem__(self, idx):
        return self._headers[idx]

    def __delitem__(self, idx):
        rv = self._headers.pop(idx)
        self._set.remove(rv.lower())
        if self.on_update is not None:
            self.on_update(self)

    def __setitem__(self, idx, value):
        old = self._headers[idx]
        self._set.remove(old.lower())
        self._headers[idx] = value
        self._set.add(value.lower())
        if self.on_update is not None:
            self.on_update(self)

    def __contains__(self, header):
        return header.lower() in self._set

    def __len__(self):
        return len(self._set)

    def __iter__(self):
        return iter(self._headers)

    def __bool__(self):
        return bool(self._set)

    def __str__(self):
        return self.to_header()

    def __repr__(self):
        return f"HeaderSet({self._headers!r})"


TOKENS = [
    "a", "A", "b", "B", "Accept", "accept", "ACCEPT", "Cookie", "cookie",
    "x y", 'q"t', "", "İ", "i̇", "ß", "SS", "ss", "User-Agent", "en", "EN", "de",
]
BAD = [None, 3, b"a", ("a",)]


def rnd_token(rng):
    if rng.random() < 0.04:
        return rng.choice(BAD)
    return rng.choice(TOKENS)


def gen_ops(rng):
    n = rng.randint(1, 14)
    ops = []
    for _ in range(n):
        kind = rng.choice(
            ["add", "remove", "discard", "update", "find", "index", "clear",
             "del", "set", "contains", "getitem", "as_set"]
        )
        if kind in ("add", "remove", "discard", "find", "index", "contains"):
            ops.append((kind, rnd_token(rng)))
        elif kind == "update":
            ops.append((kind, [rnd_token(rng) for _ in range(rng.randint(0, 4))]))
        elif kind in ("del", "getitem"):
            ops.append((kind, rng.randint(-3, 4)))
        elif kind == "set":
            ops.append((kind, rng.randint(-3, 4), rnd_token(rng)))
        else:
            ops.append((kind,))
    return ops


def apply(hs, op):
    kind = op[0]
    if kind == "add":
        return hs.add(op[1])
    if kind == "remove":
        return hs.remove(op[1])
    if kind == "discard":
        return hs.discard(op[1])
    if kind == "update":
        return hs.update(iter(op[1]))
    if kind == "find":
        return hs.find(op[1])
    if kind == "index":
        return hs.index(op[1])
    if kind == "clear":
        return hs.clear()
    if kind == "del":
        del hs[op[1]]
        return None
    if kind == "set":
        hs[op[1]] = op[2]
        return None
    if kind == "contains":
        return op[1] in hs
    if kind == "getitem":
        return hs[op[1]]
    if kind == "as_set":
        return (sorted(map(repr, hs.as_set())), sorted(map(repr, hs.as_set(True))))
    raise AssertionError(kind)


def run(cls, initial, ops, failing_callback_at):
    log = []
    calls = [0]

    def on_update(s):
        calls[0] += 1
        if calls[0] == failing_callback_at:
            log.append(("cb-raise",))
            raise KeyError("from callback")
        try:
            log.append(("cb", s.to_header()))
        except Exception as e:  # non-str items
            log.append(("cb-err", type(e).__name__))

    hs = cls(initial, on_update)
    out = []
    for op in ops:
        try:
            rv = ("ok", apply(hs, op))
        except Exception as e:
            rv = ("exc", type(e).__name__, repr(e.args))
        out.append((rv, list(map(repr, hs._headers)), sorted(map(repr, hs._set)),
                    len(hs), bool(hs)))
    return out, log


def run_response(ops, header):
    """Same operations through the live Response.vary view."""
    out = []
    r = Response()
    if header is not None:
        r.headers["Vary"] = header
    view = r.vary
    for op in ops:
        try:
            rv = ("ok", apply(view, op))
        except Exception as e:
            rv = ("exc", type(e).__name__)
        out.append((rv, r.headers.get("Vary"), list(r.vary)))
    return out


def expected_response(ops, header):
    """Model of the same using the original class and the original callback."""
    out = []
    r = Response()
    if header is not None:
        r.headers["Vary"] = header

    def make_view():
        def on_update(header_set):
            if not header_set and "Vary" in r.headers:
                del r.headers["Vary"]
            elif header_set:
                r.headers["Vary"] = header_set.to_header()

        items = list(http.parse_set_header(r.headers.get("Vary")))
        return OrigHeaderSet(items, on_update)

    view = make_view()
    for op in ops:
        try:
            rv = ("ok", apply(view, op))
        except Exception as e:
            rv = ("exc", type(e).__name__)
        out.append((rv, r.headers.get("Vary"), list(make_view())))
    return out


def main():
    rng = random.Random(1610)
    n = 0
    for i in range(6000):
        initial = [rng.choice(TOKENS) for _ in range(rng.randint(0, 4))]
        ops = gen_ops(rng)
        fail_at = rng.choice([0, 0, 0, 1, 2, 3])
        a = run(NewHeaderSet, initial, ops, fail_at)
        b = run(OrigHeaderSet, initial, ops, fail_at)
        if a != b:
            print("FAIL (direct)", initial, ops, fail_at)
            print(a)
            print(b)
            return
        n += 1
    good = [t for t in TOKENS]
    for i in range(2000):
        header = rng.choice([None, "", "a, B", "Accept, Cookie", 'x, "q t", x'])
        ops = [op for op in gen_ops(rng)]
        a = run_response(ops, header)
        b = expected_response(ops, header)
        if a != b:
            print("FAIL (response)", header, ops)
            print(a)
            print(b)
            return
        n += 1
    print(f"PASS ({n} sequences)")


if __name__ == "__main__":
    main()
