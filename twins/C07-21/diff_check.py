"""Differential check for refactoring 3 (Accept.best_match: compound skip
condition split, `not match` -> `match is None`, specificity computed after the
skips, tuple assignment; Accept.quality: expressed via _best_single_match).

Run: cd /tmp/wt14-C07 && PYTHONPATH=/tmp/wt14-C07/src /venv/bin/python /tmp/twin9-C07/3/diff_check.py
"""

from __future__ import annotations

import random
import re

from werkzeug.datastructures import Accept
from werkzeug.datastructures import CharsetAccept
from werkzeug.datastructures import LanguageAccept
from werkzeug.datastructures import MIMEAccept
from werkzeug.http import parse_accept_header
from werkzeug.sansio.request import Request

_locale_delim_re = re.compile(r"[_-]")


# ---- ORIGINAL implementation (copied from the unmodified tree) -------------
class OrigAccept(Accept):
    def quality(self, key):
        for item, quality in self:
            if self._value_matches(key, item):
                return quality
        return 0

    def best_match(self, matches, default=None):
        result = default
        best_quality: float = -1
        best_specificity: tuple[float, ...] = (-1,)
        for server_item in matches:
            match = self._best_single_match(server_item)
            if not match:
                continue
            client_item, quality = match
            specificity = self._specificity(client_item)
            if quality <= 0 or quality < best_quality:
                continue
            # better quality or same quality but more specific => better match
            if quality > best_quality or specificity > best_specificity:
                result = server_item
                best_quality = quality
                best_specificity = specificity
        return result


class OrigMIMEAccept(OrigAccept):
    # unchanged by the refactoring, reuse the functions
    _specificity = MIMEAccept._specificity
    _value_matches = MIMEAccept._value_matches


class OrigCharsetAccept(OrigAccept):
    _value_matches = CharsetAccept._value_matches


class OrigLanguageAccept(OrigAccept):
    _value_matches = LanguageAccept._value_matches

    # unchanged by the refactoring, but it calls super().best_match and builds
    # a plain Accept, so it is pasted here to run entirely on the original code
    def best_match(self, matches, default=None):
        result = super().best_match(matches)

        if result is not None:
            return result

        fallback = OrigAccept(
            [(_locale_delim_re.split(item[0], 1)[0], item[1]) for item in self]
        )
        result = fallback.best_match(matches)

        if result is not None:
            return result

        fallback_matches = [_locale_delim_re.split(item, 1)[0] for item in matches]
        result = super().best_match(fallback_matches)

        if result is not None:
            return next(
                item
                for item in matches
                if _locale_delim_re.split(item, 1)[0] == result
            )

        return default


# ---------------------------------------------------------------------------
rng = random.Random(7073)

MIMES = [
    "text/html", "text/*", "*/*", "*/html", "*", "text", "/", "text/", "/html",
    "text/html;level=1", "TEXT/HTML; LEVEL=1", "text/plain", "application/json",
    "application/xml", "application/xhtml+xml", "image/png", "image/*", "a/b;c=d;e=f",
    "a/b;e=f;c=d", "", " ", "text/html/x", "*/*;q", "\x00/\x00", "İ/ſ",
]
LANGS = ["en", "en-US", "en_us", "EN-gb", "en-GB", "de", "de-DE", "de_AT", "*", "",
         "zh-Hant-TW", "zh", "-", "_", "fr", "fr-CA", "x\x00", "İ", "e n", "EN"]
CHARSETS = ["utf-8", "UTF8", "latin-1", "iso-8859-1", "l1", "*", "", "ascii", "us-ascii",
            "unknown", "a\x00", "\udcff", "cp1252", "windows-1252", "utf-16"]
PLAIN = ["gzip", "GZIP", "deflate", "br", "identity", "*", "", " ", "x", "\x00"]

QS = ["", ";q=1", ";q=0", ";q=0.5", ";q=0.50", ";q=0.001", ";q=0.9", ";q=1.000", ";q=2",
      ";q=abc", ";q=", "; q=0.3", ";Q=0.7", ";q=-1", ";q=.5", ";q=0.0", ";q=1.0"]
# for directly constructed objects (application code can do that): odd numbers too
QVALS = [1, 1.0, 0, 0.0, 0.5, 0.9, 0.001, -1, -0.5, 2, 10, float("nan"), float("inf"),
         float("-inf"), True, False, -0.0]


def rand_header(pool) -> str | None:
    r = rng.random()
    if r < 0.03:
        return None
    if r < 0.06:
        return ""
    return rng.choice([",", ", ", " ,"]).join(
        rng.choice(pool) + rng.choice(QS) for _ in range(rng.randrange(1, 7))
    )


def call(f, *a):
    try:
        return ("ok", f(*a))
    except BaseException as e:  # noqa: B036
        return ("exc", type(e), str(e))


def same(a, b) -> bool:
    # repr comparison catches 0 vs 0.0 / True vs 1 and makes nan == nan
    return repr(a) == repr(b)


failures = 0
checked = 0


def check(label, new, old):
    global failures, checked
    checked += 1
    if not same(new, old):
        failures += 1
        if failures <= 20:
            print("MISMATCH", label, new, old)


FLAVOURS = [
    (MIMEAccept, OrigMIMEAccept, MIMES),
    (LanguageAccept, OrigLanguageAccept, LANGS),
    (CharsetAccept, OrigCharsetAccept, CHARSETS),
    (Accept, OrigAccept, PLAIN + LANGS[:6]),
]


def exercise(label, a_new, a_old, pool):
    check(("list", label), list(a_new), list(a_old))
    keys = [rng.choice(pool) for _ in range(4)] + [x for x, _ in list(a_old)[:2]]
    for k in keys:
        check(("quality", label, k), call(a_new.quality, k), call(a_old.quality, k))
        check(("getitem", label, k), call(a_new.__getitem__, k), call(a_old.__getitem__, k))
        check(("find", label, k), call(a_new.find, k), call(a_old.find, k))
    for k in [None, 1, b"x", ("text/html", 1)]:
        check(("quality-odd", label, k), call(a_new.quality, k), call(a_old.quality, k))
    for _ in range(4):
        matches = [rng.choice(pool) for _ in range(rng.randrange(0, 6))]
        check(("best_match", label, matches), call(a_new.best_match, matches),
              call(a_old.best_match, matches))
        check(("best_match_d", label, matches), call(a_new.best_match, matches, "dflt"),
              call(a_old.best_match, matches, "dflt"))
        # iterables other than lists: tuple and one-shot generator
        check(("best_match_t", label, matches), call(a_new.best_match, tuple(matches)),
              call(a_old.best_match, tuple(matches)))
        check(("best_match_g", label, matches), call(a_new.best_match, iter(matches)),
              call(a_old.best_match, iter(matches)))
    check(("best_match-odd", label), call(a_new.best_match, [None, 1]),
          call(a_old.best_match, [None, 1]))
    check(("best_match-none", label), call(a_new.best_match, None),
          call(a_old.best_match, None))


# 1. objects built by the header parser (what a client controls)
for n in range(5000):
    new_cls, old_cls, pool = FLAVOURS[n % 4]
    header = rand_header(pool)
    a_new = parse_accept_header(header, new_cls)
    a_old = parse_accept_header(header, old_cls)
    exercise((new_cls.__name__, header), a_new, a_old, pool)

# 2. objects built directly, including unusual quality numbers
for n in range(3000):
    new_cls, old_cls, pool = FLAVOURS[n % 4]
    values = [(rng.choice(pool), rng.choice(QVALS)) for _ in range(rng.randrange(0, 6))]
    a_new = call(new_cls, values)
    a_old = call(old_cls, values)
    check(("ctor", values), a_new[0], a_old[0])
    if a_new[0] == "ok" and a_old[0] == "ok":
        exercise((new_cls.__name__, values), a_new[1], a_old[1], pool)
for new_cls, old_cls, pool in FLAVOURS:
    exercise((new_cls.__name__, None), new_cls(None), old_cls(None), pool)
    exercise((new_cls.__name__, ()), new_cls(), old_cls(), pool)

# 3. the lazily parsed request attributes use the refactored classes
for n in range(1000):
    hdrs = {
        "Accept": rand_header(MIMES) or "",
        "Accept-Language": rand_header(LANGS) or "",
        "Accept-Charset": rand_header(CHARSETS) or "",
        "Accept-Encoding": rand_header(PLAIN) or "",
    }
    req = Request("GET", "http", None, "", "/", b"", hdrs, None)
    for attr, old_cls, pool in [
        ("accept_mimetypes", OrigMIMEAccept, MIMES),
        ("accept_languages", OrigLanguageAccept, LANGS),
        ("accept_charsets", OrigCharsetAccept, CHARSETS),
        ("accept_encodings", OrigAccept, PLAIN),
    ]:
        a_new = getattr(req, attr)
        hname = {"accept_mimetypes": "Accept", "accept_languages": "Accept-Language",
                 "accept_charsets": "Accept-Charset", "accept_encodings": "Accept-Encoding"}[attr]
        a_old = parse_accept_header(hdrs[hname], old_cls)
        matches = [rng.choice(pool) for _ in range(3)]
        check((attr, hdrs[hname], matches), call(a_new.best_match, matches),
              call(a_old.best_match, matches))
        check((attr, hdrs[hname], matches[0]), call(a_new.quality, matches[0]),
              call(a_old.quality, matches[0]))

print(f"checked {checked} comparisons, {failures} mismatches")
print("PASS" if failures == 0 and checked > 5000 else "FAIL")
