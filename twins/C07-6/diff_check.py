"""Differential check: refactored werkzeug.sansio.http.parse_cookie vs. original copy.

Also exercised through werkzeug.http.parse_cookie (str and WSGI environ forms).
"""
import itertools
import random
import re

from werkzeug import datastructures as ds
from werkzeug import http as whttp
from werkzeug.sansio.http import parse_cookie as new_impl

_cookie_re = re.compile(
    r"""
    ([^=;]*)
    (?:\s*=\s*
      (
        "(?:[^\\"]|\\.)*"
      |
        .*?
      )
    )?
    \s*;\s*
    """,
    flags=re.ASCII | re.VERBOSE,
)
_cookie_unslash_re = re.compile(rb"\\([0-3][0-7]{2}|.)")


def _cookie_unslash_replace(m):
    v = m.group(1)

    if len(v) == 1:
        return v

    return int(v, 8).to_bytes(1, "big")


def old_impl(cookie=None, cls=None):
    if cls is None:
        cls = ds.MultiDict

    if not cookie:
        return cls()

    cookie = f"{cookie};"
    out = []

    for ck, cv in _cookie_re.findall(cookie):
        ck = ck.strip()
        cv = cv.strip()

        if not ck:
            continue

        if len(cv) >= 2 and cv[0] == cv[-1] == '"':
            cv = _cookie_unslash_re.sub(
                _cookie_unslash_replace, cv[1:-1].encode()
            ).decode(errors="replace")

        out.append((ck, cv))

    return cls(out)


def old_http_parse_cookie(header, cls=None):
    if isinstance(header, dict):
        cookie = header.get("HTTP_COOKIE")
    else:
        cookie = header

    if cookie:
        cookie = cookie.encode("latin1").decode(errors="replace")

    return old_impl(cookie=cookie, cls=cls)


class RecordingDict(dict):
    """cls that records exactly what it was constructed with."""

    def __init__(self, *args):
        super().__init__()
        self.args_seen = tuple((type(a).__name__, list(a)) for a in args)


def run(f, *a, **kw):
    try:
        r = f(*a, **kw)
    except BaseException as e:  # noqa: B036
        return ("EXC", type(e).__name__, str(e))
    if isinstance(r, RecordingDict):
        return ("Rec", r.args_seen)
    return (type(r).__name__, list(r.items(multi=True)))


KEYS = ["a", "b", "sid", "", " ", " k ", "k k", "é", '"q"', "a\tb", "\x00", "ключ"]
VALS = ["", "v", "abc", '"q"', '"', '""', '"a', 'a"', '"a;b"', '"a\\"b"', '"\\073"',
        '"\\342\\202\\254"', '"\\377"', '"\\400"', '"\\0"', '"\\\\"', '"\\', '"\\"',
        '"\\\n"', '"x\ny"', "a=b", "=", " sp ", '" in "', '"é"', '"\\303\\251"',
        '"\\303"', "\udc80", '"\udc80"', '"\\x"', '"a" trailing', 'pre "a"', '"\\12"',
        '"\\128"', "\t", '"\t"', "€", '"€"', '"\\""', '"""', "\xa0", '"\xa0"']
EQ = ["=", "=", "=", " = ", "", "==", "\t=\t"]
SEP = [";", "; ", " ;", ";;", " ; ", ",", "\n;"]
ATOMS = ["a", "=", ";", '"', "\\", " ", "0", "7", "3", "4", "é", "\n", "\t", ",",
         "\\\"", "\\073", "\\342\\202\\254", "\x00", "\udcff", "€", "\x85"]


def gen(rng):
    n = rng.randint(1, 5)
    return rng.choice(SEP).join(
        rng.choice(KEYS) + rng.choice(EQ) + rng.choice(VALS) for _ in range(n)
    )


def main():
    rng = random.Random(70073)
    inputs = [None, "", ";", "=", "a", "a=", "=b", "a=b", "a=b; c=d", 'a="b;c"; d=e',
              'a="\\"', 'a="\\";', "a=b;a=c", "a = b ;  c", 'x="\\342\\202\\254"']
    alpha = ["a", "=", ";", '"', "\\", " ", "1"]
    for n in range(1, 6):
        for tup in itertools.product(alpha, repeat=n):
            inputs.append("".join(tup))
    for _ in range(30000):
        inputs.append(gen(rng))
    for _ in range(10000):
        inputs.append("".join(rng.choice(ATOMS) for _ in range(rng.randint(0, 12))))

    bad = 0
    nonempty = 0

    def cmp(label, a, b, v):
        nonlocal bad
        if a != b:
            bad += 1
            if bad <= 10:
                print("MISMATCH", label, repr(v), a, b)

    for v in inputs:
        a = run(old_impl, v)
        if a[0] == "MultiDict" and a[1]:
            nonempty += 1
        cmp("sansio", a, run(new_impl, v), v)
        cmp("sansio-kw", run(old_impl, cookie=v, cls=ds.MultiDict), run(new_impl, cookie=v, cls=ds.MultiDict), v)
        cmp("sansio-cls", run(old_impl, v, RecordingDict), run(new_impl, v, RecordingDict), v)
        cmp("http", run(old_http_parse_cookie, v), run(whttp.parse_cookie, v), v)
        env = {"HTTP_COOKIE": v} if v is not None else {}
        cmp("http-environ", run(old_http_parse_cookie, env), run(whttp.parse_cookie, env), v)

    print(f"inputs={len(inputs)} x5 call forms, non-empty-results={nonempty} mismatches={bad}")
    print("PASS" if bad == 0 else "FAIL")


if __name__ == "__main__":
    main()
