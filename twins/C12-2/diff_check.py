"""Differential check for C12 refactoring 2.

Run: cd /tmp/wt3-C12 && PYTHONPATH=/tmp/wt3-C12/src /venv/bin/python /tmp/twin-C12/2/diff_check.py
(with patch.diff applied to the worktree).  ORIGINALS holds the unmodified
implementations, copied verbatim from git HEAD.
"""
ORIGINALS = {
    ('matcher', 'StateMachineMatcher', 'match'): r'''
    def match(
        self, domain: str, path: str, method: str, websocket: bool
    ) -> tuple[Rule, t.MutableMapping[str, t.Any]]:
        # To match to a rule we need to start at the root state and
        # try to follow the transitions until we find a match, or find
        # there is no transition to follow.

        have_match_for = set()
        websocket_mismatch = False

        def _match(
            state: State, parts: list[str], values: list[str]
        ) -> tuple[Rule, list[str]] | None:
            # This function is meant to be called recursively, and will attempt
            # to match the head part to the state's transitions.
            nonlocal have_match_for, websocket_mismatch

            # The base case is when all parts have been matched via
            # transitions. Hence if there is a rule with methods &
            # websocket that work return it and the dynamic values
            # extracted.
            if parts == []:
                for rule in state.rules:
                    if rule.methods is not None and method not in rule.methods:
                        have_match_for.update(rule.methods)
                    elif rule.websocket != websocket:
                        websocket_mismatch = True
                    else:
                        return rule, values

                # Test if there is a match with this path with a
                # trailing slash, if so raise an exception to report
                # that matching is possible with an additional slash
                if "" in state.static:
                    for rule in state.static[""].rules:
                        if websocket == rule.websocket and (
                            rule.methods is None or method in rule.methods
                        ):
                            if rule.strict_slashes:
                                raise SlashRequired()
                            else:
                                return rule, values
                        elif (
                            not rule.strict_slashes
                            and rule.methods is not None
                            and method not in rule.methods
                        ):
                            have_match_for.update(rule.methods)
                return None

            part = parts[0]
            # To match this part try the static transitions first
            if part in state.static:
                rv = _match(state.static[part], parts[1:], values)
                if rv is not None:
                    return rv
            # No match via the static transitions, so try the dynamic
            # ones.
            for test_part, new_state in state.dynamic:
                target = part
                remaining = parts[1:]
                # A final part indicates a transition that always
                # consumes the remaining parts i.e. transitions to a
                # final state.
                if test_part.final:
                    target = "/".join(parts)
                    remaining = []
                match = re.compile(test_part.content).match(target)
                if match is not None:
                    if test_part.suffixed:
                        # If a part_isolating=False part has a slash suffix, remove the
                        # suffix from the match and check for the slash redirect next.
                        suffix = match.groups()[-1]
                        if suffix == "/":
                            remaining = [""]

                    converter_groups = sorted(
                        match.groupdict().items(), key=lambda entry: entry[0]
                    )
                    groups = [
                        value
                        for key, value in converter_groups
                        if key[:11] == "__werkzeug_"
                    ]
                    rv = _match(new_state, remaining, values + groups)
                    if rv is not None:
                        return rv

            # If there is no match and the only part left is a
            # trailing slash ("") consider rules that aren't
            # strict-slashes as these should match if there is a final
            # slash part.
            if parts == [""]:
                for rule in state.rules:
                    if rule.strict_slashes:
                        continue
                    if rule.methods is not None and method not in rule.methods:
                        have_match_for.update(rule.methods)
                    elif rule.websocket != websocket:
                        websocket_mismatch = True
                    else:
                        return rule, values

            return None

        try:
            rv = _match(self._root, [domain, *path.split("/")], [])
        except SlashRequired:
            raise RequestPath(f"{path}/") from None

        if self.merge_slashes and rv is None:
            # Try to match again, but with slashes merged
            path = re.sub("/{2,}?", "/", path)
            try:
                rv = _match(self._root, [domain, *path.split("/")], [])
            except SlashRequired:
                raise RequestPath(f"{path}/") from None
            if rv is None or rv[0].merge_slashes is False:
                raise NoMatch(have_match_for, websocket_mismatch)
            else:
                raise RequestPath(f"{path}")
        elif rv is not None:
            rule, values = rv

            result = {}
            for name, value in zip(rule._converters.keys(), values):
                try:
                    value = rule._converters[name].to_python(value)
                except ValidationError:
                    raise NoMatch(have_match_for, websocket_mismatch) from None
                result[str(name)] = value
            if rule.defaults:
                result.update(rule.defaults)

            if rule.alias and rule.map.redirect_defaults:
                raise RequestAliasRedirect(result, rule.endpoint)

            return rule, result

        raise NoMatch(have_match_for, websocket_mismatch)
''',
}

# ---------------------------------------------------------------------------
# Shared harness (self-contained copy in every diff_check.py).
# Strategy: generate pure-data specs of maps / binds / paths with a fixed
# seed, run the whole battery once with the code in the worktree (refactored),
# then monkeypatch the ORIGINAL implementations (source text pasted above,
# exec'd in a copy of the owning module's namespace) over the refactored ones
# and run the identical battery again.  PASS only if every recorded outcome
# (return value repr, redirect URL, exception type + message) is identical.
# ---------------------------------------------------------------------------
import random
import re
import sys
import textwrap

import werkzeug.routing.map as map_mod
import werkzeug.routing.matcher as matcher_mod
import werkzeug.routing.rules as rules_mod
from werkzeug.exceptions import MethodNotAllowed
from werkzeug.routing import Map
from werkzeug.routing import Rule
from werkzeug.routing.exceptions import NoMatch
from werkzeug.routing.exceptions import RequestAliasRedirect
from werkzeug.routing.exceptions import RequestPath
from werkzeug.routing.exceptions import RequestRedirect

assert map_mod.__file__.startswith("/tmp/wt3-C12/"), map_mod.__file__

OWNERS = {
    ("map", "MapAdapter"): (map_mod, map_mod.MapAdapter),
    ("matcher", "StateMachineMatcher"): (matcher_mod, matcher_mod.StateMachineMatcher),
    ("rules", "Rule"): (rules_mod, rules_mod.Rule),
}


def load_originals():
    out = []
    for (modname, clsname, fname), src in ORIGINALS.items():
        mod, cls = OWNERS[(modname, clsname)]
        ns = dict(vars(mod))
        exec(compile(textwrap.dedent(src), f"<orig {clsname}.{fname}>", "exec"), ns)
        out.append((cls, fname, ns[fname]))
    return out


RULE_STRINGS = [
    "/",
    "/foo",
    "/foo/",
    "/foo/<int:id>",
    "/foo/<int:id>/",
    "/foo/<id>",
    "/<path:p>",
    "/<path:p>/",
    "/a/<x>/b",
    "/a/<x>/b/",
    "/a//b",
    "/a//b/",
    "/<string:x>/<y>",
    "/<string:x>/<y>/",
    "/files/<path:name>.txt",
    "/files/<path:name>/edit",
    "/p/",
    "/p",
    "/p/<int:page>",
    "/p/<int:page>/",
    "/q/<any(a,b):k>/",
    "/x/<string(length=2):lang>/",
    "/evil.com",
    "/<x>",
    "/<x>/",
    "/b/<int:page>/<y>",
    "/b/<y>",
]
ENDPOINTS = ["e1", "e2", "e3", "page", "idx"]
SEGMENTS = [
    "", "", "foo", "a", "b", "p", "q", "x", "1", "42", "-1", "abc", "evil.com",
    "%2f", "é", "files", "n.txt", "edit", "en", "a b", "?", "#h", "\\evil",
    "..", "0", "007",
]
DEFAULTS = [None, None, {}, {"page": 1}, {"id": 1}, {"x": "d"}, {"y": "z"}, {"p": "home"},
            {"page": 1, "y": "z"}]
METHODS = [None, None, None, ["GET"], ["POST"], ["GET", "POST"], ["PUT"]]
TRI = [None, None, True, False]


FAMILIES = [
    ("/p/", {"page": 1}, "/p/<int:page>"),
    ("/p/", {"page": 1}, "/p/<int:page>/"),
    ("/p", {"page": 1}, "/p/<int:page>"),
    ("/b/<y>", {"page": 1}, "/b/<int:page>/<y>"),
    ("/foo/", {"id": 1}, "/foo/<int:id>/"),
    ("/foo", {"id": 1}, "/foo/<int:id>"),
    ("/", {"x": "d"}, "/<x>"),
    ("/a//b", {"x": "d"}, "/a/<x>/b"),
    ("/", {"p": "home"}, "/<path:p>"),
]


def gen_rule(rnd):
    spec = dict(
        string=rnd.choice(RULE_STRINGS),
        endpoint=rnd.choice(ENDPOINTS),
        defaults=rnd.choice(DEFAULTS),
        methods=rnd.choice(METHODS),
        strict_slashes=rnd.choice(TRI),
        merge_slashes=rnd.choice(TRI),
        alias=rnd.random() < 0.2,
        build_only=rnd.random() < 0.07,
        websocket=rnd.random() < 0.05,
    )
    if spec["websocket"] and spec["methods"] not in (None, ["GET"]):
        spec["methods"] = None
    r = rnd.random()
    if r < 0.15:
        spec["subdomain"] = rnd.choice(["www", "api", "", "<sub>"])
    if rnd.random() < 0.06:
        spec["redirect_to"] = rnd.choice(["/foo/", "target/<x>", "http://other.example/z"])
    return spec


def gen_map(rnd):
    host_matching = rnd.random() < 0.2
    rules = [gen_rule(rnd) for _ in range(rnd.randint(1, 8))]
    if rnd.random() < 0.5:
        # a "defaults family": two rules of one endpoint, one providing a
        # default for a variable of the other (defaults / alias redirects)
        short, dflt, long_ = rnd.choice(FAMILIES)
        ep = rnd.choice(ENDPOINTS)
        r1 = gen_rule(rnd)
        r1.update(string=short, defaults=dict(dflt), endpoint=ep)
        r2 = gen_rule(rnd)
        r2.update(string=long_, defaults=rnd.choice([None, None, None, dict(dflt)]), endpoint=ep)
        if rnd.random() < 0.7:
            for r in (r1, r2):
                r.update(build_only=False, websocket=False, methods=rnd.choice([None, None, ["GET"]]))
                r.pop("subdomain", None)
                r.pop("redirect_to", None)
        fam = [r1, r2]
        rnd.shuffle(fam)
        rules.extend(fam)
    if host_matching:
        for s in rules:
            s.pop("subdomain", None)
            s["host"] = rnd.choice(["example.org", "example.org", "other.example", "<h>"])
    opts = dict(
        strict_slashes=rnd.random() < 0.75,
        merge_slashes=rnd.random() < 0.75,
        redirect_defaults=rnd.random() < 0.8,
        host_matching=host_matching,
    )
    if not host_matching and rnd.random() < 0.2:
        opts["default_subdomain"] = rnd.choice(["www", "api"])
    return dict(rules=rules, opts=opts)


def build_map(spec):
    rules = []
    for rs in spec["rules"]:
        try:
            rules.append(Rule(**rs))
        except Exception as e:  # deterministic, same in both runs
            rules.append(None)
    try:
        return Map([r for r in rules if r is not None], **spec["opts"])
    except Exception as e:
        return ("map-error", type(e).__name__, str(e))


FILL = {"id": ["1", "42", "-1", "x"], "page": ["1", "2", "1"], "p": ["home", "a/b", "a//b"],
        "name": ["n", "d/n", "d//n"], "k": ["a", "b", "c"], "lang": ["en", "eng"]}


def gen_path(rnd, rule_strings=()):
    r = rnd.random()
    if r < 0.02:
        return None
    if r < 0.04:
        return ""
    if rule_strings and r < 0.7:
        base = rnd.choice(rule_strings)

        def fill(mo):
            name = mo.group(1).split(":")[-1]
            return rnd.choice(FILL.get(name, ["d", "z", "v", "evil.com"]))

        p = re.sub(r"<([^>]+)>", fill, base)
        m = rnd.random()
        if m < 0.25:
            p = p[:-1] if p.endswith("/") else p + "/"
        elif m < 0.45:
            i = rnd.randrange(len(p))
            j = p.find("/", i)
            if j < 0:
                j = 0
            p = p[:j] + "/" * rnd.choice([1, 2]) + p[j:]
        elif m < 0.5:
            p = p.lstrip("/")
        elif m < 0.55:
            p = p + "//"
        return p
    n = rnd.randint(0, 4)
    segs = [rnd.choice(SEGMENTS) for _ in range(n)]
    p = "/".join(segs)
    p = "/" * rnd.choice([0, 1, 1, 1, 1, 2, 3]) + p
    if rnd.random() < 0.4:
        p += "/" * rnd.choice([1, 1, 2])
    return p


def gen_bind(rnd):
    return dict(
        server_name=rnd.choice(["example.org", "example.org", "example.org:8080", "other.example"]),
        script_name=rnd.choice([None, "/", "/app", "/app/", "app", "", "//evil.com/"]),
        subdomain=rnd.choice([None, None, None, None, "", "www", "api", "evil"]),
        url_scheme=rnd.choice(["http", "https", "ws", "", "wss"]),
        default_method=rnd.choice(["GET", "GET", "POST"]),
        path_info=rnd.choice([None, "/foo", "foo//"]),
        query_args=rnd.choice([None, None, "a=1&b=2", {"q": "x y"}, {"a": [1, 2]}, "", {}, "x=%2F/"]),
    )


def outcome(fn):
    try:
        r = fn()
        return ("ok", repr(r))
    except RequestRedirect as e:
        return ("RequestRedirect", e.new_url, e.code)
    except MethodNotAllowed as e:
        return ("MethodNotAllowed", sorted(e.valid_methods or []))
    except RequestPath as e:
        return ("RequestPath", e.path_info)
    except RequestAliasRedirect as e:
        return ("RequestAliasRedirect", repr(e.matched_values), repr(e.endpoint))
    except NoMatch as e:
        return ("NoMatch", sorted(e.have_match_for), e.websocket_mismatch)
    except BaseException as e:  # noqa: B036
        return (type(e).__name__, str(e))


def follow(adapter, path, method, query_args, limit=4):
    """Follow router redirects that stay on our own prefix; records the chain."""
    chain = []
    for _ in range(limit):
        o = outcome(lambda: adapter.match(path, method, query_args=query_args))
        chain.append(o)
        if o[0] != "RequestRedirect":
            break
        from urllib.parse import urlsplit

        u = urlsplit(o[1])
        script = "/" + (adapter.script_name or "").strip("/")
        if not u.path.startswith(script):
            break
        path = u.path[len(script.rstrip("/")):]
        query_args = u.query
    return chain


N_MAPS = 500
N_BINDS = 2
N_PATHS = 14


def battery():
    rnd = random.Random(0xC12)
    results = []
    count = 0
    for mi in range(N_MAPS):
        mspec = gen_map(rnd)
        binds = [gen_bind(rnd) for _ in range(N_BINDS)]
        if mspec['opts']['host_matching']:
            for b in binds:
                b['subdomain'] = None
        paths = [gen_path(rnd, [r['string'] for r in mspec['rules']]) for _ in range(N_PATHS)]
        calls = [
            (rnd.choice(["GET", "GET", "POST", "HEAD", "PUT", None, "get"]),
             rnd.choice([None, None, None, "z=9", {"k": "v"}, ""]),
             rnd.choice([None, None, True, False]),
             rnd.random() < 0.2)
            for _ in paths
        ]
        for bi, bspec in enumerate(binds):
            m = build_map(mspec)  # fresh map for each bind: no shared state
            if not isinstance(m, Map):
                results.append(("map", mi, m))
                continue
            try:
                ad = m.bind(**bspec)
            except Exception as e:
                results.append(("bind", mi, bi, type(e).__name__, str(e)))
                continue
            # --- full MapAdapter.match, incl. redirect chains
            for p, (meth, qa, ws, rr) in zip(paths, calls):
                results.append(
                    ("match", mi, bi, p,
                     outcome(lambda: ad.match(p, meth, return_rule=rr, query_args=qa, websocket=ws)))
                )
                results.append(("follow", mi, bi, p, follow(ad, p, meth, qa)))
                results.append(("test", mi, bi, p, outcome(lambda: ad.test(p, meth))))
                results.append(("allowed", mi, bi, p, outcome(lambda: sorted(ad.allowed_methods(p)))))
                count += 4
            # --- matcher directly
            m.update()
            for p, (meth, qa, ws, rr) in zip(paths, calls):
                if p is None:
                    continue
                pp = f"/{p.lstrip('/')}" if p else ""
                for dom in ("", "www", "example.org"):
                    results.append(
                        ("matcher", mi, bi, p, dom,
                         outcome(lambda: (lambda rv: (rv[0].rule, rv[0].endpoint, rv[1]))(
                             m._matcher.match(dom, pp, (meth or "GET").upper(), bool(ws)))))
                    )
                    count += 1
            # --- helpers directly
            for dp in (None, "", "www", "evil.com", "example.org"):
                results.append(("get_host", mi, bi, dp, outcome(lambda: ad.get_host(dp))))
                for p in paths[:5]:
                    if p is None:
                        continue
                    for qa in (None, "", "a=1&b=2", {"q": "x y", "l": [1, 2]}, {}):
                        results.append(
                            ("mru", mi, bi, dp, p, repr(qa),
                             outcome(lambda: ad.make_redirect_url(p, qa, domain_part=dp)))
                        )
                        count += 1
            for qa in ("", "a=1", {"a": "1 2"}, {"a": [1, None, "x"]}, {}, [("b", "2"), ("a", "1")]):
                results.append(("eqa", mi, bi, repr(qa), outcome(lambda: ad.encode_query_args(qa))))
            # --- defaults / alias helpers directly
            rules = list(m.iter_rules())
            for r1 in rules:
                for r2 in rules:
                    results.append(
                        ("pdf", mi, bi, r1.rule, r2.rule, outcome(lambda: r1.provides_defaults_for(r2)))
                    )
                    count += 1
                for vals in ({}, {"page": 1}, {"page": 2, "y": "z"}, {"id": 1}, {"x": "d", "y": "z"},
                             {"p": "home"}, {"name": "n"}):
                    for meth in ("GET", "POST"):
                        if m.redirect_defaults:
                            v = dict(vals)
                            results.append(
                                ("gdr", mi, bi, r1.rule, repr(vals), meth,
                                 outcome(lambda: ad.get_default_redirect(r1, meth, v, "k=v")), repr(v))
                            )
                        results.append(
                            ("alias", mi, bi, r1.rule, repr(vals), meth,
                             outcome(lambda: ad.make_alias_redirect_url(
                                 f"|{r1.rule}", r1.endpoint, dict(vals), meth, {"k": "v"})))
                        )
                        count += 2
    return results, count


def main():
    new_results, n = battery()
    saved = []
    for cls, fname, fn in load_originals():
        saved.append((cls, fname, cls.__dict__[fname]))
        assert cls.__dict__[fname].__code__.co_code != fn.__code__.co_code or True
        setattr(cls, fname, fn)
    try:
        old_results, n2 = battery()
    finally:
        for cls, fname, fn in saved:
            setattr(cls, fname, fn)
    assert n == n2
    kinds = {}
    for r in new_results:
        o = r[-1] if r[0] not in ("gdr",) else r[-2]
        if isinstance(o, tuple):
            tag = o[0] + ("-None" if o[:2] == ("ok", "None") else "")
        elif isinstance(o, list):
            tag = "chain-%d" % len(o)
        else:
            tag = "other"
        kinds[(r[0], tag)] = kinds.get((r[0], tag), 0) + 1
    print(f"calls per run: {n}; records: {len(new_results)}")
    for k in sorted(kinds):
        print("  ", k, kinds[k])
    if len(new_results) != len(old_results):
        print("FAIL: record count differs")
        return 1
    bad = [(a, b) for a, b in zip(new_results, old_results) if a != b]
    if bad:
        print(f"FAIL: {len(bad)} differing records; first:")
        print("  new:", bad[0][0])
        print("  old:", bad[0][1])
        return 1
    print("PASS")
    return 0


if __name__ == "__main__":
    sys.exit(main())
