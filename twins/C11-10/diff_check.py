"""Differential check for refactoring 1 (http.parse_range_header).

Compares the refactored parse_range_header from the worktree against a copy
of the ORIGINAL implementation on generated Range header values.
"""
import itertools
import random

from werkzeug import datastructures as ds
from werkzeug._internal import _plain_int
from werkzeug.http import parse_range_header as new_parse


def orig_parse(value, make_inclusive=True):
    if not value or "=" not in value:
        return None

    ranges = []
    last_end = 0
    units, rng = value.split("=", 1)
    units = units.strip().lower()

    for item in rng.split(","):
        item = item.strip()
        if "-" not in item:
            return None
        if item.startswith("-"):
            if last_end < 0:
                return None
            try:
                begin = _plain_int(item)
            except ValueError:
                return None
            end = None
            last_end = -1
        elif "-" in item:
            begin_str, end_str = item.split("-", 1)
            begin_str = begin_str.strip()
            end_str = end_str.strip()

            try:
                begin = _plain_int(begin_str)
            except ValueError:
                return None

            if begin < last_end or last_end < 0:
                return None
            if end_str:
                if end_str.startswith("-"):
                    # _plain_int accepts a sign, a position does not have one
                    return None

                try:
                    end = _plain_int(end_str) + 1
                except ValueError:
                    return None

                if begin >= end:
                    return None
            else:
                end = None
            last_end = end if end is not None else -1
        ranges.append((begin, end))

    return ds.Range(units, ranges)


def run(fn, value):
    try:
        r = fn(value)
    except Exception as e:  # noqa: BLE001
        return ("exc", type(e))
    if r is None:
        return None
    out = [r.units, list(r.ranges), r.to_header()]
    for length in (None, 0, 1, 5, 10, 100, 1000):
        try:
            out.append(r.range_for_length(length))
            out.append(r.to_content_range_header(length))
        except Exception as e:  # noqa: BLE001
            out.append(("exc", type(e)))
    return out


rnd = random.Random(1106)
nums = ["", "0", "1", "2", "5", "9", "10", "99", "100", "500", "007", "-1", "-0",
        "+3", "1_0", "a", " 4", "4 ", " ", "٣", "1.5", "1e3", "--2", "9" * 30,
        "9" * 5000]
units = ["bytes", "Bytes", " bytes ", "BYTES", "items", "", "b=ytes", "bytes ", "\tbytes"]
seps = [",", ", ", " ,", ",,", " , "]

inputs = [None, "", "=", "bytes", "bytes=", "bytes=-", "bytes=--", "bytes=,", "=-5",
          "bytes=0-0", "bytes=0-", "bytes=-0", "bytes=0-,5-", "bytes=-5,0-3",
          "bytes=0-3,-5", "bytes=0-3,3-5", "bytes=0-3,4-5", "bytes=5-3",
          "bytes=0-3=4", "bytes==0-3", "bytes=0 - 3", "bytes= 0-3 ", "bytes=0-3,",
          "bytes=0-3-5", "bytes=0--5", "bytes=-5-", "bytes=- 5", "bytes=5 -"]

# exhaustive single items and pairs
items = []
for a, b in itertools.product(nums, repeat=2):
    items.append(f"{a}-{b}")
items += nums + ["-", " - ", "- -"]
for u in units:
    for it in items:
        inputs.append(f"{u}={it}")
for a, b in itertools.product(rnd.sample(items, 60), repeat=2):
    inputs.append(f"bytes={a}{rnd.choice(seps)}{b}")

# random multi ranges
alphabet = "0123456789-, =ab\t"
for _ in range(6000):
    n = rnd.randint(1, 4)
    parts = []
    for _ in range(n):
        k = rnd.random()
        if k < 0.25:
            parts.append(f"-{rnd.choice(nums)}")
        elif k < 0.5:
            parts.append(f"{rnd.choice(nums)}-")
        elif k < 0.9:
            parts.append(f"{rnd.choice(nums)}{rnd.choice(['-', ' - ', '- ', ' -'])}{rnd.choice(nums)}")
        else:
            parts.append("".join(rnd.choice(alphabet) for _ in range(rnd.randint(0, 6))))
    inputs.append(f"{rnd.choice(units)}={rnd.choice(seps).join(parts)}")
# increasing, well-formed multi ranges (mostly accepted)
for _ in range(3000):
    pos = 0
    parts = []
    for _ in range(rnd.randint(1, 4)):
        b = pos + rnd.randint(-1, 20)
        e = b + rnd.randint(-1, 20)
        parts.append(f"{b}-{e}")
        pos = e + rnd.randint(0, 2)
    tail = rnd.choice(["", f",{pos}-", f",-{rnd.randint(0, 9)}", f",{pos}-,{pos + 5}-{pos + 6}"])
    inputs.append("bytes=" + ",".join(parts) + tail)
# pure fuzz
for _ in range(4000):
    inputs.append("".join(rnd.choice(alphabet + "=") for _ in range(rnd.randint(0, 14))))

bad = 0
accepted = 0
for v in inputs:
    a, b = run(orig_parse, v), run(new_parse, v)
    if a != b:
        bad += 1
        if bad < 10:
            print("MISMATCH", repr(v)[:80], a, b)
    if a is not None:
        accepted += 1
print(f"{len(inputs)} inputs, {accepted} parsed to a Range, {bad} mismatches")
print("PASS" if bad == 0 else "FAIL")
