"""Differential check for refactoring 2 (C16).

mixins._always_update / UpdateDictMixin.setdefault / UpdateDictMixin.pop now
share a small ``_call_on_update`` helper.

Part A: a verbatim copy of the ORIGINAL ``_always_update`` + ``UpdateDictMixin``
(+ ``CallbackDict``) is pasted below; random mutation sequences are run against
it and against ``werkzeug.datastructures.CallbackDict`` from the worktree.
Return values, exception types, the final dict and the complete log of
on_update notifications (with a snapshot of the dict at notification time) are
compared.  Callbacks that are None, that raise, and that re-enter the dict are
covered.

Part B: response level.  Mutation sequences on the dict based views of
``sansio.Response`` (cache_control, both CSP properties, mimetype_params,
www_authenticate.parameters) are traced and compared with the trace recorded
from the UNMODIFIED tree (``expected_b.json``, produced with ``--record``).
"""

from __future__ import annotations

import collections.abc as cabc
import hashlib
import json
import os
import random
import sys
import typing as t
from functools import update_wrapper

from werkzeug._internal import _missing
from werkzeug.datastructures import CallbackDict
from werkzeug.datastructures import WWWAuthenticate
from werkzeug.sansio.response import Response

K = t.TypeVar("K")
V = t.TypeVar("V")
T = t.TypeVar("T")
F = t.TypeVar("F", bound=cabc.Callable[..., t.Any])

HERE = os.path.dirname(os.path.abspath(__file__))


# --------------------------------------------------------------------------
# ORIGINAL implementation (pasted from the unmodified tree)
# --------------------------------------------------------------------------
def _always_update(f: F) -> F:
    def wrapper(self, /, *args: t.Any, **kwargs: t.Any) -> t.Any:
        rv = f(self, *args, **kwargs)

        if self.on_update is not None:
            self.on_update(self)

        return rv

    return update_wrapper(wrapper, f)  # type: ignore[return-value]


class UpdateDictMixin(dict[K, V]):
    on_update = None

    def setdefault(self, key, default=None):
        modified = key not in self
        rv = super().setdefault(key, default)  # type: ignore[arg-type]
        if modified and self.on_update is not None:
            self.on_update(self)
        return rv

    def pop(
        self,
        key,
        default=_missing,  # type: ignore[assignment]
    ):
        modified = key in self
        if default is _missing:
            rv = super().pop(key)
        else:
            rv = super().pop(key, default)  # type: ignore[arg-type]
        if modified and self.on_update is not None:
            self.on_update(self)
        return rv

    @_always_update
    def __setitem__(self, key, value) -> None:
        super().__setitem__(key, value)

    @_always_update
    def __delitem__(self, key) -> None:
        super().__delitem__(key)

    @_always_update
    def clear(self) -> None:
        super().clear()

    @_always_update
    def popitem(self):
        return super().popitem()

    @_always_update
    def update(  # type: ignore[override]
        self,
        arg=None,
        /,
        **kwargs,
    ) -> None:
        if arg is None:
            super().update(**kwargs)
        else:
            super().update(arg, **kwargs)

    @_always_update
    def __ior__(self, other):  # type: ignore[override]
        return super().__ior__(other)


class OrigCallbackDict(UpdateDictMixin[K, V], dict[K, V]):
    def __init__(self, initial=None, on_update=None) -> None:
        if initial is None:
            super().__init__()
        else:
            super().__init__(initial)

        self.on_update = on_update

    def __repr__(self) -> str:
        return f"<{type(self).__name__} {super().__repr__()}>"


# --------------------------------------------------------------------------
# Part A
# --------------------------------------------------------------------------
KEYS = ["a", "b", "c", "", "max-age", 1, None, ("t", 1), 2.0, True]
BAD_KEYS = [[], {}, {1}]  # unhashable -> TypeError
VALUES = [None, "x", "", 0, 1, "a b", ["l"], _missing]


class Boom(Exception):
    pass


def make_callback(mode, log):
    if mode == "none":
        return None

    def cb(d):
        log.append(("update", list(dict.items(d))))
        if mode == "raise":
            raise Boom("cb")
        if mode == "reenter" and len(log) < 50 and "re" not in d:
            # mutate from within the callback -> nested notification
            d["re"] = len(d)
        if mode == "reenter_pop" and "a" in d and len(log) < 50:
            d.pop("a")

    return cb


def gen_a(rnd):
    m = rnd.choice(
        ["setitem", "setitem", "delitem", "pop", "pop", "pop_default", "pop_default",
         "pop_missing_kw", "setdefault", "setdefault", "setdefault_nodefault", "clear",
         "popitem", "update", "update_kw", "update_none", "update_pairs", "update_bad",
         "ior", "ior_pairs", "ior_bad", "or", "swap_cb", "get", "copy"]
    )  # fmt: skip
    key = rnd.choice(KEYS if rnd.random() < 0.93 else BAD_KEYS)
    val = rnd.choice(VALUES)
    n = rnd.randint(0, 3)
    mapping = [(rnd.choice(KEYS), rnd.choice(VALUES)) for _ in range(n)]
    kwargs = {rnd.choice(["a", "b", "kw"]): rnd.choice(VALUES) for _ in range(n)}
    return (m, key, val, mapping, kwargs, rnd.choice(["none", "plain", "raise"]))


def apply_a(d, op, log):
    m, key, val, mapping, kwargs, cbmode = op
    try:
        if m == "setitem":
            d[key] = val
            rv = None
        elif m == "delitem":
            del d[key]
            rv = None
        elif m == "pop":
            rv = d.pop(key)
        elif m == "pop_default":
            rv = d.pop(key, val)
        elif m == "pop_missing_kw":
            rv = d.pop(key, default=val)
        elif m == "setdefault":
            rv = d.setdefault(key, val)
        elif m == "setdefault_nodefault":
            rv = d.setdefault(key)
        elif m == "clear":
            rv = d.clear()
        elif m == "popitem":
            rv = d.popitem()
        elif m == "update":
            rv = d.update(dict(mapping))
        elif m == "update_kw":
            rv = d.update(dict(mapping), **kwargs)
        elif m == "update_none":
            rv = d.update(**kwargs) if kwargs else d.update()
        elif m == "update_pairs":
            rv = d.update(mapping)
        elif m == "update_bad":
            rv = d.update(5)
        elif m == "ior":
            before = d
            d |= dict(mapping)
            rv = d is before
        elif m == "ior_pairs":
            before = d
            d |= mapping
            rv = d is before
        elif m == "ior_bad":
            d |= 5
            rv = None
        elif m == "or":
            rv = dict(d | dict(mapping))
        elif m == "swap_cb":
            d.on_update = make_callback(cbmode, log)
            rv = None
        elif m == "get":
            rv = d.get(key, val)
        else:
            c = d.copy()
            rv = (type(c).__name__ == "dict", dict(c))
        if rv is _missing:
            rv = "<_missing>"
        return ("ok", repr(rv))
    except Exception as e:  # noqa: BLE001
        return ("exc", type(e).__name__, str(e))


def part_a():
    rnd = random.Random(1602)
    modes = ["none", "plain", "plain", "raise", "reenter", "reenter_pop"]
    n_seq = 4000
    steps = 0
    for seq in range(n_seq):
        mode = rnd.choice(modes)
        initial = rnd.choice(
            [None, {}, {"a": "1"}, [("a", 1), ("b", None)], {"a": 1, "b": 2, "c": 3}]
        )
        log_new: list[t.Any] = []
        log_old: list[t.Any] = []
        new = CallbackDict(initial, make_callback(mode, log_new))
        old = OrigCallbackDict(initial, make_callback(mode, log_old))
        for _ in range(rnd.randint(1, 15)):
            op = gen_a(rnd)
            r_new = apply_a(new, op, log_new)
            r_old = apply_a(old, op, log_old)
            steps += 1
            state_new = (list(dict.items(new)), log_new)
            state_old = (list(dict.items(old)), log_old)
            if r_new != r_old or state_new != state_old:
                print("FAIL part A, sequence", seq, "mode", mode, "op", op)
                print(" new:", r_new, state_new)
                print(" old:", r_old, state_old)
                return False
    print(f"part A: {n_seq} sequences / {steps} steps identical")
    return True


# --------------------------------------------------------------------------
# Part B
# --------------------------------------------------------------------------
CC_KEYS = ["no-cache", "max-age", "private", "public", "x-ext", "immutable"]
CC_ATTRS = ["no_cache", "max_age", "private", "public", "immutable", "s_maxage"]
CC_VALUES = [None, True, False, 0, 3600, "10", "abc", "", "*"]
CSP_KEYS = ["default-src", "img-src", "x", "sandbox"]
CSP_ATTRS = ["default_src", "img_src", "sandbox", "report_uri"]
CSP_VALUES = [None, "'self'", "*", "", "a b"]
MT_KEYS = ["charset", "boundary", "x", "Q"]
MT_VALUES = ["utf-8", "latin1", "a b", "", 'q"']
WA_KEYS = ["realm", "nonce", "qop", "x"]
WA_VALUES = ["r", "a b", "", None, 'q"']
VIEWS = [
    "cache_control", "content_security_policy",
    "content_security_policy_report_only", "mimetype_params", "www_auth_params",
]  # fmt: skip
RAW = [
    ("Cache-Control", "max-age=5, private"), ("Cache-Control", ""),
    ("Content-Security-Policy", "img-src *; x y"), ("Content-Type", "text/html"),
    ("Content-Type", "text/html; charset=utf-8; x=1"), ("Content-Type", ""),
    ("WWW-Authenticate", 'Digest realm="r", nonce="n"'),
    ("WWW-Authenticate", "Bearer tok"), ("WWW-Authenticate", 'Basic realm="x"'),
]  # fmt: skip


def gen_b(rnd):
    if rnd.random() < 0.15:
        name, text = rnd.choice(RAW)
        return ("raw", rnd.choice(["set", "del"]), name, text)
    view = rnd.choice(VIEWS)
    if view == "cache_control":
        keys, attrs, vals = CC_KEYS, CC_ATTRS, CC_VALUES
        item_vals = [None, "1", "x y"]
    elif view.startswith("content_security"):
        keys, attrs, vals = CSP_KEYS, CSP_ATTRS, CSP_VALUES
        item_vals = CSP_VALUES[1:]
    elif view == "mimetype_params":
        keys, attrs, vals = MT_KEYS, [], MT_VALUES
        item_vals = MT_VALUES
    else:
        keys, attrs, vals = WA_KEYS, [], WA_VALUES
        item_vals = WA_VALUES
    methods = [
        "setitem", "setitem", "delitem", "pop", "pop_default", "setdefault", "clear",
        "popitem", "update", "update_kw", "ior", "read",
    ]  # fmt: skip
    if attrs:
        methods += ["setattr", "setattr", "delattr"]
    m = rnd.choice(methods)
    return (
        "view", view, m, rnd.choice(keys), rnd.choice(item_vals),
        rnd.choice(attrs) if attrs else None, rnd.choice(vals),
        [[rnd.choice(keys), rnd.choice(item_vals)] for _ in range(rnd.randint(0, 2))],
    )  # fmt: skip


def get_view(resp, view):
    if view == "www_auth_params":
        return resp.www_authenticate.parameters
    return getattr(resp, view)


def apply_b(resp, op):
    try:
        if op[0] == "raw":
            _, m, name, text = op
            if m == "set":
                resp.headers[name] = text
            else:
                del resp.headers[name]
            return ["ok"]
        _, view, m, key, ival, attr, aval, pairs = op
        d = get_view(resp, view)
        if m == "setitem":
            d[key] = ival
            rv = None
        elif m == "delitem":
            del d[key]
            rv = None
        elif m == "pop":
            rv = d.pop(key)
        elif m == "pop_default":
            rv = d.pop(key, ival)
        elif m == "setdefault":
            rv = d.setdefault(key, ival)
        elif m == "clear":
            rv = d.clear()
        elif m == "popitem":
            rv = d.popitem()
        elif m == "update":
            rv = d.update(dict(map(tuple, pairs)))
        elif m == "update_kw":
            rv = d.update(x=ival)
        elif m == "ior":
            d |= dict(map(tuple, pairs))
            rv = None
        elif m == "setattr":
            setattr(d, attr, aval)
            rv = getattr(d, attr)
        elif m == "delattr":
            delattr(d, attr)
            rv = None
        else:
            rv = None
        return ["ok", repr(rv), sorted(map(repr, d.items()))]
    except Exception as e:  # noqa: BLE001
        return ["exc", type(e).__name__, str(e)]


def observe_b(resp):
    out: list[t.Any] = [[list(kv) for kv in resp.headers]]
    for view in VIEWS:
        try:
            out.append(sorted(map(repr, get_view(resp, view).items())))
        except Exception as e:  # noqa: BLE001
            out.append(["exc", type(e).__name__])
    return out


def trace_b():
    rnd = random.Random(1616)
    digests = []
    steps = 0
    for _seq in range(2500):
        resp = Response()
        if rnd.random() < 0.5:
            resp.www_authenticate = WWWAuthenticate("digest", {"realm": "r"})
        trace = []
        for _ in range(rnd.randint(1, 12)):
            op = gen_b(rnd)
            trace.append([apply_b(resp, op), observe_b(resp)])
            steps += 1
        blob = json.dumps(trace, sort_keys=True, ensure_ascii=True)
        digests.append(hashlib.sha256(blob.encode()).hexdigest())
    return steps, digests


def main():
    expected_path = os.path.join(HERE, "expected_b.json")
    if "--record" in sys.argv:
        steps, digests = trace_b()
        with open(expected_path, "w") as f:
            json.dump({"steps": steps, "digests": digests}, f)
        print(f"recorded {len(digests)} sequences / {steps} steps")
        return 0

    ok = part_a()
    steps, digests = trace_b()
    with open(expected_path) as f:
        expected = json.load(f)
    bad = [
        i for i, (a, b) in enumerate(zip(digests, expected["digests"])) if a != b
    ]
    if bad or steps != expected["steps"] or len(digests) != len(expected["digests"]):
        print("FAIL part B, first differing sequences:", bad[:10])
        ok = False
    else:
        print(f"part B: {len(digests)} sequences / {steps} steps match recorded trace")
    print("PASS" if ok else "FAIL")
    return 0 if ok else 1


if __name__ == "__main__":
    sys.exit(main())
