"""Differential check for refactoring 3 of property C12.

Run as:
    cd /tmp/wt10-C12 && PYTHONPATH=/tmp/wt10-C12/src /venv/bin/python /tmp/twin6-C12/3/diff_check.py

The ORIGINAL implementations (copied verbatim from the unmodified tree, docstrings
removed) of every function that implements the property are pasted below.  The
same generated corpus of routing scenarios is evaluated twice: once with the
originals patched onto the classes and once with the worktree (refactored) code.
All results / raised exception types and payloads must be identical.
"""

from __future__ import annotations

import inspect
import random
import re
import sys
import typing as t
from urllib.parse import quote
from urllib.parse import urljoin
from urllib.parse import urlunsplit

import werkzeug
from werkzeug.datastructures import MultiDict
from werkzeug.exceptions import HTTPException
from werkzeug.exceptions import MethodNotAllowed
from werkzeug.exceptions import NotFound
from werkzeug.routing import Map
from werkzeug.routing import Rule
from werkzeug.routing import Submount
from werkzeug.routing.converters import ValidationError
from werkzeug.routing.exceptions import NoMatch
from werkzeug.routing.exceptions import RequestAliasRedirect
from werkzeug.routing.exceptions import RequestPath
from werkzeug.routing.exceptions import RequestRedirect
from werkzeug.routing.exceptions import WebsocketMismatch
from werkzeug.routing.map import MapAdapter
from werkzeug.routing.matcher import SlashRequired
from werkzeug.routing.matcher import State
from werkzeug.routing.matcher import StateMachineMatcher
from werkzeug.routing.rules import _simple_rule_re
from werkzeug.urls import _urlencode

assert werkzeug.__file__.startswith("/tmp/wt10-C12/"), werkzeug.__file__

# --------------------------------------------------------------------------
# ORIGINAL implementations (unmodified tree)
# --------------------------------------------------------------------------

def orig_matcher_match(
    self, domain: str, path: str, method: str, websocket: bool
) -> tuple[Rule, t.MutableMapping[str, t.Any]]:
    # To match to a rule we need to start at the root state and
    # try to follow the transitions until we find a match, or find
    # there is no transition to follow.

    have_match_for = set()
    websocket_mismatch = False

    def _match(
        state: State, parts: list[str], values: list[str]
    ) -> tuple[Rule, list[str]] | None:
        # This function is meant to be called recursively, and will attempt
        # to match the head part to the state's transitions.
        nonlocal have_match_for, websocket_mismatch

        # The base case is when all parts have been matched via
        # transitions. Hence if there is a rule with methods &
        # websocket that work return it and the dynamic values
        # extracted.
        if parts == []:
            for rule in state.rules:
                if rule.methods is not None and method not in rule.methods:
                    have_match_for.update(rule.methods)
                elif rule.websocket != websocket:
                    websocket_mismatch = True
                else:
                    return rule, values

            # Test if there is a match with this path with a
            # trailing slash, if so raise an exception to report
            # that matching is possible with an additional slash
            if "" in state.static:
                for rule in state.static[""].rules:
                    if websocket == rule.websocket and (
                        rule.methods is None or method in rule.methods
                    ):
                        if rule.strict_slashes:
                            raise SlashRequired()
                        else:
                            return rule, values
                    elif (
                        not rule.strict_slashes
                        and rule.methods is not None
                        and method not in rule.methods
                    ):
                        have_match_for.update(rule.methods)
            return None

        part = parts[0]
        # To match this part try the static transitions first
        if part in state.static:
            rv = _match(state.static[part], parts[1:], values)
            if rv is not None:
                return rv
        # No match via the static transitions, so try the dynamic
        # ones.
        for test_part, new_state in state.dynamic:
            target = part
            remaining = parts[1:]
            # A final part indicates a transition that always
            # consumes the remaining parts i.e. transitions to a
            # final state.
            if test_part.final:
                target = "/".join(parts)
                remaining = []
            match = re.compile(test_part.content).match(target)
            if match is not None:
                if test_part.suffixed:
                    # If a part_isolating=False part has a slash suffix, remove the
                    # suffix from the match and check for the slash redirect next.
                    suffix = match.groups()[-1]
                    if suffix == "/":
                        remaining = [""]

                converter_groups = sorted(
                    match.groupdict().items(), key=lambda entry: entry[0]
                )
                groups = [
                    value
                    for key, value in converter_groups
                    if key[:11] == "__werkzeug_"
                ]
                rv = _match(new_state, remaining, values + groups)
                if rv is not None:
                    return rv

        # If there is no match and the only part left is a
        # trailing slash ("") consider rules that aren't
        # strict-slashes as these should match if there is a final
        # slash part.
        if parts == [""]:
            for rule in state.rules:
                if rule.strict_slashes:
                    continue
                if rule.methods is not None and method not in rule.methods:
                    have_match_for.update(rule.methods)
                elif rule.websocket != websocket:
                    websocket_mismatch = True
                else:
                    return rule, values

        return None

    try:
        rv = _match(self._root, [domain, *path.split("/")], [])
    except SlashRequired:
        raise RequestPath(f"{path}/") from None

    if self.merge_slashes and rv is None:
        # Try to match again, but with slashes merged
        path = re.sub("/{2,}?", "/", path)
        try:
            rv = _match(self._root, [domain, *path.split("/")], [])
        except SlashRequired:
            raise RequestPath(f"{path}/") from None
        if rv is None or rv[0].merge_slashes is False:
            raise NoMatch(have_match_for, websocket_mismatch)
        else:
            raise RequestPath(f"{path}")
    elif rv is not None:
        rule, values = rv

        result = {}
        for name, value in zip(rule._converters.keys(), values):
            try:
                value = rule._converters[name].to_python(value)
            except ValidationError:
                raise NoMatch(have_match_for, websocket_mismatch) from None
            result[str(name)] = value
        if rule.defaults:
            result.update(rule.defaults)

        if rule.alias and rule.map.redirect_defaults:
            raise RequestAliasRedirect(result, rule.endpoint)

        return rule, result

    raise NoMatch(have_match_for, websocket_mismatch)


def orig_adapter_match(
    self,
    path_info: str | None = None,
    method: str | None = None,
    return_rule: bool = False,
    query_args: t.Mapping[str, t.Any] | str | None = None,
    websocket: bool | None = None,
) -> tuple[t.Any | Rule, t.Mapping[str, t.Any]]:
    self.map.update()
    if path_info is None:
        path_info = self.path_info
    if query_args is None:
        query_args = self.query_args or {}
    method = (method or self.default_method).upper()

    if websocket is None:
        websocket = self.websocket

    domain_part = self.server_name

    if not self.map.host_matching and self.subdomain is not None:
        domain_part = self.subdomain

    path_part = f"/{path_info.lstrip('/')}" if path_info else ""

    try:
        result = self.map._matcher.match(domain_part, path_part, method, websocket)
    except RequestPath as e:
        # safe = https://url.spec.whatwg.org/#url-path-segment-string
        new_path = quote(e.path_info, safe="!$&'()*+,/:;=@")
        raise RequestRedirect(
            self.make_redirect_url(new_path, query_args)
        ) from None
    except RequestAliasRedirect as e:
        raise RequestRedirect(
            self.make_alias_redirect_url(
                f"{domain_part}|{path_part}",
                e.endpoint,
                e.matched_values,
                method,
                query_args,
            )
        ) from None
    except NoMatch as e:
        if e.have_match_for:
            raise MethodNotAllowed(valid_methods=list(e.have_match_for)) from None

        if e.websocket_mismatch:
            raise WebsocketMismatch() from None

        raise NotFound() from None
    else:
        rule, rv = result

        if self.map.redirect_defaults:
            redirect_url = self.get_default_redirect(rule, method, rv, query_args)
            if redirect_url is not None:
                raise RequestRedirect(redirect_url)

        if rule.redirect_to is not None:
            if isinstance(rule.redirect_to, str):

                def _handle_match(match: t.Match[str]) -> str:
                    value = rv[match.group(1)]
                    return rule._converters[match.group(1)].to_url(value)

                redirect_url = _simple_rule_re.sub(_handle_match, rule.redirect_to)
            else:
                redirect_url = rule.redirect_to(self, **rv)

            if self.subdomain:
                netloc = f"{self.subdomain}.{self.server_name}"
            else:
                netloc = self.server_name

            raise RequestRedirect(
                urljoin(
                    f"{self.url_scheme or 'http'}://{netloc}{self.script_name}",
                    redirect_url,
                )
            )

        if return_rule:
            return rule, rv
        else:
            return rule.endpoint, rv


def orig_get_host(self, domain_part: str | None) -> str:
    if self.map.host_matching:
        if domain_part is None:
            return self.server_name

        return domain_part

    if domain_part is None:
        subdomain = self.subdomain
    else:
        subdomain = domain_part

    if subdomain:
        return f"{subdomain}.{self.server_name}"
    else:
        return self.server_name


def orig_get_default_redirect(
    self,
    rule: Rule,
    method: str,
    values: t.MutableMapping[str, t.Any],
    query_args: t.Mapping[str, t.Any] | str,
) -> str | None:
    assert self.map.redirect_defaults
    for r in self.map._rules_by_endpoint[rule.endpoint]:
        # every rule that comes after this one, including ourself
        # has a lower priority for the defaults.  We order the ones
        # with the highest priority up for building.
        if r is rule:
            break
        if r.provides_defaults_for(rule) and r.suitable_for(values, method):
            values.update(r.defaults)  # type: ignore
            domain_part, path = r.build(values)  # type: ignore
            return self.make_redirect_url(path, query_args, domain_part=domain_part)
    return None


def orig_encode_query_args(self, query_args: t.Mapping[str, t.Any] | str) -> str:
    if not isinstance(query_args, str):
        return _urlencode(query_args)
    return query_args


def orig_make_redirect_url(
    self,
    path_info: str,
    query_args: t.Mapping[str, t.Any] | str | None = None,
    domain_part: str | None = None,
) -> str:
    if query_args is None:
        query_args = self.query_args

    if query_args:
        query_str = self.encode_query_args(query_args)
    else:
        query_str = None

    scheme = self.url_scheme or "http"
    host = self.get_host(domain_part)
    path = "/".join((self.script_name.strip("/"), path_info.lstrip("/")))
    return urlunsplit((scheme, host, path, query_str, None))


def orig_make_alias_redirect_url(
    self,
    path: str,
    endpoint: t.Any,
    values: t.Mapping[str, t.Any],
    method: str,
    query_args: t.Mapping[str, t.Any] | str,
) -> str:
    url = self.build(
        endpoint, values, method, append_unknown=False, force_external=True
    )
    if query_args:
        url += f"?{self.encode_query_args(query_args)}"
    assert url != path, "detected invalid alias setting. No canonical URL found"
    return url


def orig_provides_defaults_for(self, rule: Rule) -> bool:
    return bool(
        not self.build_only
        and self.defaults
        and self.endpoint == rule.endpoint
        and self != rule
        and self.arguments == rule.arguments
    )


# --------------------------------------------------------------------------
# harness
# --------------------------------------------------------------------------

PATCHES = [
    (StateMachineMatcher, "match", orig_matcher_match),
    (MapAdapter, "match", orig_adapter_match),
    (MapAdapter, "get_host", orig_get_host),
    (MapAdapter, "get_default_redirect", orig_get_default_redirect),
    (MapAdapter, "encode_query_args", orig_encode_query_args),
    (MapAdapter, "make_redirect_url", orig_make_redirect_url),
    (MapAdapter, "make_alias_redirect_url", orig_make_alias_redirect_url),
    (Rule, "provides_defaults_for", orig_provides_defaults_for),
]
REFACTORED = {(c, n): c.__dict__[n] for c, n, _ in PATCHES}

# functions this refactoring is expected to have changed (sanity check that the
# patch is really applied in the worktree we import from)
TARGETS = ['MapAdapter.match', 'MapAdapter.get_default_redirect', 'MapAdapter.make_alias_redirect_url', 'Rule.provides_defaults_for']


def install_originals() -> None:
    for cls, name, fn in PATCHES:
        setattr(cls, name, fn)


def install_refactored() -> None:
    for (cls, name), fn in REFACTORED.items():
        setattr(cls, name, fn)


def _norm_src(fn: t.Any) -> str:
    import ast
    import textwrap

    tree = ast.parse(textwrap.dedent(inspect.getsource(fn)))
    f = tree.body[0]
    f.name = "f"
    if ast.get_docstring(f) is not None:
        del f.body[0]
    f.decorator_list = []
    return ast.dump(f)


def check_targets_changed() -> None:
    changed = set()
    for cls, name, orig in PATCHES:
        if _norm_src(REFACTORED[(cls, name)]) != _norm_src(orig):
            changed.add(f"{cls.__name__}.{name}")
    print("functions differing from original:", sorted(changed))
    assert changed == set(TARGETS), (changed, TARGETS)


# ---- scenario generation (pure data so that both runs see the same corpus) ----

RULE_POOL: list[dict[str, t.Any]] = [
    dict(string="/", endpoint="index"),
    dict(string="/foo", endpoint="foo"),
    dict(string="/foo/", endpoint="foo_dir"),
    dict(string="/bar/", endpoint="bar"),
    dict(string="/bar/<int:id>", endpoint="bar_item"),
    dict(string="/bar/<int:id>/", endpoint="bar_item_dir"),
    dict(string="/p/<path:p>", endpoint="p"),
    dict(string="/p/<path:p>/edit", endpoint="p_edit"),
    dict(string="/q/<path:p>/", endpoint="q_dir"),
    dict(string="/<name>", endpoint="name"),
    dict(string="/<name>/", endpoint="name_dir"),
    dict(string="/a/b/c", endpoint="abc"),
    dict(string="/a/<x>/c/", endpoint="axc"),
    dict(string="/x-<a>/<b>", endpoint="xab"),
    dict(string="/y/<a>-<b>/", endpoint="yab"),
    dict(string="/pages/", endpoint="pages", defaults={"page": 1}),
    dict(string="/pages/<int:page>", endpoint="pages"),
    dict(string="/pages/<int:page>/", endpoint="pages_dir"),
    dict(string="/users/", endpoint="users", defaults={"page": 1}),
    dict(string="/users/page/<int:page>", endpoint="users"),
    dict(string="/u/<int:page>", endpoint="users", alias=True),
    dict(string="/u/", endpoint="users", alias=True, defaults={"page": 1}),
    dict(string="/index.html", endpoint="index", alias=True),
    dict(string="/lang/", endpoint="lang", defaults={"lang": "en", "page": 1}),
    dict(string="/lang/<lang>/", endpoint="lang", defaults={"page": 1}),
    dict(string="/lang/<lang>/<int:page>", endpoint="lang"),
    dict(string="/old/<int:id>", endpoint="old", redirect_to="bar/<id>"),
    dict(string="/old2/", endpoint="old2", redirect_to="/foo/"),
    dict(string="/ws", endpoint="ws", websocket=True),
    dict(string="/ws/", endpoint="ws_dir", websocket=True),
    dict(string="/post", endpoint="post", methods=["POST"]),
    dict(string="/post/", endpoint="post_dir", methods=["POST", "PUT"]),
    dict(string="/both/", endpoint="both_get", methods=["GET"]),
    dict(string="/both/", endpoint="both_post", methods=["POST"]),
    dict(string="/sub/", endpoint="sub_only", subdomain="sub"),
    dict(string="/sub/<int:n>", endpoint="subn", subdomain="sub"),
    dict(string="/sub/", endpoint="subn", subdomain="sub", defaults={"n": 0}),
    dict(string="/any/", endpoint="any_sub", subdomain="<sd>"),
    dict(string="/deep/a//b", endpoint="deep"),
    dict(string="/deep/<path:p>//z/", endpoint="deepz"),
]

HOST_RULE_POOL: list[dict[str, t.Any]] = [
    dict(string="/", endpoint="index", host="example.com"),
    dict(string="/foo/", endpoint="foo_dir", host="example.com"),
    dict(string="/foo", endpoint="foo", host="other.org"),
    dict(string="/bar/<int:id>/", endpoint="bar_item_dir", host="<h>"),
    dict(string="/pages/", endpoint="pages", defaults={"page": 1}, host="example.com"),
    dict(string="/pages/<int:page>", endpoint="pages", host="example.com"),
    dict(string="/users/", endpoint="users", defaults={"page": 1}, host="other.org"),
    dict(string="/users/page/<int:page>", endpoint="users", host="other.org"),
    dict(string="/u/<int:page>", endpoint="users", alias=True, host="<h>"),
    dict(string="/p/<path:p>/", endpoint="p", host="example.com"),
    dict(string="/<name>/", endpoint="name_dir", host="www.<dom>"),
]

SEGMENTS = [
    "foo", "bar", "1", "42", "0", "pages", "users", "page", "u", "p", "q", "edit",
    "a", "b", "c", "x-1", "y", "k-v", "lang", "en", "de", "old", "old2", "ws", "post",
    "both", "sub", "any", "deep", "z", "index.html", "evil.com", "%2f", "é", "a b",
    "-1", "x", "", "..", "@evil.com", "\\evil.com", "http:", "?x", "#f",
]
SEPS = ["/", "/", "/", "//", "///"]
LEADS = ["/", "/", "/", "", "//", "///", "/\\", "//evil.com/", "///evil.com//"]
TRAILS = ["", "", "/", "/", "//", "///"]
METHODS = ["GET", "GET", "GET", "POST", "PUT", "HEAD", "get", None]
QUERY_ARGS: list[t.Any] = [
    None, None, "", "a=1&b=2", "x=%2F%2Fevil.com", {}, {"a": "1"}, {"b": ["1", "2"], "a": "é"},
    ("md", (("k", "v"), ("k", "w"))),
]
SCRIPT_NAMES = [None, "/", "", "/app", "/app/", "app", "//app//x/", "/a b"]
SERVER_NAMES = ["example.com", "example.com", "other.org", "example.com:8080", "www.test"]
SUBDOMAINS = [None, None, "", "sub", "x.y"]
SCHEMES = ["http", "https", "ws", "wss", "", "http"]


def gen_path(rng: random.Random) -> str | None:
    r = rng.random()
    if r < 0.01:
        return None
    if r < 0.02:
        return ""
    n = rng.randint(0, 4)
    segs = [rng.choice(SEGMENTS) for _ in range(n)]
    out = rng.choice(LEADS)
    for i, s in enumerate(segs):
        if i:
            out += rng.choice(SEPS)
        out += s
    return out + rng.choice(TRAILS)


CONV_VALUES = {
    "int": ["1", "1", "2", "42", "0", "x"],
    "path": ["a", "a/b", "a//b", "a/b/", "evil.com/x"],
    "default": ["en", "de", "foo", "1", "a-b", "é"],
}


def gen_rule_path(rng: random.Random, rules: list[dict[str, t.Any]], submount: str | None) -> str:
    """A path derived from one of the scenario's rules, then perturbed."""
    rule = rng.choice(rules)["string"]

    def fill(match: t.Match[str]) -> str:
        conv = match.group(1) or "default"
        return rng.choice(CONV_VALUES.get(conv, CONV_VALUES["default"]))

    path = re.sub(r"<(?:(\w+):)?\w+>", fill, rule)
    if submount and rng.random() < 0.9:
        path = submount + path
    r = rng.random()
    if r < 0.25:
        path = path.rstrip("/")
    elif r < 0.5:
        path = path + "/"
    r = rng.random()
    if r < 0.3:
        # double some slashes
        path = "".join(c * rng.choice([1, 1, 2, 3]) if c == "/" else c for c in path)
    elif r < 0.4:
        path = "/" + path
    elif r < 0.5:
        path = "//evil.com" + path
    elif r < 0.55:
        path = path.lstrip("/")
    return path


def gen_scenario(rng: random.Random) -> dict[str, t.Any]:
    host_matching = rng.random() < 0.2
    pool = HOST_RULE_POOL if host_matching else RULE_POOL
    k = rng.randint(1, min(len(pool), 14))
    idx = sorted(rng.sample(range(len(pool)), k))
    rules = []
    for i in idx:
        spec = dict(pool[i])
        if rng.random() < 0.25:
            spec["strict_slashes"] = rng.random() < 0.5
        if rng.random() < 0.25:
            spec["merge_slashes"] = rng.random() < 0.5
        rules.append(spec)
    if rng.random() < 0.3:
        rng.shuffle(rules)
    submount = rng.choice([None, None, None, "/mnt", "/m//n"])

    def path() -> str | None:
        if rng.random() < 0.7:
            return gen_rule_path(rng, rules, submount)
        return gen_path(rng)

    return dict(
        rules=rules,
        submount=submount,
        map=dict(
            strict_slashes=rng.random() < 0.8,
            merge_slashes=rng.random() < 0.8,
            redirect_defaults=rng.random() < 0.8,
            host_matching=host_matching,
            default_subdomain=rng.choice(["", "", "www"]),
        ),
        bind=dict(
            server_name=rng.choice(SERVER_NAMES),
            script_name=rng.choice(SCRIPT_NAMES),
            subdomain=None if host_matching else rng.choice(SUBDOMAINS),
            url_scheme=rng.choice(SCHEMES),
            default_method=rng.choice(["GET", "GET", "POST"]),
            path_info=rng.choice([None, "/foo", "//pages//1", "bar/1"]),
            query_args=rng.choice(QUERY_ARGS),
        ),
        calls=[
            dict(
                path=path(),
                method=rng.choice(METHODS),
                query_args=rng.choice(QUERY_ARGS),
                websocket=rng.choice([None, None, None, False, True]),
                return_rule=rng.random() < 0.2,
            )
            for _ in range(rng.randint(8, 16))
        ],
        host_calls=[rng.choice([None, "", "sub", "a.b", "example.com"]) for _ in range(3)],
        url_calls=[
            dict(
                path_info=rng.choice(["", "/", "//", "/x", "x/y/", "//evil.com/a", "///a//b"]),
                query_args=rng.choice(QUERY_ARGS),
                domain_part=rng.choice([None, None, "", "sub", "evil.com"]),
            )
            for _ in range(3)
        ],
    )


def _qa(v: t.Any) -> t.Any:
    if isinstance(v, tuple) and v and v[0] == "md":
        return MultiDict(v[1])
    if isinstance(v, dict):
        return dict(v)
    return v


def _freeze(v: t.Any) -> t.Any:
    if isinstance(v, Rule):
        return ("Rule", v.rule, repr(v.endpoint), v.subdomain, v.host)
    if isinstance(v, dict):
        # keep insertion order: it is observable
        return ("dict", tuple((k, _freeze(x)) for k, x in v.items()))
    if isinstance(v, (list, tuple)):
        return (type(v).__name__, tuple(_freeze(x) for x in v))
    if isinstance(v, (set, frozenset)):
        return ("set", tuple(sorted(map(repr, v))))
    return (type(v).__name__, repr(v))


def outcome(fn: t.Callable[[], t.Any]) -> t.Any:
    try:
        return ("ok", _freeze(fn()))
    except RequestRedirect as e:
        return ("RequestRedirect", e.new_url, e.code, type(e.__cause__).__name__, e.__suppress_context__)
    except MethodNotAllowed as e:
        return ("MethodNotAllowed", tuple(sorted(e.valid_methods or ())), e.__suppress_context__)
    except RequestPath as e:
        return ("RequestPath", e.path_info, e.__suppress_context__)
    except RequestAliasRedirect as e:
        return ("RequestAliasRedirect", _freeze(dict(e.matched_values)), repr(e.endpoint))
    except NoMatch as e:
        return ("NoMatch", tuple(sorted(e.have_match_for)), e.websocket_mismatch, e.__suppress_context__)
    except BaseException as e:  # noqa: B036
        return (type(e).__name__, repr(e.args), e.__suppress_context__)


def run_scenario(sc: dict[str, t.Any]) -> list[t.Any]:
    results: list[t.Any] = []
    try:
        rules: list[t.Any] = [Rule(**dict(spec)) for spec in sc["rules"]]
        if sc["submount"]:
            rules = [Submount(sc["submount"], rules)]
        m = Map(rules, **sc["map"])
        b = dict(sc["bind"])
        b["query_args"] = _qa(b["query_args"])
        adapter = m.bind(**b)
    except Exception as e:
        return [("setup-error", type(e).__name__, repr(e.args))]

    for c in sc["calls"]:
        results.append(
            outcome(
                lambda c=c: adapter.match(
                    c["path"],
                    c["method"],
                    return_rule=c["return_rule"],
                    query_args=_qa(c["query_args"]),
                    websocket=c["websocket"],
                )
            )
        )
        # the raw matcher (RequestPath / NoMatch / RequestAliasRedirect payloads)
        if c["path"] is not None:
            m.update()
            domain = adapter.server_name
            if not m.host_matching and adapter.subdomain is not None:
                domain = adapter.subdomain
            results.append(
                outcome(
                    lambda c=c, domain=domain: m._matcher.match(
                        domain, c["path"], (c["method"] or "GET").upper(), bool(c["websocket"])
                    )
                )
            )
        results.append(outcome(lambda c=c: adapter.test(c["path"], c["method"])))
        results.append(outcome(lambda c=c: list(adapter.allowed_methods(c["path"]))))

    for d in sc["host_calls"]:
        results.append(outcome(lambda d=d: adapter.get_host(d)))
    for u in sc["url_calls"]:
        results.append(
            outcome(
                lambda u=u: adapter.make_redirect_url(
                    u["path_info"], _qa(u["query_args"]), u["domain_part"]
                )
            )
        )
        results.append(outcome(lambda u=u: adapter.make_redirect_url(u["path_info"])))
        results.append(outcome(lambda u=u: adapter.encode_query_args(_qa(u["query_args"]) or {})))

    # provides_defaults_for over all rule pairs
    all_rules = list(m.iter_rules())
    for r1 in all_rules:
        for r2 in all_rules:
            v = r1.provides_defaults_for(r2)
            results.append(("pdf", type(v).__name__, v))
    return results


def follow_redirects(sc: dict[str, t.Any]) -> list[t.Any]:
    """Property-flavoured probe: follow router redirects and record the chain."""
    out: list[t.Any] = []
    try:
        rules: list[t.Any] = [Rule(**dict(spec)) for spec in sc["rules"] if "redirect_to" not in spec]
        m = Map(rules, **sc["map"])
        b = dict(sc["bind"])
        b["query_args"] = _qa(b["query_args"])
        adapter = m.bind(**b)
    except Exception as e:
        return [("setup-error", type(e).__name__)]
    from urllib.parse import urlsplit, unquote

    for c in sc["calls"]:
        path = c["path"]
        chain = []
        for _ in range(5):
            o = outcome(lambda path=path: adapter.match(path, c["method"], query_args=_qa(c["query_args"])))
            chain.append(o)
            if o[0] != "RequestRedirect":
                break
            parts = urlsplit(o[1])
            script = (adapter.script_name or "/").rstrip("/")
            p = unquote(parts.path)
            path = p[len(script):] if p.startswith(script) else p
        out.append(tuple(chain))
    return out


def main() -> int:
    check_targets_changed()
    rng = random.Random(0xC12)
    scenarios = [gen_scenario(rng) for _ in range(1500)]

    install_originals()
    try:
        expected = [run_scenario(sc) for sc in scenarios]
        expected_chain = [follow_redirects(sc) for sc in scenarios[:400]]
    finally:
        install_refactored()
    actual = [run_scenario(sc) for sc in scenarios]
    actual_chain = [follow_redirects(sc) for sc in scenarios[:400]]

    total = sum(len(x) for x in expected) + sum(len(x) for x in expected_chain)
    kinds: dict[str, int] = {}
    for res in expected:
        for o in res:
            kinds[o[0]] = kinds.get(o[0], 0) + 1
    print("scenarios:", len(scenarios), "compared outcomes:", total)
    print("outcome kinds (original):", dict(sorted(kinds.items())))

    bad = 0
    for sc, e, a in zip(scenarios, expected, actual):
        if e != a:
            bad += 1
            if bad <= 5:
                for i, (x, y) in enumerate(zip(e, a)):
                    if x != y:
                        print("MISMATCH", i, x, y, sc["map"], sc["bind"])
                        break
    for e, a in zip(expected_chain, actual_chain):
        if e != a:
            bad += 1
            if bad <= 5:
                print("CHAIN MISMATCH", e, a)
    if bad:
        print("FAIL", bad)
        return 1
    print("PASS")
    return 0


if __name__ == "__main__":
    sys.exit(main())
