"""Differential check for refactoring 2 (WSGIRequestHandler.make_environ).

The ORIGINAL make_environ is pasted below and compiled inside a copy of the
werkzeug.serving namespace, then compared against the worktree's make_environ on
generated request lines / header blocks / handler states.
"""

from __future__ import annotations

import http.client
import io
import random
import sys
import textwrap
import types

from werkzeug import serving

ORIG_SRC = textwrap.dedent(
    '''
    def orig_make_environ(self):
        request_url = urlsplit(self.path)
        url_scheme = "http" if self.server.ssl_context is None else "https"

        if not self.client_address:
            self.client_address = ("<local>", 0)
        elif isinstance(self.client_address, str):
            self.client_address = (self.client_address, 0)

        # If there was no scheme but the path started with two slashes,
        # the first segment may have been incorrectly parsed as the
        # netloc, prepend it to the path again.
        if not request_url.scheme and request_url.netloc:
            path_info = f"/{request_url.netloc}{request_url.path}"
        else:
            path_info = request_url.path

        path_info = unquote(path_info)

        environ: WSGIEnvironment = {
            "wsgi.version": (1, 0),
            "wsgi.url_scheme": url_scheme,
            "wsgi.input": self.rfile,
            "wsgi.errors": sys.stderr,
            "wsgi.multithread": self.server.multithread,
            "wsgi.multiprocess": self.server.multiprocess,
            "wsgi.run_once": False,
            "werkzeug.socket": self.connection,
            "SERVER_SOFTWARE": self.server_version,
            "REQUEST_METHOD": self.command,
            "SCRIPT_NAME": "",
            "PATH_INFO": _wsgi_encoding_dance(path_info),
            "QUERY_STRING": _wsgi_encoding_dance(request_url.query),
            # Non-standard, added by mod_wsgi, uWSGI
            "REQUEST_URI": _wsgi_encoding_dance(self.path),
            # Non-standard, added by gunicorn
            "RAW_URI": _wsgi_encoding_dance(self.path),
            "REMOTE_ADDR": self.address_string(),
            "REMOTE_PORT": self.port_integer(),
            "SERVER_NAME": self.server.server_address[0],
            "SERVER_PORT": str(self.server.server_address[1]),
            "SERVER_PROTOCOL": self.request_version,
        }

        for key, value in self.headers.items():
            if "_" in key:
                continue

            key = key.upper().replace("-", "_")
            value = value.replace("\\r\\n", "")
            if key not in ("CONTENT_TYPE", "CONTENT_LENGTH"):
                key = f"HTTP_{key}"
                if key in environ:
                    value = f"{environ[key]},{value}"
            environ[key] = value

        if environ.get("HTTP_TRANSFER_ENCODING", "").strip().lower() == "chunked":
            environ["wsgi.input_terminated"] = True
            environ["wsgi.input"] = DechunkedInput(environ["wsgi.input"])

        # Per RFC 2616, if the URL is absolute, use that as the host.
        # We're using "has a scheme" to indicate an absolute URL.
        if request_url.scheme and request_url.netloc:
            environ["HTTP_HOST"] = request_url.netloc

        try:
            # binary_form=False gives nicer information, but wouldn't be compatible with
            # what Nginx or Apache could return.
            peer_cert = self.connection.getpeercert(binary_form=True)
            if peer_cert is not None:
                # Nginx and Apache use PEM format.
                environ["SSL_CLIENT_CERT"] = ssl.DER_cert_to_PEM_cert(peer_cert)
        except ValueError:
            # SSL handshake hasn't finished.
            self.server.log("error", "Cannot fetch SSL peer certificate info")
        except AttributeError:
            # Not using TLS, the socket will not have getpeercert().
            pass

        return environ
    '''
)

_g = dict(vars(serving))
exec(compile(ORIG_SRC, "<orig_make_environ>", "exec"), _g)
orig_make_environ = _g["orig_make_environ"]
new_make_environ = serving.WSGIRequestHandler.make_environ


class Handler(serving.WSGIRequestHandler):
    def __init__(self) -> None:  # no socket setup
        pass


class PlainConn:
    pass


class CertConn:
    def __init__(self, result):
        self.result = result

    def getpeercert(self, binary_form=False):
        assert binary_form is True
        if isinstance(self.result, Exception):
            raise self.result
        return self.result


PATH_PIECES = [
    "/", "", "/a", "/a/b/", "//", "///x", "//host", "//host/x", "//host:80/x/y",
    "//us%65r@host/p", "/a%20b", "/%2F%2f", "/%E4%BD%A0", "/%ff%fe", "/\xc3\xa9", "/%",
    "/%zz", "*", "/a;p=1", "/a+b", "/a b", "http://example.com", "http://example.com/",
    "http://example.com:8080/p/q", "https://ex.com/%41", "HTTP://UP.example/x",
    "http:///nohost", "http:/one", "http:", "mailto:a@b", "x-y.z://h/p", "1http://h/p",
    "//[::1]/v6", "http://[::1]:5000/v6", "//[::1", "http://[bad/x", "/p//q", "/.//..",
    "http://user:pw@h.example:1/p", "//h?only", "ws://h/sock", "/\t/x", "//\xa0h/x",
    "localhost:5000/x", "/a:b", "a:b", "/#", "#frag", "//#f", "http://h#f",
]
QUERY_PIECES = [
    "", "", "", "?", "?a=1", "?a=1&b=2", "?q=%E4%BD%A0", "?x=\xc3\xa9", "?a?b", "?a#frag",
    "#frag", "?u=http://x/y", "?%zz", "?a=b c",
]
HEADER_NAMES = [
    "Host", "host", "HOST", "Content-Type", "content-type", "Content-Length",
    "CONTENT-LENGTH", "Transfer-Encoding", "transfer-encoding", "X-Foo", "x-foo", "X_Foo",
    "X-Foo_Bar", "Accept", "Cookie", "Cookie", "Expect", "X-Forwarded-For", "Content_Type",
    "Content_Length", "Transfer_Encoding", "Wsgi.input", "Connection", "A", "a-b-c",
    "X-\xe9", "Content-Md5", "Type", "Length", "Content", "Http-Host", "Http_Host",
]
HEADER_VALUES = [
    "", "a", "example.com", "text/plain; charset=utf-8", "12", "0", "chunked", " chunked ",
    "Chunked", "CHUNKED", "gzip, chunked", "gzip", "chunked, gzip", "identity", "a=b; c=d",
    "1.2.3.4, 5.6.7.8", "\xe4\xbd\xa0", "a,b", "x\ty", "folded\r\n value", "two\r\n\tlines\r\n more",
    "100-continue", "chunked\r\n ", "chun\r\n ked",
]


def gen_headers(rnd: random.Random) -> bytes:
    lines = []
    for _ in range(rnd.choice([0, 1, 2, 3, 4, 6, 9])):
        name = rnd.choice(HEADER_NAMES)
        value = rnd.choice(HEADER_VALUES)
        sep = rnd.choice([": ", ":", ":  ", ": "])
        lines.append(f"{name}{sep}{value}\r\n")
    if rnd.random() < 0.3:
        lines.insert(
            rnd.randint(0, len(lines)),
            "Transfer-Encoding: " + rnd.choice(["chunked", " chunked", "Chunked ", "gzip"]) + "\r\n",
        )
    return "".join(lines).encode("latin1") + b"\r\n"


def gen_case(rnd: random.Random) -> dict:
    path = rnd.choice(PATH_PIECES) + rnd.choice(QUERY_PIECES)
    if rnd.random() < 0.15:
        path = "".join(
            rnd.choice(["/", "/", "a", "%41", "%2F", ":", "?", "#", "@", "[", "]", "h", ".", "\xe9", "+", " "])
            for _ in range(rnd.randint(0, 10))
        )
    return {
        "path": path,
        "command": rnd.choice(["GET", "POST", "HEAD", "PUT", "OPTIONS", "get", "M-SEARCH"]),
        "request_version": rnd.choice(["HTTP/1.1", "HTTP/1.0", "HTTP/0.9"]),
        "headers": gen_headers(rnd),
        "client_address": rnd.choice(
            [("127.0.0.1", 5000), ("::1", 1, 0, 0), "", None, (), "/tmp/sock", ("fe80::1%eth0", 9)]
        ),
        "ssl": rnd.random() < 0.3,
        "conn": rnd.choice(["plain", "plain", "none", "cert", "valueerror", "attrerror"]),
        "preset_environ": rnd.random() < 0.1,
        "server_address": rnd.choice([("127.0.0.1", 5000), ("localhost", 0), ("unix://x", 0), ("::", 80)]),
        "multi": (rnd.random() < 0.5, rnd.random() < 0.5),
    }


def build(case: dict):
    h = Handler()
    log_calls: list = []
    h.server = types.SimpleNamespace(
        ssl_context=object() if case["ssl"] else None,
        multithread=case["multi"][0],
        multiprocess=case["multi"][1],
        server_address=case["server_address"],
        _server_version="Werkzeug/test",
        log=lambda *a: log_calls.append(a),
    )
    h.path = case["path"]
    h.command = case["command"]
    h.request_version = case["request_version"]
    h.headers = http.client.parse_headers(io.BytesIO(case["headers"]))
    h.rfile = io.BytesIO(b"5\r\nhello\r\n0\r\n\r\n")
    h.client_address = case["client_address"]
    conn = {
        "plain": PlainConn(),
        "none": CertConn(None),
        "cert": CertConn(b"\x30\x82certbytes" * 7),
        "valueerror": CertConn(ValueError("handshake")),
        "attrerror": CertConn(AttributeError("x")),
    }[case["conn"]]
    h.connection = conn
    if case["preset_environ"]:
        h.environ = {"REMOTE_ADDR": "9.9.9.9"}
    return h, log_calls


def run(func, case: dict):
    h, log_calls = build(case)
    try:
        env = func(h)
    except Exception as e:  # noqa: BLE001
        return ("exc", type(e).__name__, str(e), h.client_address, log_calls)
    items = []
    for k, v in env.items():
        if k == "wsgi.input":
            if isinstance(v, serving.DechunkedInput):
                v = ("dechunked", v._rfile is h.rfile, v._len, v._done, v.read())
            else:
                v = ("raw", v is h.rfile)
        elif k == "wsgi.errors":
            v = ("stderr", v is sys.stderr)
        elif k == "werkzeug.socket":
            v = ("conn", v is h.connection)
        items.append((k, type(v).__name__, v))
    return ("ok", items, h.client_address, log_calls, h.rfile.tell())


def main() -> None:
    rnd = random.Random(2019_2)
    n = mism = excs = chunked = abs_host = netloc_prepend = dup = 0
    for _ in range(20000):
        case = gen_case(rnd)
        a = run(orig_make_environ, case)
        b = run(new_make_environ, case)
        n += 1
        if a[0] == "exc":
            excs += 1
        else:
            d = {k: v for k, _, v in a[1]}
            chunked += "wsgi.input_terminated" in d
            dup += any("," in str(v) for k, v in d.items() if k.startswith("HTTP_"))
            sp = serving.urlsplit(case["path"])
            abs_host += bool(sp.scheme and sp.netloc)
            netloc_prepend += bool(not sp.scheme and sp.netloc)
        if a != b:
            mism += 1
            if mism <= 5:
                print("MISMATCH", case)
                print("  orig:", a)
                print("  new: ", b)
    print(
        f"cases={n} exceptions={excs} chunked={chunked} absolute_host={abs_host} "
        f"netloc_prepended={netloc_prepend} joined_dups={dup} mismatches={mism}"
    )
    ok = mism == 0 and chunked > 500 and abs_host > 500 and netloc_prepend > 500 and dup > 500
    print("PASS" if ok else "FAIL")


if __name__ == "__main__":
    main()
