"""Differential check for refactoring 3 (__call__ table dispatch, pin_auth branch order).

Run: cd /tmp/wt9-C20 && PYTHONPATH=/tmp/wt9-C20/src /venv/bin/python /tmp/twin5-C20/3/diff_check.py

OrigApp overrides the touched methods with a pasted copy of the ORIGINAL code;
NewApp is the worktree class. Both are driven with identical generated request
sequences (through __call__ and by direct method calls) and every observable is
compared: status, headers (incl. Set-Cookie), body, log calls, sleeps, failure
counter, console frame creation, exception types.
"""
from __future__ import annotations

import json
import random
import typing as t
from contextlib import ExitStack

import werkzeug.debug as D
from werkzeug.debug import DebuggedApplication, _ConsoleFrame, hash_pin
from werkzeug.debug.tbtools import render_console_html
from werkzeug.exceptions import SecurityError
from werkzeug.sansio.utils import host_is_trusted
from werkzeug.test import EnvironBuilder, run_wsgi_app
from werkzeug.wrappers import Request, Response


class FakeTime:
    def __init__(self):
        self.now = 1_700_000_000.0
        self.sleeps = []

    def time(self):
        return self.now

    def sleep(self, s):
        self.sleeps.append(s)


time = FakeTime()
D.time = time  # the debugger module's `time` global

LOGS: list = []


def _log(*a):
    LOGS.append(a)


D._log = _log


class OrigApp(DebuggedApplication):
    # ---- pasted ORIGINAL implementations -------------------------------
    def pin_auth(self, request):
        """Authenticates with the pin."""
        if not self.check_host_trust(request.environ):
            return SecurityError()  # type: ignore[return-value]

        exhausted = False
        auth = False
        trust = self.check_pin_trust(request.environ)
        pin = t.cast(str, self.pin)

        bad_cookie = False
        if trust is None:
            self._fail_pin_auth()
            bad_cookie = True

        # If we're trusted, we're authenticated.
        elif trust:
            auth = True

        # If we failed too many times, then we're locked out.
        elif self._failed_pin_auth.value > 10:
            exhausted = True

        # Otherwise go through pin based authentication
        else:
            entered_pin = request.args["pin"]

            if entered_pin.strip().replace("-", "") == pin.replace("-", ""):
                self._failed_pin_auth.value = 0
                auth = True
            else:
                self._fail_pin_auth()

        rv = Response(
            json.dumps({"auth": auth, "exhausted": exhausted}),
            mimetype="application/json",
        )
        if auth:
            rv.set_cookie(
                self.pin_cookie_name,
                f"{int(time.time())}|{hash_pin(pin)}",
                httponly=True,
                samesite="Strict",
                secure=request.is_secure,
            )
        elif bad_cookie:
            rv.delete_cookie(self.pin_cookie_name)
        return rv

    def __call__(self, environ, start_response):
        """Dispatch the requests."""
        request = Request(environ)
        response = self.debug_application
        if request.args.get("__debugger__") == "yes":
            cmd = request.args.get("cmd")
            arg = request.args.get("f")
            secret = request.args.get("s")
            frame = self.frames.get(request.args.get("frm", type=int))  # type: ignore
            if cmd == "resource" and arg:
                response = self.get_resource(request, arg)  # type: ignore
            elif cmd == "pinauth" and secret == self.secret:
                response = self.pin_auth(request)  # type: ignore
            elif cmd == "printpin" and secret == self.secret:
                response = self.log_pin_request(request)  # type: ignore
            elif (
                self.evalex
                and cmd is not None
                and frame is not None
                and self.secret == secret
                and self.check_pin_trust(environ)
            ):
                response = self.execute_command(request, cmd, frame)  # type: ignore
        elif (
            self.evalex
            and self.console_path is not None
            and request.path == self.console_path
        ):
            response = self.display_console(request)  # type: ignore
        return response(environ, start_response)


import inspect

assert "secret_commands" in inspect.getsource(DebuggedApplication.__call__), "patch not applied"


rnd = random.Random(2020)
SECRET = "S" * 20
PIN = "123-456-789"
COOKIE = "__wzdTEST"

HOSTS = [
    None, "localhost", "localhost:5000", "a.localhost", "a.b.localhost:80", "127.0.0.1",
    "127.0.0.1:5000", "evil.com", "notlocalhost", "localhost.evil.com", "127.0.0.10",
    "1127.0.0.1", "[::1]", "[::1]:5000", "", "LOCALHOST", "b\xfccher.localhost",
    "evil.com:127.0.0.1", "127.0.0.1.evil.com", ".localhost", "localhost.",
    "trusted.example", "sub.trusted.example", "xtrusted.example", "\xff\xfe.localhost",
    "a" * 70 + ".localhost",
]
CMDS = [None, "pinauth", "printpin", "resource", "pinauth", "printpin", "PINAUTH", "pinauth ", "", "__hash__", "1+1", "x = 5", "x", "print('hi')", "app", "seeded", "1/0", "import os"]
PINS = [None, PIN, "123456789", " 123-456-789 ", "000-000-000", "", "1234-56789", "wrong"]


def inner_app(environ, start_response):
    if environ["PATH_INFO"] == "/boom":
        raise ValueError("boom")
    start_response("200 OK", [("Content-Type", "text/plain")])
    return [b"inner"]


def init_ns():
    return {"seeded": 42}


def make(cls, cfg):
    app = cls(
        inner_app,
        evalex=cfg["evalex"],
        console_init_func=cfg["init"],
        pin_security=True,
        pin_logging=cfg["pin_logging"],
        console_path=cfg["console_path"],
    )
    app.secret = SECRET
    app._pin = cfg["pin"]
    app._pin_cookie = COOKIE
    app.trusted_hosts = list(cfg["trusted"])
    return app


def rand_cookie(pin):
    k = rnd.random()
    if k < 0.3:
        return None
    good_hash = hash_pin(pin) if pin is not None else "x" * 12
    ts = rnd.choice(
        [
            int(time.now),
            int(time.now) - 60,
            int(time.now) - D.PIN_TIME,
            int(time.now) - D.PIN_TIME + 1,
            int(time.now) - D.PIN_TIME - 1,
            0,
            "abc",
            "",
            " 17",
        ]
    )
    h = rnd.choice([good_hash, good_hash, "deadbeef0000", "", good_hash + "|x"])
    if k < 0.4:
        return f"{COOKIE}={ts}"
    if k < 0.45:
        return f"other={ts}|{h}"
    return f"{COOKIE}={ts}|{h}"


def rand_request(cfg):
    path = rnd.choice(["/", "/console", "/console", "/boom", "/other"])
    q = {}
    if rnd.random() < 0.75:
        q["__debugger__"] = rnd.choice(["yes", "yes", "yes", "no"])
        cmd = rnd.choice(CMDS)
        if cmd is not None:
            q["cmd"] = cmd
        s = rnd.choice([SECRET, SECRET, SECRET, "bad", None])
        if s is not None:
            q["s"] = s
        frm = rnd.choice(["0", "0", "0", "1", "abc", None])
        if frm is not None:
            q["frm"] = frm
        pin = rnd.choice(PINS)
        if pin is not None:
            q["pin"] = pin
        if rnd.random() < 0.2:
            q["f"] = rnd.choice(["style.css", "debugger.js", "nope.txt", "../x"])
    headers = {}
    host = rnd.choice(HOSTS + ["localhost", "127.0.0.1"] * 4)
    ck = rand_cookie(cfg["pin"])
    if ck is not None:
        headers["Cookie"] = ck
    scheme = rnd.choice(["http", "https"])
    b = EnvironBuilder(path=path, query_string=q, headers=headers, base_url=f"{scheme}://localhost/")
    env = b.get_environ()
    if host is None:
        env.pop("HTTP_HOST", None)
    else:
        env["HTTP_HOST"] = host
    return env


def run(app, env):
    LOGS.clear()
    time.sleeps.clear()
    env = dict(env)
    env["wsgi.errors"] = __import__("io").StringIO()
    try:
        it, status, headers = run_wsgi_app(app, env, buffered=True)
        body = b"".join(it)
        hl = sorted(headers.to_wsgi_list())
        if status.startswith("500"):
            # traceback page embeds id(frame) values, which differ per object
            body = __import__("re").sub(rb"\d{12,}", b"ID", body)
            hl = [h for h in hl if h[0] != "Content-Length"]
        out = ("ok", status, hl, body)
    except BaseException as e:  # noqa: B036
        out = ("exc", type(e), str(e))
    return (
        out,
        list(LOGS),
        list(time.sleeps),
        app._failed_pin_auth.value,
        sorted(app.frames.keys() & {0}),
        type(app.frames.get(0)).__name__,
    )


def run_direct(app, env, which, cmd):
    """Call the gated methods directly, bypassing __call__'s conjunction."""
    LOGS.clear()
    time.sleeps.clear()
    req = Request(dict(env))
    try:
        if which == "execute_command":
            frame = app.frames.get(0) or _ConsoleFrame({"app": None})
            resp = app.execute_command(req, cmd or "1+1", frame)
        elif which == "display_console":
            resp = app.display_console(req)
        elif which == "pin_auth":
            resp = app.pin_auth(req)
        elif which == "log_pin_request":
            resp = app.log_pin_request(req)
        elif which == "check_host_trust":
            return ("val", app.check_host_trust(req.environ))
        else:
            r = app._untrusted_host_response(req.environ) if hasattr(
                app, "_untrusted_host_response"
            ) else None
            return ("n/a",)
        hdrs = sorted(resp.get_wsgi_headers(req.environ).to_wsgi_list()) if isinstance(
            resp, Response
        ) else None
        body = resp.get_data() if isinstance(resp, Response) else resp.get_body()
        out = ("ok", type(resp).__name__, getattr(resp, "code", None),
               getattr(resp, "status", None), hdrs, body)
    except BaseException as e:  # noqa: B036
        out = ("exc", type(e), str(e))
    return (out, list(LOGS), list(time.sleeps), app._failed_pin_auth.value,
            0 in app.frames)


n = bad = 0
seen_status: dict = {}


def check(a, b, what):
    global n, bad
    n += 1
    if a != b:
        bad += 1
        if bad < 10:
            print("MISMATCH", what)
            print("  orig:", a)
            print("  new :", b)


CONFIGS = []
for evalex in (True, False):
    for pin in (PIN, None):
        for pin_logging in (True, False):
            for init in (None, init_ns):
                for trusted in (
                    [".localhost", "127.0.0.1"],
                    ["trusted.example"],
                    [".trusted.example", "localhost:5000"],
                    [],
                ):
                    CONFIGS.append(
                        dict(evalex=evalex, pin=pin, pin_logging=pin_logging, init=init,
                             trusted=trusted, console_path="/console")
                    )

for cfg in CONFIGS:
    for rep in range(2):
        o, w = make(OrigApp, cfg), make(DebuggedApplication, cfg)
        for step in range(60):
            time.now += rnd.choice([0, 1, 3600, 86400])
            env = rand_request(cfg)
            if rnd.random() < 0.7:
                a, b = run(o, env), run(w, env)
                key = a[0][1] if a[0][0] == "ok" else a[0][1]
                seen_status[key] = seen_status.get(key, 0) + 1
                check(a, b, ("call", cfg, env.get("HTTP_HOST"), env["QUERY_STRING"],
                             env.get("HTTP_COOKIE")))
            else:
                which = rnd.choice(["execute_command", "display_console", "pin_auth",
                                    "log_pin_request", "check_host_trust"])
                cmd = rnd.choice(CMDS[10:])
                a, b = run_direct(o, env, which, cmd), run_direct(w, env, which, cmd)
                check(a, b, ("direct", which, cfg, env.get("HTTP_HOST"),
                             env["QUERY_STRING"], env.get("HTTP_COOKIE")))

# lock-out sequence: > 10 failures, then the correct PIN, on both
for cfg in CONFIGS[:8]:
    if cfg["pin"] is None:
        continue
    o, w = make(OrigApp, cfg), make(DebuggedApplication, cfg)
    for i in range(16):
        pin = "wrong" if i < 13 else PIN
        b_ = EnvironBuilder(
            path="/", query_string={"__debugger__": "yes", "cmd": "pinauth", "s": SECRET,
                                    "pin": pin}
        )
        env = b_.get_environ()
        env["HTTP_HOST"] = "localhost"
        check(run(o, env), run(w, env), ("lockout", i))

print("status distribution:", seen_status)
print(f"{n} comparisons, {bad} mismatches")
print("PASS" if bad == 0 and n > 3000 else "FAIL")
