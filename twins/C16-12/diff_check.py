"""Differential check for refactoring 3 (C16).

Compares ``werkzeug.datastructures.WWWAuthenticate`` (``__setitem__``,
``__delitem__``, ``__setattr__``) from the worktree against a copy of the
ORIGINAL implementation pasted below, on random mutation sequences, both
stand-alone (recording ``_on_update``) and bound to
``Response.www_authenticate``.

Run: cd /tmp/wt10-C16 && PYTHONPATH=/tmp/wt10-C16/src /venv/bin/python \
        /tmp/twin6-C16/3/diff_check.py
"""

from __future__ import annotations

import random
import sys

from werkzeug.datastructures import CallbackDict
from werkzeug.datastructures import WWWAuthenticate
from werkzeug.http import dump_header
from werkzeug.http import parse_dict_header
from werkzeug.http import quote_header_value
from werkzeug.sansio.response import Response


# --------------------------------------------------------------------------
# ORIGINAL implementation (verbatim from the unmodified tree)
# --------------------------------------------------------------------------
class OrigWWWAuthenticate:
    def __init__(self, auth_type, values=None, token=None):
        self._type = auth_type.lower()
        self._parameters = CallbackDict(values, lambda _: self._trigger_on_update())
        self._token = token
        self._on_update = None

    def _trigger_on_update(self) -> None:
        if self._on_update is not None:
            self._on_update(self)

    @property
    def type(self) -> str:
        return self._type

    @type.setter
    def type(self, value: str) -> None:
        self._type = value.lower()
        self._trigger_on_update()

    @property
    def parameters(self):
        return self._parameters

    @parameters.setter
    def parameters(self, value) -> None:
        self._parameters = CallbackDict(value, lambda _: self._trigger_on_update())
        self._trigger_on_update()

    @property
    def token(self):
        return self._token

    @token.setter
    def token(self, value) -> None:
        self._token = value
        self._trigger_on_update()

    def __getitem__(self, key):
        return self.parameters.get(key)

    def __setitem__(self, key, value) -> None:
        if value is None:
            if key in self.parameters:
                del self.parameters[key]
        else:
            self.parameters[key] = value

        self._trigger_on_update()

    def __delitem__(self, key) -> None:
        if key in self.parameters:
            del self.parameters[key]
            self._trigger_on_update()

    def __getattr__(self, name):
        return self[name]

    def __setattr__(self, name, value) -> None:
        if name in {
            "type",
            "parameters",
            "token",
            "_type",
            "_parameters",
            "_token",
            "_on_update",
        }:
            super().__setattr__(name, value)
        else:
            self[name] = value

    def __delattr__(self, name) -> None:
        del self[name]

    def __contains__(self, key) -> bool:
        return key in self.parameters

    def __eq__(self, other):
        if not isinstance(other, OrigWWWAuthenticate):
            return NotImplemented

        return (
            other.type == self.type
            and other.token == self.token
            and other.parameters == self.parameters
        )

    def get(self, key, default=None):
        return self.parameters.get(key, default)

    @classmethod
    def from_header(cls, value):
        if not value:
            return None

        scheme, _, rest = value.partition(" ")
        scheme = scheme.lower()
        rest = rest.strip()

        if "=" in rest.rstrip("="):
            return cls(scheme, parse_dict_header(rest), None)

        return cls(scheme, None, rest)

    def to_header(self) -> str:
        if self.token is not None:
            return f"{self.type.title()} {self.token}"

        if self.type == "digest":
            items = []

            for key, value in self.parameters.items():
                if key in {"realm", "domain", "nonce", "opaque", "qop"}:
                    value = quote_header_value(value, allow_token=False)
                else:
                    value = quote_header_value(value)

                items.append(f"{key}={value}")

            return f"Digest {', '.join(items)}"

        return f"{self.type.title()} {dump_header(self.parameters)}"

    def __str__(self) -> str:
        return self.to_header()

    def __repr__(self) -> str:
        return f"<{type(self).__name__} {self.to_header()}>"


class OrigResponse(Response):
    """Response.www_authenticate (unchanged code) bound to the original class."""

    @property
    def www_authenticate(self):
        value = OrigWWWAuthenticate.from_header(self.headers.get("WWW-Authenticate"))

        if value is None:
            value = OrigWWWAuthenticate("basic")

        def on_update(value):
            self.www_authenticate = value

        value._on_update = on_update
        return value

    @www_authenticate.setter
    def www_authenticate(self, value) -> None:
        if not value:  # None or empty list
            del self.www_authenticate
        elif isinstance(value, list):
            self.headers.set("WWW-Authenticate", value[0].to_header())

            for item in value[1:]:
                self.headers.add("WWW-Authenticate", item.to_header())
        else:
            self.headers.set("WWW-Authenticate", value.to_header())

            def on_update(value):
                self.www_authenticate = value

            value._on_update = on_update

    @www_authenticate.deleter
    def www_authenticate(self) -> None:
        if "WWW-Authenticate" in self.headers:
            del self.headers["WWW-Authenticate"]


# --------------------------------------------------------------------------
OWN = ["type", "parameters", "token", "_type", "_token"]
KEYS = [
    "realm", "nonce", "qop", "opaque", "domain", "algorithm", "stale", "x", "a b",
    "Type", "TOKEN", "_x", "on_update", "_trigger", "get", "to_header", "",
]
VALUES = [None, "", "a", "auth", "a b", 'q"x', "MD5", "TRUE", "ä", "x=y", "a,b"]
TYPES = ["basic", "Basic", "DIGEST", "digest", "bearer", "custom", ""]
RAW = [
    None, "", "Basic realm=\"x\"", "Digest realm=\"r\", nonce=\"n\", qop=auth",
    "Bearer abc==", "Bearer", "Custom a=b, c=\"d e\"", "basic", "x y=", "Digest",
]


def gen_ops(rnd):
    ops = []
    for _ in range(rnd.randint(1, 16)):
        kind = rnd.choice(
            ["setitem", "setitem", "delitem", "setattr", "setattr", "delattr",
             "own", "params_setitem", "params_pop", "params_clear", "getattr",
             "contains", "raw", "cb_none", "cb_rec", "raise_next"]
        )
        if kind in ("setitem", "setattr", "params_setitem"):
            ops.append((kind, rnd.choice(KEYS), rnd.choice(VALUES)))
        elif kind in ("delitem", "delattr", "params_pop", "getattr", "contains"):
            ops.append((kind, rnd.choice(KEYS)))
        elif kind == "own":
            name = rnd.choice(OWN)
            if name in ("type", "_type"):
                val = rnd.choice(TYPES + [None])
            elif name == "parameters":
                val = rnd.choice(
                    [{}, {"realm": "r"}, {"nonce": "n", "x": None}, None, [("a", "b")]]
                )
            else:
                val = rnd.choice([None, "tok", "abc==", ""])
            ops.append((kind, name, val))
        elif kind == "raw":
            ops.append((kind, rnd.choice(RAW)))
        else:
            ops.append((kind,))
    return ops


def norm(text):
    # the pasted copy has a different class name; ignore that in reprs
    return text.replace("OrigWWWAuthenticate", "WWWAuthenticate")


class Boom(Exception):
    pass


def view_state(auth):
    try:
        hdr = ("ok", auth.to_header())
    except Exception as e:  # noqa: BLE001
        hdr = ("exc", type(e).__name__)
    return (
        auth._type, auth._token, dict(auth._parameters),
        type(auth._parameters).__name__, sorted(vars(auth)), hdr,
    )


def do(auth, op, state):
    k = op[0]
    if k == "setitem":
        auth[op[1]] = op[2]
        return auth[op[1]]
    if k == "delitem":
        del auth[op[1]]
        return None
    if k == "setattr":
        setattr(auth, op[1], op[2])
        return getattr(auth, op[1])
    if k == "delattr":
        delattr(auth, op[1])
        return None
    if k == "own":
        setattr(auth, op[1], op[2])
        return getattr(auth, op[1])
    if k == "params_setitem":
        auth.parameters[op[1]] = op[2]
        return None
    if k == "params_pop":
        return auth.parameters.pop(op[1], "dflt")
    if k == "params_clear":
        auth.parameters.clear()
        return None
    if k == "getattr":
        return getattr(auth, op[1])
    if k == "contains":
        return op[1] in auth
    if k == "raise_next":
        state["raise"] = True
        return None
    return None


def run_standalone(cls, init, ops):
    log = []
    state = {"raise": False}

    def cb(a):
        log.append(view_state(a))
        if state["raise"]:
            state["raise"] = False
            raise Boom()

    auth = cls(*init)
    auth._on_update = cb
    trace = []
    for op in ops:
        try:
            if op[0] == "cb_none":
                auth._on_update = None
                out = None
            elif op[0] == "cb_rec":
                auth._on_update = cb
                out = None
            else:
                out = do(auth, op, state)
            res = ("ok", norm(repr(out)))
        except Exception as e:  # noqa: BLE001
            res = ("exc", type(e).__name__)
        trace.append((res, view_state(auth), list(log)))
    return trace


def run_response(resp_cls, auth_cls, ops):
    resp = resp_cls()
    held = None
    state = {"raise": False}
    trace = []
    for i, op in enumerate(ops):
        try:
            if op[0] == "raw":
                if op[1] is None:
                    resp.headers.pop("WWW-Authenticate", None)
                else:
                    resp.headers["WWW-Authenticate"] = op[1]
                out = None
            elif op[0] == "cb_rec":
                # assign a fresh instance (setter path), keep mutating it later
                held = auth_cls("digest", {"realm": "r"})
                resp.www_authenticate = held
                out = None
            elif op[0] == "cb_none":
                held = None
                out = None
            else:
                auth = held if held is not None and i % 2 else resp.www_authenticate
                out = do(auth, op, state)
            res = ("ok", norm(repr(out)))
        except Exception as e:  # noqa: BLE001
            res = ("exc", type(e).__name__)
        reread = resp.www_authenticate
        trace.append((res, list(resp.headers), view_state(reread)[:3], str(reread)))
    return trace


def main():
    rnd = random.Random(1603)
    n = 6000
    steps = 0
    inits = [
        ("basic",), ("Basic", {"realm": "x"}), ("digest", {"realm": "r", "nonce": "n"}),
        ("bearer", None, "tok"), ("custom", {"a": None, "b": "c"}),
    ]
    for i in range(n):
        ops = gen_ops(rnd)
        init = rnd.choice(inits)
        steps += len(ops)
        new = run_standalone(WWWAuthenticate, init, ops)
        old = run_standalone(OrigWWWAuthenticate, init, ops)
        if new != old:
            for j, (a, b) in enumerate(zip(new, old)):
                if a != b:
                    print("MISMATCH (standalone) seq", i, "step", j, ops[j])
                    print(" new:", a)
                    print(" old:", b)
                    break
            print("FAIL")
            return 1
        new = run_response(Response, WWWAuthenticate, ops)
        old = run_response(OrigResponse, OrigWWWAuthenticate, ops)
        if new != old:
            for j, (a, b) in enumerate(zip(new, old)):
                if a != b:
                    print("MISMATCH (response) seq", i, "step", j, ops[j])
                    print(" new:", a)
                    print(" old:", b)
                    break
            print("FAIL")
            return 1
    print(f"{n} sequences / {steps} steps compared (stand-alone and via Response)")
    print("PASS")
    return 0


if __name__ == "__main__":
    sys.exit(main())
