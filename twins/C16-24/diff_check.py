"""Differential check for refactoring 3 (UpdateDictMixin.setdefault/pop/update,
CallbackDict.__init__).

A pasted copy of the ORIGINAL UpdateDictMixin/CallbackDict is compared with the
worktree's CallbackDict on random operation sequences: return values, raised
exception types, dict contents (with order) and the exact sequence of
on_update notifications must be identical.  The same sequences are also driven
through the live Response.mimetype_params / Response.cache_control views.
"""
import random
from functools import update_wrapper

from werkzeug._internal import _missing
from werkzeug.datastructures import CallbackDict as NewCallbackDict
from werkzeug.http import dump_options_header
from werkzeug.http import parse_options_header
from werkzeug.sansio.response import Response


def _always_update(f):
    def wrapper(self, /, *args, **kwargs):
        rv = f(self, *args, **kwargs)

        if self.on_update is not None:
            self.on_update(self)

        return rv

    return update_wrapper(wrapper, f)


class OrigUpdateDictMixin(dict):
    on_update = None

    def setdefault(self, key, default=None):
        modified = key not in self
        rv = super().setdefault(key, default)
        if modified and self.on_update is not None:
            self.on_update(self)
        return rv

    def pop(self, key, default=_missing):
        modified = key in self
        if default is _missing:
            rv = super().pop(key)
        else:
            rv = super().pop(key, default)
        if modified and self.on_update is not None:
            self.on_update(self)
        return rv

    @_always_update
    def __setitem__(self, key, value):
        super().__setitem__(key, value)

    @_always_update
    def __delitem__(self, key):
        super().__delitem__(key)

    @_always_update
    def clear(self):
        super().clear()

    @_always_update
    def popitem(self):
        return super().popitem()

    @_always_update
    def update(self, arg=None, /, **kwargs):
        if arg is None:
            super().update(**kwargs)
        else:
            super().update(arg, **kwargs)

    @_always_update
    def __ior__(self, other):
        return super().__ior__(other)


class OrigCallbackDict(OrigUpdateDictMixin, dict):
    def __init__(self, initial=None, on_update=None):
        if initial is None:
            super().__init__()
        else:
            super().__init__(initial)

        self.on_update = on_update

    def __repr__(self):
        return f"<CallbackDict {super().__repr__()}>"


KEYS = ["a", "b", "charset", "max-age", "", 1, None, (1, 2)]
BAD_KEYS = [[1], {"x": 1}]
VALUES = [None, 0, 1, "x", "utf-8", "", _missing, [], ("t",)]
INITIALS = [
    None, (), {}, {"a": 1}, [("a", 1), ("b", 2)], {"charset": "utf-8", "a": None},
    [("a", 1), ("a", 2)], 5, [1], "ab", ["ab", "cd"],
]
UPDATE_ARGS = [None, {}, {"a": 9}, [("z", 1)], [("a", 1), ("q", 2)], (), 5, [1],
               ["ab"], {"b": None, "c": "x"}]
KWARGS = [{}, {}, {"a": 3}, {"k": "v", "b": 0}]


def rnd_key(rng):
    if rng.random() < 0.05:
        return rng.choice(BAD_KEYS)
    return rng.choice(KEYS)


def gen_ops(rng):
    ops = []
    for _ in range(rng.randint(1, 14)):
        kind = rng.choice(["setdefault", "setdefault1", "pop", "pop1", "setitem",
                           "delitem", "clear", "popitem", "update", "ior",
                           "set_cb_none"])
        if kind in ("setdefault", "pop"):
            ops.append((kind, rnd_key(rng), rng.choice(VALUES)))
        elif kind in ("setdefault1", "pop1", "delitem"):
            ops.append((kind, rnd_key(rng)))
        elif kind == "setitem":
            ops.append((kind, rnd_key(rng), rng.choice(VALUES)))
        elif kind == "update":
            ops.append((kind, rng.choice(UPDATE_ARGS), rng.choice(KWARGS),
                        rng.random() < 0.3))
        elif kind == "ior":
            ops.append((kind, rng.choice(UPDATE_ARGS)))
        else:
            ops.append((kind,))
    return ops


def apply(d, op):
    kind = op[0]
    if kind == "setdefault":
        return d.setdefault(op[1], op[2])
    if kind == "setdefault1":
        return d.setdefault(op[1])
    if kind == "pop":
        return d.pop(op[1], op[2])
    if kind == "pop1":
        return d.pop(op[1])
    if kind == "setitem":
        d[op[1]] = op[2]
        return None
    if kind == "delitem":
        del d[op[1]]
        return None
    if kind == "clear":
        return d.clear()
    if kind == "popitem":
        return d.popitem()
    if kind == "update":
        _, arg, kwargs, omit = op
        if omit:
            return d.update(**kwargs)
        return d.update(arg, **kwargs)
    if kind == "ior":
        d |= op[1]
        return None
    if kind == "set_cb_none":
        d.on_update = None
        return None
    raise AssertionError(kind)


def run(cls, initial, use_cb, ops, fail_at):
    log = []
    calls = [0]

    def on_update(d):
        calls[0] += 1
        if calls[0] == fail_at:
            log.append("cb-raise")
            raise KeyError("from callback")
        log.append(("cb", repr(list(d.items()))))

    try:
        d = cls(initial, on_update) if use_cb else cls(initial)
    except Exception as e:
        return ("init-exc", type(e).__name__)
    out = [repr(list(d.items())), d.on_update is None]
    for op in ops:
        try:
            rv = apply(d, op)
            res = ("ok", "MISSING" if rv is _missing else repr(rv))
        except Exception as e:
            res = ("exc", type(e).__name__, repr(e.args))
        out.append((res, repr(list(d.items())), len(log)))
    return out, log


STR_KEYS = ["charset", "boundary", "a", "max-age", "private", "x"]
STR_VALUES = ["utf-8", "x", "", "a b", None, 3]


def gen_str_ops(rng):
    ops = []
    for _ in range(rng.randint(1, 10)):
        kind = rng.choice(["setdefault", "setdefault1", "pop", "pop1", "setitem",
                           "delitem", "clear", "popitem", "update"])
        if kind in ("setdefault", "pop", "setitem"):
            ops.append((kind, rng.choice(STR_KEYS), rng.choice(STR_VALUES)))
        elif kind in ("setdefault1", "pop1", "delitem"):
            ops.append((kind, rng.choice(STR_KEYS)))
        elif kind == "update":
            ops.append((kind, rng.choice([None, {"a": "1"}, [("charset", "latin1")]]),
                        rng.choice([{}, {"x": "y"}]), rng.random() < 0.3))
        else:
            ops.append((kind,))
    return ops


def run_mimetype_new(ct, ops):
    r = Response()
    r.headers["Content-Type"] = ct
    view = r.mimetype_params
    out = []
    for op in ops:
        try:
            res = ("ok", repr(apply(view, op)))
        except Exception as e:
            res = ("exc", type(e).__name__)
        out.append((res, r.headers.get("Content-Type"), dict(view)))
    return out


def run_mimetype_orig(ct, ops):
    r = Response()
    r.headers["Content-Type"] = ct

    def on_update(d):
        r.headers["Content-Type"] = dump_options_header(r.mimetype, d)

    view = OrigCallbackDict(
        parse_options_header(r.headers.get("content-type", ""))[1], on_update
    )
    out = []
    for op in ops:
        try:
            res = ("ok", repr(apply(view, op)))
        except Exception as e:
            res = ("exc", type(e).__name__)
        out.append((res, r.headers.get("Content-Type"), dict(view)))
    return out


def main():
    rng = random.Random(1630)
    n = 0
    for _ in range(8000):
        initial = rng.choice(INITIALS)
        use_cb = rng.random() < 0.85
        ops = gen_ops(rng)
        fail_at = rng.choice([0, 0, 0, 1, 2, 4])
        a = run(NewCallbackDict, initial, use_cb, ops, fail_at)
        b = run(OrigCallbackDict, initial, use_cb, ops, fail_at)
        if a != b:
            print("FAIL (direct)", initial, use_cb, ops, fail_at)
            print(a)
            print(b)
            return
        n += 1
    for _ in range(2000):
        ct = rng.choice(["text/html; charset=utf-8", "text/plain",
                         "multipart/form-data; boundary=x; a=b", ""])
        ops = gen_str_ops(rng)
        a = run_mimetype_new(ct, ops)
        b = run_mimetype_orig(ct, ops)
        if a != b:
            print("FAIL (mimetype_params)", ct, ops)
            print(a)
            print(b)
            return
        n += 1
    print(f"PASS ({n} sequences)")


if __name__ == "__main__":
    main()
