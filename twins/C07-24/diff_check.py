"""Differential check: refactored parse_dict_header vs. pasted original."""
import random
from urllib.parse import unquote

from werkzeug import http
from werkzeug.datastructures import Authorization, WWWAuthenticate
from werkzeug.http import _charset_value_re
from werkzeug.http import parse_dict_header as new_impl
from werkzeug.http import parse_list_header

assert http.unquote is unquote


def orig_impl(value):
    result = {}

    for item in parse_list_header(value):
        key, has_value, value = item.partition("=")
        key = key.strip()

        if not key:
            # =value is not valid
            continue

        if not has_value:
            result[key] = None
            continue

        value = value.strip()
        encoding = None

        if key[-1] == "*":
            key = key[:-1]
            match = _charset_value_re.match(value)

            if match:
                encoding, value = match.groups()
                encoding = encoding.lower()

            if encoding in {"ascii", "us-ascii", "utf-8", "iso-8859-1"}:
                value = unquote(value, encoding=encoding)

        if len(value) >= 2 and value[0] == value[-1] == '"':
            value = value[1:-1]

        result[key] = value

    return result


def run(f, v):
    try:
        r = f(v)
    except BaseException as e:  # noqa: B036
        return ("exc", type(e).__name__)
    return ("dict", type(r).__name__, list(r.items()))


rnd = random.Random(23)
KEYS = ["a", "key", "key*", "*", "**", " k* ", "", "k *", "realm", "filename*", "é*", '"q"*']
CHARSETS = ["utf-8", "UTF-8", "Utf-8", "ascii", "US-ASCII", "iso-8859-1", "ISO-8859-1",
            "latin1", "utf-16", "", "utf_8", "x'y", "idna", "unknown"]
LANGS = ["", "en", "en-US", "'", "é"]
VALS = ["abc", "a%20b", "%E2%82%AC", "%FF%FE", "%", "%zz", "%e9", "a'b", "a b", '"x"',
        '"%41"', "", "é", "%C3%A9", "a%00b", "'", "''", "x=y", "a,b", '"', '""', "%22%22"]
ALPHA = "ab*='\"%, é-8utf\\"


def gen_item():
    k = rnd.random()
    key = rnd.choice(KEYS)
    if k < 0.1:
        return key
    if k < 0.6:
        v = f"{rnd.choice(CHARSETS)}'{rnd.choice(LANGS)}'{rnd.choice(VALS)}"
    elif k < 0.7:
        v = f"{rnd.choice(CHARSETS)}'{rnd.choice(VALS)}"
    elif k < 0.9:
        v = rnd.choice(VALS)
    else:
        v = "".join(rnd.choice(ALPHA) for _ in range(rnd.randint(0, 10)))
    if rnd.random() < 0.2:
        v = f'"{v}"'
    sp = rnd.choice(["", " "])
    return f"{key}{sp}={sp}{v}"


cases = ["", "a", "a=b", 'a=b, c="d, e", f', "=v", "*=utf-8''x", "k*=", "k*=''", "k*='''",
         "k*=utf-8''", "k*=UTF-8''%e2%82%ac", "k*=utf-8'en'%ff", "k*=\"utf-8''a%20b\"",
         "k*=latin1''%e9", "k*=iso-8859-1''%e9", "k*=utf-8''a b"]
for _ in range(12000):
    if rnd.random() < 0.9:
        cases.append(rnd.choice([", ", ","]).join(gen_item() for _ in range(rnd.randint(1, 4))))
    else:
        cases.append("".join(rnd.choice(ALPHA) for _ in range(rnd.randint(0, 20))))

bad = 0
kinds = {}
for c in cases:
    a, b = run(orig_impl, c), run(new_impl, c)
    kinds[a[0]] = kinds.get(a[0], 0) + 1
    if a != b:
        bad += 1
        if bad < 10:
            print("MISMATCH", repr(c), a, b)

# callers: Authorization / WWW-Authenticate parameters go through parse_dict_header
for c in cases[:3000]:
    for cls in (Authorization, WWWAuthenticate):
        got = cls.from_header("Digest " + c)
        params = got.parameters if got is not None else None
        rest = c.strip()
        want = orig_impl(rest) if "=" in rest.rstrip("=") else {}
        if dict(params) != want:
            bad += 1
            if bad < 10:
                print("MISMATCH caller", cls.__name__, repr(c), params, want)

print(len(cases), "cases", kinds)
print("PASS" if bad == 0 else f"FAIL ({bad})")
