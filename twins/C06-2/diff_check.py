"""Differential check for refactoring 2 (C06): parse_range_header.

Run: cd /tmp/wt3-C06 && PYTHONPATH=/tmp/wt3-C06/src /venv/bin/python /tmp/twin-C06/2/diff_check.py
"""
from __future__ import annotations

import itertools
import random

from werkzeug import datastructures as ds
from werkzeug import http
from werkzeug._internal import _plain_int


# ---- ORIGINAL implementation (copied from the unmodified tree) --------------
def orig_parse_range_header(value, make_inclusive=True):
    if not value or "=" not in value:
        return None

    ranges = []
    last_end = 0
    units, rng = value.split("=", 1)
    units = units.strip().lower()

    for item in rng.split(","):
        item = item.strip()
        if "-" not in item:
            return None
        if item.startswith("-"):
            if last_end < 0:
                return None
            try:
                begin = _plain_int(item)
            except ValueError:
                return None
            end = None
            last_end = -1
        elif "-" in item:
            begin_str, end_str = item.split("-", 1)
            begin_str = begin_str.strip()
            end_str = end_str.strip()

            try:
                begin = _plain_int(begin_str)
            except ValueError:
                return None

            if begin < last_end or last_end < 0:
                return None
            if end_str:
                if end_str.startswith("-"):
                    # _plain_int accepts a sign, a position does not have one
                    return None

                try:
                    end = _plain_int(end_str) + 1
                except ValueError:
                    return None

                if begin >= end:
                    return None
            else:
                end = None
            last_end = end if end is not None else -1
        ranges.append((begin, end))

    return ds.Range(units, ranges)


def norm(rv):
    if rv is None:
        return None
    assert type(rv) is ds.Range
    return (rv.units, list(rv.ranges), rv.to_header())


def run(fn, *args):
    try:
        return ("ok", norm(fn(*args)))
    except BaseException as e:  # noqa: BLE001
        return ("exc", type(e))


WS = ["", "", "", " ", "\t", "  "]
NUMS = ["0", "1", "2", "5", "9", "10", "99", "100", "499", "500", "007", "-1", "-0",
        "+3", "1_0", "", " ", "a", "１", "٣", "1.5", "--2", "1 2", "9" * 30]


def rnd_num(r):
    if r.random() < 0.6:
        return str(r.randint(0, 30))
    return r.choice(NUMS)


def rnd_item(r):
    c = r.random()
    w = lambda: r.choice(WS)  # noqa: E731
    if c < 0.35:
        return f"{w()}{rnd_num(r)}{w()}-{w()}{rnd_num(r)}{w()}"
    if c < 0.55:
        return f"{w()}{rnd_num(r)}{w()}-{w()}"
    if c < 0.75:
        return f"{w()}-{w()}{rnd_num(r)}{w()}"
    if c < 0.80:
        return f"{rnd_num(r)}"
    if c < 0.85:
        return f"{rnd_num(r)}-{rnd_num(r)}-{rnd_num(r)}"
    if c < 0.88:
        return "-"
    if c < 0.90:
        return ""
    if c < 0.93:
        return f"- {rnd_num(r)}"
    return "".join(r.choice("0123456789- ,=a") for _ in range(r.randint(0, 6)))


def rnd_sorted_items(r):
    # mostly-valid ascending, non-overlapping ranges (the property's domain)
    pos = r.randint(0, 5)
    items = []
    for _ in range(r.randint(1, 4)):
        begin = pos + r.randint(0, 5)
        end = begin + r.randint(0, 6)
        items.append(f"{begin}-{end}")
        pos = end + r.randint(0, 3)  # 0 -> overlap (begin < last_end) sometimes
    c = r.random()
    if c < 0.25:
        items.append(f"{pos + r.randint(0, 3)}-")
    elif c < 0.45:
        items.append(f"-{r.randint(0, 20)}")
    if r.random() < 0.15:
        items.append(rnd_item(r))
    if r.random() < 0.1:
        r.shuffle(items)
    return items


def rnd_value(r):
    c = r.random()
    units = r.choice(["bytes", "Bytes", " bytes ", "items", "", "a=b", "BYTES\t", "é"])
    if c < 0.5:
        items = rnd_sorted_items(r)
    else:
        items = [rnd_item(r) for _ in range(r.randint(0, 4))]
    sep = r.choice([",", ",", ", ", " , ", ",,"])
    body = sep.join(items)
    eq = "=" if r.random() < 0.93 else r.choice(["", "==", " = ", ":"])
    return f"{units}{eq}{body}"


def main():
    r = random.Random(60602)
    n = bad = 0
    cases = [None, "", "bytes", "=", "bytes=", "bytes=-", "bytes=0-", "bytes=-5",
             "bytes=0-0", "bytes=0-,5-6", "bytes=-5,0-1", "bytes=-5,-6", "bytes=0-,-5",
             "bytes=5-3", "bytes=0-4,3-9", "bytes=0-4,5-9", "bytes=0-4,4-9",
             "bytes=1-2=3", "=0-1", "bytes = 0 - 1 , 5 - ", "bytes=--5", "bytes=- 5",
             b"bytes=0-1", 5, 0, [], ["bytes=0-1"], "bytes=0-1,", ",", "bytes=,0-1",
             # signed last-byte position (rejected since the fix in the original)
             "bytes=0--0", "bytes=0- -0", "bytes=00--00", "bytes=0--0,5-9", "bytes=0--1",
             "bytes=0-1,2--2", "bytes=3--0", "bytes=0---0"]

    # exhaustive small grammar: up to 3 items over a small alphabet of item shapes
    shapes = ["0-1", "2-", "-3", "5-9", "1-1", "3-2", "-", "", "x", "4", "0-1-2", " 7 - 8 ",
              "-0", "--1", "10-"]
    for k in (1, 2, 3):
        for combo in itertools.product(shapes, repeat=k):
            cases.append("bytes=" + ",".join(combo))

    for _ in range(30000):
        cases.append(rnd_value(r))

    for v in cases:
        for extra in ((), (True,), (False,)):
            a = run(orig_parse_range_header, v, *extra)
            b = run(http.parse_range_header, v, *extra)
            n += 1
            if a != b:
                bad += 1
                print("MISMATCH", repr(v), extra, a, b)
            if extra == () and a[0] == "ok" and a[1] is not None:
                # normal form: re-serialising and parsing again gives the same value
                hdr = a[1][2]
                a2 = run(orig_parse_range_header, hdr)
                b2 = run(http.parse_range_header, hdr)
                n += 1
                if a2 != b2:
                    bad += 1
                    print("MISMATCH reparse", repr(hdr), a2, b2)

    ok = sum(1 for v in cases if run(orig_parse_range_header, v)[1] not in (None,) and
             run(orig_parse_range_header, v)[0] == "ok")
    print(f"compared {n} cases ({ok} inputs parse to a Range), {bad} mismatches")
    print("PASS" if bad == 0 else "FAIL")


if __name__ == "__main__":
    main()
