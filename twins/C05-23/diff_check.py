"""Differential check: refactored Response.get_wsgi_headers vs. original."""
import random
from urllib.parse import urljoin

from werkzeug.datastructures import Headers
from werkzeug.http import remove_entity_headers
from werkzeug.test import EnvironBuilder
from werkzeug.urls import iri_to_uri
from werkzeug.wrappers import Response
from werkzeug.wsgi import get_current_url


def orig_get_wsgi_headers(self, environ):
    headers = Headers(self.headers)
    location = None
    content_location = None
    content_length = None
    status = self.status_code

    for key, value in headers:
        ikey = key.lower()
        if ikey == "location":
            location = value
        elif ikey == "content-location":
            content_location = value
        elif ikey == "content-length":
            content_length = value

    if location is not None:
        location = iri_to_uri(location)

        if self.autocorrect_location_header:
            # Make the location header an absolute URL.
            current_url = get_current_url(environ, strip_querystring=True)
            current_url = iri_to_uri(current_url)
            location = urljoin(current_url, location)

        headers["Location"] = location

    # make sure the content location is a URL
    if content_location is not None:
        headers["Content-Location"] = iri_to_uri(content_location)

    if 100 <= status < 200 or status == 204:
        headers.remove("Content-Length")
    elif status == 304:
        remove_entity_headers(headers)

    if (
        self.automatically_set_content_length
        and self.is_sequence
        and content_length is None
        and status not in (204, 304)
        and not (100 <= status < 200)
    ):
        content_length = sum(len(x) for x in self.iter_encoded())
        headers["Content-Length"] = str(content_length)

    return headers


STATUSES = [100, 101, 102, 103, 150, 199, 200, 201, 202, 203, 204, 205, 206,
            300, 301, 302, 303, 304, 305, 307, 308, 400, 404, 500, 0, 99, 999,
            "204 Nope", "304", "199 x", "wat", "200 OK", "99"]
LOCS = ["/x", "http://example.com/a b", "/über?q=ä", "rel/path", "",
        "//other.host/p", "?q=1", "#frag", "https://☃.example/☃",
        "../up", "/a%20b", "http://[::1]:80/x", "mailto:a@b"]
HDRS = [("Content-Type", "text/plain"), ("Content-Encoding", "gzip"),
        ("Allow", "GET"), ("Expires", "0"), ("Last-Modified", "x"),
        ("Content-MD5", "abc"), ("Content-Language", "de"),
        ("Content-Range", "bytes 0-1/2"), ("ETag", '"x"'), ("X-Foo", "bär"),
        ("Set-Cookie", "a=b"), ("Cache-Control", "no-cache")]


def gen_body(rng):
    k = rng.randrange(9)
    if k == 0:
        return None
    if k == 1:
        return rng.choice(["", "hello", "hällo wörld", "x" * rng.randrange(300)])
    if k == 2:
        return rng.choice([b"", b"bytes", bytes(range(256))])
    if k == 3:
        return [rng.choice(["a", b"b", "☃", b"", ""]) for _ in range(rng.randrange(5))]
    if k == 4:
        return tuple(rng.choice([b"ab", b"", b"xyz"]) for _ in range(rng.randrange(4)))
    if k == 5:
        items = [rng.choice(["a", b"bb", "é"]) for _ in range(rng.randrange(4))]
        return (x for x in items)
    if k == 6:
        return iter([b"it", b"er"])
    if k == 7:
        return bytearray(b"ba")
    return [1, 2]  # bad items: len() fails -> TypeError in both


def gen_case(rng):
    body = gen_body(rng)
    status = rng.choice(STATUSES)
    hl = []
    for h in rng.sample(HDRS, rng.randrange(0, 5)):
        hl.append(h)
    if rng.random() < 0.5:
        hl.append((rng.choice(["Location", "location", "LOCATION"]), rng.choice(LOCS)))
        if rng.random() < 0.15:
            hl.append(("Location", rng.choice(LOCS)))
    if rng.random() < 0.3:
        hl.append((rng.choice(["Content-Location", "content-location"]), rng.choice(LOCS)))
    if rng.random() < 0.3:
        hl.append((rng.choice(["Content-Length", "content-length"]), rng.choice(["0", "5", "abc", "12345"])))
    rng.shuffle(hl)
    builder = EnvironBuilder(
        method=rng.choice(["GET", "HEAD", "POST", "OPTIONS"]),
        path=rng.choice(["/", "/a/b", "/ü/x y", "/p;q"]),
        base_url=rng.choice(["http://localhost/", "https://example.com:8443/app/", "http://höst.example/"]),
        query_string=rng.choice(["", "a=1&b=2"]),
    )
    env = builder.get_environ()
    builder.close()
    if rng.random() < 0.05:
        env.pop("HTTP_HOST", None)
    flags = (rng.random() < 0.5, rng.random() < 0.8)
    return body, status, hl, env, flags


def build(body, status, hl, flags):
    r = Response(body, status=status, headers=list(hl))
    r.autocorrect_location_header, r.automatically_set_content_length = flags
    return r


def run(fn):
    try:
        h = fn()
        assert type(h) is Headers
        return ("ok", h.to_wsgi_list(), [(type(k), type(v)) for k, v in h])
    except Exception as e:
        return ("exc", type(e), str(e))


def main():
    rng = random.Random(50502)
    n = bad = 0
    for _ in range(6000):
        body, status, hl, env, flags = gen_case(rng)
        one_shot = hasattr(body, "__next__")
        r = build(body, status, hl, flags)
        before = r.headers.to_wsgi_list()
        a = run(lambda: orig_get_wsgi_headers(r, env))
        b = run(lambda: r.get_wsgi_headers(env))
        n += 1
        if a != b or r.headers.to_wsgi_list() != before:
            bad += 1
            print("MISMATCH", repr(body), status, hl, flags, a, b)
        if not one_shot:
            # full WSGI output: same header list; a computed Content-Length equals the body size
            try:
                app_iter, st, headers = r.get_wsgi_response(env)
                got = ("ok", None, st, headers)
                if body != [1, 2]:
                    data = b"".join(app_iter)
                    cl = dict((k.lower(), v) for k, v in headers).get("content-length")
                    explicit = any(k.lower() == "content-length" for k, _ in hl)
                    if cl is not None and not explicit and env["REQUEST_METHOD"] != "HEAD":
                        assert int(cl) == len(data), (cl, data)
            except Exception as e:
                got = ("exc", type(e), str(e))
            n += 1
            if a[0] == "ok":
                if got[0] != "ok" or got[3] != a[1]:
                    bad += 1
                    print("MISMATCH(full)", repr(body), status, hl, flags, a, got)
            elif got[0] != "exc" or got[1:] != a[1:]:
                bad += 1
                print("MISMATCH(full-exc)", repr(body), status, hl, flags, a, got)
    print(f"{n} cases, {bad} mismatches")
    print("PASS" if bad == 0 else "FAIL")


if __name__ == "__main__":
    main()
