"""Differential check for refactoring 2 (sansio.http.is_resource_modified)."""
import random
from datetime import datetime, timedelta, timezone

from werkzeug.http import generate_etag, http_date, parse_date, parse_etags
from werkzeug.http import parse_if_range_header, unquote_etag
from werkzeug.sansio.http import _dt_as_utc
from werkzeug.sansio.http import is_resource_modified as new_irm
from werkzeug.test import EnvironBuilder
from werkzeug.wrappers import Response


def orig_irm(
    http_range=None,
    http_if_range=None,
    http_if_modified_since=None,
    http_if_none_match=None,
    http_if_match=None,
    etag=None,
    data=None,
    last_modified=None,
    ignore_if_range=True,
):
    if etag is None and data is not None:
        etag = generate_etag(data)
    elif data is not None:
        raise TypeError("both data and etag given")

    unmodified = False
    if isinstance(last_modified, str):
        last_modified = parse_date(last_modified)

    if last_modified is not None:
        last_modified = _dt_as_utc(last_modified.replace(microsecond=0))

    if_range = None
    if not ignore_if_range and http_range is not None:
        if_range = parse_if_range_header(http_if_range)

    if if_range is not None and if_range.date is not None:
        modified_since = if_range.date
    else:
        modified_since = parse_date(http_if_modified_since)

    if modified_since and last_modified and last_modified <= modified_since:
        unmodified = True

    if etag:
        etag, _ = unquote_etag(etag)

        if if_range is not None and if_range.etag is not None:
            unmodified = parse_etags(if_range.etag).contains(etag)
        else:
            if_none_match = parse_etags(http_if_none_match)
            if if_none_match:
                unmodified = if_none_match.contains_weak(etag)

            if_match = parse_etags(http_if_match)
            if if_match:
                unmodified = not if_match.contains(etag)

    return not unmodified


rnd = random.Random(4321)
BASE = datetime(2024, 5, 17, 12, 0, 0, tzinfo=timezone.utc)
TAGS = ["abc", "def", "x y", "", "0"]


def rand_date_obj():
    d = BASE + timedelta(seconds=rnd.choice([-86400, -2, -1, 0, 0, 1, 2, 86400]))
    k = rnd.random()
    if k < 0.3:
        d = d.replace(microsecond=rnd.choice([0, 1, 500000, 999999]))
    if k > 0.8:
        d = d.replace(tzinfo=None)
    return d


def rand_date_hdr():
    k = rnd.random()
    if k < 0.1:
        return None
    if k < 0.2:
        return rnd.choice(["", "garbage", "0", '"' + http_date(BASE) + '"', "Fri, 17 May 2024"])
    return http_date(rand_date_obj())


def rand_tag_quoted():
    t_ = rnd.choice(TAGS)
    return rnd.choice(['"%s"', 'W/"%s"', 'w/"%s"', "%s", ' "%s"']) % t_


def rand_etag_list():
    k = rnd.random()
    if k < 0.25:
        return None
    if k < 0.33:
        return rnd.choice(["*", "", " ", ",", "W/", '"', "* , \"abc\""])
    return rnd.choice([", ", ",", " "]).join(rand_tag_quoted() for _ in range(rnd.randint(1, 3)))


def rand_if_range():
    k = rnd.random()
    if k < 0.2:
        return None
    if k < 0.55:
        return rand_tag_quoted()
    if k < 0.6:
        return rnd.choice(["", "garbage", "*"])
    return rand_date_hdr()


def rand_kwargs():
    kw = dict(
        http_range=rnd.choice([None, None, "bytes=0-5", "", "junk"]),
        http_if_range=rand_if_range(),
        http_if_modified_since=rand_date_hdr(),
        http_if_none_match=rand_etag_list(),
        http_if_match=rand_etag_list(),
        etag=rnd.choice([None, None, "", rand_tag_quoted(), rand_tag_quoted()]),
        data=rnd.choice([None, None, None, None, b"", b"hello"]),
        last_modified=rnd.choice([None, rand_date_obj(), rand_date_obj(), rand_date_hdr()]),
        ignore_if_range=rnd.choice([True, False, False]),
    )
    return kw


def run(fn, kw):
    try:
        r = fn(**kw)
        return (type(r), r)
    except Exception as e:  # noqa: BLE001
        return ("exc", type(e), str(e))


bad = 0
stats = {}
N = 60000
for _ in range(N):
    kw = rand_kwargs()
    o, n = run(orig_irm, kw), run(new_irm, kw)
    stats[o[:2]] = stats.get(o[:2], 0) + 1
    if o != n:
        bad += 1
        if bad < 10:
            print("MISMATCH", kw, o, n)

# end to end through Response.make_conditional against recorded expectations
# computed with the pasted original (status code is a function of the result).
e2e = 0
for _ in range(4000):
    etag = rnd.choice([None, '"abc"', 'W/"abc"', '"def"'])
    lm = rnd.choice([None, rand_date_obj()])
    headers = {}
    for name, val in (
        ("If-None-Match", rand_etag_list()),
        ("If-Match", rand_etag_list()),
        ("If-Modified-Since", rand_date_hdr()),
    ):
        if val is not None and rnd.random() < 0.7:
            headers[name] = val
    method = rnd.choice(["GET", "GET", "HEAD", "POST"])
    env = EnvironBuilder(method=method, headers=headers).get_environ()
    resp = Response(b"0123456789")
    if etag:
        resp.headers["ETag"] = etag
    if lm is not None:
        resp.last_modified = lm
    resp.make_conditional(env)
    if method in ("GET", "HEAD"):
        modified = orig_irm(
            http_range=env.get("HTTP_RANGE"),
            http_if_range=env.get("HTTP_IF_RANGE"),
            http_if_modified_since=env.get("HTTP_IF_MODIFIED_SINCE"),
            http_if_none_match=env.get("HTTP_IF_NONE_MATCH"),
            http_if_match=env.get("HTTP_IF_MATCH"),
            etag=resp.headers.get("etag"),
            last_modified=resp.headers.get("last-modified"),
        )
        if modified:
            want = 200
        elif parse_etags(env.get("HTTP_IF_MATCH")):
            want = 412
        else:
            want = 304
    else:
        want = 200
    e2e += 1
    if resp.status_code != want:
        bad += 1
        if bad < 10:
            print("E2E MISMATCH", method, headers, etag, lm, resp.status_code, want)

print(f"{N} direct cases {stats}, {e2e} make_conditional cases, {bad} mismatches")
print("PASS" if bad == 0 else "FAIL")
