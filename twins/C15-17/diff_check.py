"""Differential check for refactoring 2 (urls.iri_to_uri, urls.uri_to_iri).

Run: cd /tmp/wt13-C15 && PYTHONPATH=/tmp/wt13-C15/src /venv/bin/python /tmp/twin8-C15/2/diff_check.py
"""
import random
from urllib.parse import quote
from urllib.parse import urlsplit
from urllib.parse import urlunsplit

import werkzeug.urls as new
from werkzeug.urls import _decode_idna
from werkzeug.urls import _unquote_fragment
from werkzeug.urls import _unquote_path
from werkzeug.urls import _unquote_query
from werkzeug.urls import _unquote_user


# ---- ORIGINAL implementations (copied from the unmodified tree; the helpers
# they call are not touched by this refactoring) ----
def orig_uri_to_iri(uri):
    parts = urlsplit(uri)
    path = _unquote_path(parts.path)
    query = _unquote_query(parts.query)
    fragment = _unquote_fragment(parts.fragment)

    if parts.hostname:
        netloc = _decode_idna(parts.hostname)
    else:
        netloc = ""

    if ":" in netloc:
        netloc = f"[{netloc}]"

    if parts.port:
        netloc = f"{netloc}:{parts.port}"

    if parts.username:
        auth = _unquote_user(parts.username)

        if parts.password:
            password = _unquote_user(parts.password)
            auth = f"{auth}:{password}"

        netloc = f"{auth}@{netloc}"

    return urlunsplit((parts.scheme, netloc, path, query, fragment))


def orig_iri_to_uri(iri):
    parts = urlsplit(iri)
    path = quote(parts.path, safe="%!$&'()*+,/:;=@")
    query = quote(parts.query, safe="%!$&'()*+,/:;=?@")
    fragment = quote(parts.fragment, safe="%!#$&'()*+,/:;=?@")

    if parts.hostname:
        netloc = parts.hostname.encode("idna").decode("ascii")
    else:
        netloc = ""

    if ":" in netloc:
        netloc = f"[{netloc}]"

    if parts.port:
        netloc = f"{netloc}:{parts.port}"

    if parts.username:
        auth = quote(parts.username, safe="%!$&'()*+,;=")

        if parts.password:
            password = quote(parts.password, safe="%!$&'()*+,;=")
            auth = f"{auth}:{password}"

        netloc = f"{auth}@{netloc}"

    return urlunsplit((parts.scheme, netloc, path, query, fragment))


def run(f, *a):
    try:
        return ("ok", f(*a))
    except Exception as e:  # noqa: BLE001
        return ("exc", type(e))


rng = random.Random(21515)
TEXT = "abcXYZ09-._~!$&'()*+,;=:@/?#[] %<>\"{}|\\^`åß☃\U0001f600\udc80\t\n"


def text(maxlen=8, extra=""):
    out = []
    for _ in range(rng.randint(0, maxlen)):
        r = rng.random()
        if r < 0.2:
            out.append("%" + rng.choice("0123456789abcdefABCDEFg") + rng.choice("0123456789abcdefABCDEFg"))
        elif r < 0.3:
            out.append("".join("%%%02X" % b for b in rng.choice("åß☃\U0001f600").encode()))
        elif r < 0.35:
            out.append("%%%02X" % rng.choice([0x20, 0x25, 0x2F, 0x3A, 0x40, 0x3F, 0x23, 0x26, 0x3D, 0x2B, 0x00, 0x7F, 0xDF, 0xFF]))
        else:
            out.append(rng.choice(TEXT + extra))
    return "".join(out)


HOSTS = ["example.com", "☃.net", "xn--n3h.net", "bücher.example", "xn--zz--.xn--n3h", "[::1]", "[2001:db8::1]",
         "::1", "[::1", "::1]", "EXAMPLE.org", "a" * 70 + ".com", "a..b", ".", "", "localhost", "127.0.0.1",
         "xn--bcher-kva.example", "ex ample", "\udc80.com", "例え.jp", "[v1.x]", "ⅷ.com"]
PORTS = ["", "", ":80", ":0", ":443", ":8080", ":65535", ":65536", ":99999", ":", ":abc", ":-1", ":08", ":٣"]
SCHEMES = ["http", "https", "ws", "ftp", "itms-services", "file", "mailto", "HTTP", "x-y.z+1", ""]


def gen_url():
    r = rng.random()
    if r < 0.1:
        return text(20)
    scheme = rng.choice(SCHEMES)
    out = []
    if scheme:
        out.append(scheme + ":")
    if rng.random() < 0.85:
        out.append("//")
        ui = rng.random()
        if ui < 0.25:
            out.append(text(5) + "@")
        elif ui < 0.5:
            out.append(text(5) + ":" + text(5) + "@")
        elif ui < 0.55:
            out.append(":" + text(4) + "@")
        elif ui < 0.6:
            out.append("@")
        host = rng.choice(HOSTS) if rng.random() < 0.85 else text(6)
        out.append(host)
        out.append(rng.choice(PORTS))
    if rng.random() < 0.8:
        out.append("/" + text(10))
    if rng.random() < 0.5:
        out.append("?" + text(10))
    if rng.random() < 0.4:
        out.append("#" + text(8))
    return "".join(out)


n = bad = excs = 0
for _ in range(12000):
    u = gen_url()
    for old_f, new_f in ((orig_iri_to_uri, new.iri_to_uri), (orig_uri_to_iri, new.uri_to_iri)):
        a = run(old_f, u)
        b = run(new_f, u)
        n += 1
        excs += a[0] == "exc"
        if a != b:
            bad += 1
            print("mismatch", old_f.__name__, repr(u), a, b)
        # second step (fixpoint / round trip) on the produced value
        if a[0] == "ok":
            for old_g, new_g in ((orig_iri_to_uri, new.iri_to_uri), (orig_uri_to_iri, new.uri_to_iri)):
                c = run(old_g, a[1])
                d = run(new_g, a[1])
                n += 1
                if c != d:
                    bad += 1
                    print("mismatch step2", old_g.__name__, repr(a[1]), c, d)

# non-str inputs
for v in (None, b"http://a/", 1, ("http", "a", "/", "", "")):
    for old_f, new_f in ((orig_iri_to_uri, new.iri_to_uri), (orig_uri_to_iri, new.uri_to_iri)):
        a = run(old_f, v)
        b = run(new_f, v)
        n += 1
        if a != b:
            bad += 1
            print("mismatch non-str", old_f.__name__, repr(v), a, b)

print(f"{n} comparisons ({excs} first-step inputs raised), {bad} mismatches")
print("PASS" if bad == 0 else "FAIL")
