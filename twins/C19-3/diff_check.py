"""Differential check for refactoring 3 (WSGIRequestHandler.run_wsgi: write /
start_response / execute / error handling).

Run: cd /tmp/wt3-C19 && PYTHONPATH=/tmp/wt3-C19/src /venv/bin/python /tmp/twin-C19/3/diff_check.py

Drives the refactored ``WSGIRequestHandler.run_wsgi`` from the worktree and a
pasted copy of the ORIGINAL function with identical, randomly generated
(request, application behaviour, transport behaviour) triples and compares

  * every individual ``wfile.write`` call (bytes) and ``flush`` call, in order,
  * the exception (type, message) escaping run_wsgi, if any,
  * ``close_connection``, connection_dropped notifications, log records,
  * application iterator close() calls, and how far the request stream was drained.

Prints PASS only if all of these are identical for every generated case.
The only adaptation of the pasted original is the function-local relative import
``from .debug.tbtools import DebugTraceback`` -> ``from werkzeug.debug.tbtools ...``.
"""

from __future__ import annotations

import http.client
import io
import random
import selectors as real_selectors
import socket
import sys

from werkzeug import serving
from werkzeug.exceptions import InternalServerError
from werkzeug.serving import WSGIRequestHandler
from werkzeug.serving import connection_dropped_errors


# --------------------------------------------------------------------------
# selector shim shared by the original and the refactored code: the finally
# block of execute() polls the connection with a 10ms timeout; a scripted fake
# is used for most cases (fast, lets us exercise the drain loop), the real
# selectors module with a real socket pair for the rest.
# --------------------------------------------------------------------------
class FakeSelector:
    script: list[bool] = []
    log: list = []

    def __init__(self) -> None:
        self._script = list(FakeSelector.script)
        FakeSelector.log.append("new")

    def register(self, fileobj, events):
        FakeSelector.log.append(("register", events))

    def select(self, timeout=None):
        FakeSelector.log.append(("select", timeout))
        if self._script:
            return [object()] if self._script.pop(0) else []
        return []

    def close(self):
        FakeSelector.log.append("close")


class SelectorsShim:
    EVENT_READ = real_selectors.EVENT_READ
    use_real = False

    def DefaultSelector(self):  # noqa: N802
        if SelectorsShim.use_real:
            return real_selectors.DefaultSelector()
        return FakeSelector()


selectors = SelectorsShim()  # used by orig_run_wsgi below
serving.selectors = selectors  # used by the refactored code


# --------------------------------------------------------------------------
# ORIGINAL implementation (copy from the unmodified tree)
# --------------------------------------------------------------------------
def orig_run_wsgi(self) -> None:
    if self.headers.get("Expect", "").lower().strip() == "100-continue":
        self.wfile.write(b"HTTP/1.1 100 Continue\r\n\r\n")

    self.environ = environ = self.make_environ()
    status_set: str | None = None
    headers_set: list[tuple[str, str]] | None = None
    status_sent: str | None = None
    headers_sent: list[tuple[str, str]] | None = None
    chunk_response: bool = False

    def write(data: bytes) -> None:
        nonlocal status_sent, headers_sent, chunk_response
        assert status_set is not None, "write() before start_response"
        assert headers_set is not None, "write() before start_response"
        if status_sent is None:
            status_sent = status_set
            headers_sent = headers_set
            try:
                code_str, msg = status_sent.split(None, 1)
            except ValueError:
                code_str, msg = status_sent, ""
            code = int(code_str)
            self.send_response(code, msg)
            header_keys = set()
            for key, value in headers_sent:
                self.send_header(key, value)
                header_keys.add(key.lower())

            # Use chunked transfer encoding if there is no content
            # length. Do not use for 1xx and 204 responses. 304
            # responses and HEAD requests are also excluded, which
            # is the more conservative behavior and matches other
            # parts of the code.
            # https://httpwg.org/specs/rfc7230.html#rfc.section.3.3.1
            if (
                not (
                    "content-length" in header_keys
                    or environ["REQUEST_METHOD"] == "HEAD"
                    or (100 <= code < 200)
                    or code in {204, 304}
                )
                and self.protocol_version >= "HTTP/1.1"
            ):
                chunk_response = True
                self.send_header("Transfer-Encoding", "chunked")

            # Always close the connection. This disables HTTP/1.1
            # keep-alive connections. They aren't handled well by
            # Python's http.server because it doesn't know how to
            # drain the stream before the next request line.
            self.send_header("Connection", "close")
            self.end_headers()

        assert isinstance(data, bytes), "applications must write bytes"

        if data:
            if chunk_response:
                self.wfile.write(hex(len(data))[2:].encode())
                self.wfile.write(b"\r\n")

            self.wfile.write(data)

            if chunk_response:
                self.wfile.write(b"\r\n")

        self.wfile.flush()

    def start_response(status, headers, exc_info=None):  # type: ignore
        nonlocal status_set, headers_set
        if exc_info:
            try:
                if headers_sent:
                    raise exc_info[1].with_traceback(exc_info[2])
            finally:
                exc_info = None
        elif headers_set:
            raise AssertionError("Headers already set")
        status_set = status
        headers_set = headers
        return write

    def execute(app) -> None:
        application_iter = app(environ, start_response)
        try:
            for data in application_iter:
                write(data)
            if not headers_sent:
                write(b"")
            if chunk_response:
                self.wfile.write(b"0\r\n\r\n")
        finally:
            # Check for any remaining data in the read socket, and discard it. This
            # will read past request.max_content_length, but lets the client see a
            # 413 response instead of a connection reset failure. If we supported
            # keep-alive connections, this naive approach would break by reading the
            # next request line. Since we know that write (above) closes every
            # connection we can read everything.
            selector = selectors.DefaultSelector()
            selector.register(self.connection, selectors.EVENT_READ)
            total_size = 0
            total_reads = 0

            # A timeout of 0 tends to fail because a client needs a small amount of
            # time to continue sending its data.
            while selector.select(timeout=0.01):
                # Only read 10MB into memory at a time.
                data = self.rfile.read(10_000_000)
                total_size += len(data)
                total_reads += 1

                # Stop reading on no data, >=10GB, or 1000 reads. If a client sends
                # more than that, they'll get a connection reset failure.
                if not data or total_size >= 10_000_000_000 or total_reads > 1000:
                    break

            selector.close()

            if hasattr(application_iter, "close"):
                application_iter.close()

    try:
        execute(self.server.app)
    except connection_dropped_errors as e:
        self.connection_dropped(e, environ)
    except Exception as e:
        if self.server.passthrough_errors:
            raise

        if status_sent is not None and chunk_response:
            self.close_connection = True

        try:
            # if we haven't yet sent the headers but they are set
            # we roll back to be able to set them again.
            if status_sent is None:
                status_set = None
                headers_set = None
            execute(InternalServerError())
        except Exception:
            pass

        from werkzeug.debug.tbtools import DebugTraceback

        msg = DebugTraceback(e).render_traceback_text()
        self.server.log("error", f"Error on request:\n{msg}")


# --------------------------------------------------------------------------
# fakes
# --------------------------------------------------------------------------
class Handler(WSGIRequestHandler):
    """Real handler class (refactored run_wsgi inherited) with deterministic
    date strings and captured logging."""

    def date_time_string(self, timestamp=None):
        return "Thu, 01 Jan 1970 00:00:00 GMT"

    def log_date_time_string(self):
        return "01/Jan/1970 00:00:00"

    def log(self, type, message, *args):
        self.events.append(("handler-log", type, message % args if args else message))

    def connection_dropped(self, error, environ=None):
        self.events.append(
            ("connection_dropped", type(error).__name__, str(error), environ is self.environ)
        )


class FakeServer:
    ssl_context = None
    multithread = False
    multiprocess = False
    server_address = ("127.0.0.1", 5000)
    _server_version = "Werkzeug/test"

    def __init__(self, app, passthrough_errors, events):
        self.app = app
        self.passthrough_errors = passthrough_errors
        self.events = events

    def log(self, type, message, *args):
        # The rendered traceback contains file names / line numbers of the
        # frames of run_wsgi itself, which legitimately differ between the
        # pasted copy and the worktree. Keep first line and the final
        # "ExcType: message" line only.
        lines = message.rstrip("\n").split("\n")
        self.events.append(("server-log", type, lines[0], lines[-1]))


class RecordingWFile:
    def __init__(self, events, fail_at, fail_exc):
        self.events = events
        self.fail_at = fail_at
        self.fail_exc = fail_exc
        self.n = 0

    def write(self, data):
        self.n += 1
        if self.fail_at is not None and self.n >= self.fail_at:
            self.events.append(("write-fail", bytes(data)))
            raise self.fail_exc
        self.events.append(("write", bytes(data)))
        return len(data)

    def flush(self):
        self.events.append(("flush",))


class PlainConn:
    pass


# --------------------------------------------------------------------------
# application generator
# --------------------------------------------------------------------------
STATUSES = [
    "200 OK", "200 OK", "200 OK", "201 Created", "204 No Content", "304 Not Modified",
    "100 Continue", "101 Switching Protocols", "199 Whatever", "99 Low", "200", "204",
    "304", "404 Not Found", "500 Internal Server Error", "302 Found", "205 Reset Content",
    "200  Two  Spaces", " 200 OK", "200\tTab", "abc Def", "", "20x OK", "1000 Big",
    "-204 Neg", "+204 Plus", "2_04 Under", "204.0 Float",
]
HEADER_SETS = [
    [],
    [("Content-Type", "text/plain")],
    [("Content-Length", "5")],
    [("content-length", "3")],
    [("CONTENT-LENGTH", "0")],
    [("Content-Type", "text/html"), ("Content-Length", "11")],
    [("Content_Length", "5")],
    [("X-Content-Length", "5")],
    [("Transfer-Encoding", "chunked")],
    [("Connection", "keep-alive")],
    [("Connection", "close"), ("X-A", "1"), ("X-A", "2")],
    [("Set-Cookie", "a=b"), ("Set-Cookie", "c=d")],
    [("X-Latin", "\xe9")],
    [("Content-Length ", "5")],
    [("X", "y"), ("Content-Length", "1"), ("content-length", "2")],
]
BODIES = [
    [],
    [b""],
    [b"hello"],
    [b"hello", b" ", b"world"],
    [b"", b"a", b"", b"b"],
    [b"x" * 15, b"y" * 16, b"z" * 17],
    [b"\r\n", b"0\r\n\r\n"],
    [b"a" * 255, b"b" * 256, b"c" * 4096],
    [b"ok", "not-bytes"],
    ["str first"],
    [b"ok", None],
    [b"ok", bytearray(b"ba")],
]


class AppError(Exception):
    pass


def make_exc(name):
    return {
        "app": AppError("boom"),
        "value": ValueError("bad value"),
        "key": KeyError("k"),
        "assert": AssertionError("app assert"),
        "conn": ConnectionResetError("reset by peer"),
        "pipe": BrokenPipeError("pipe"),
        "timeout": socket.timeout("timed out"),
        "oserror": OSError("plain os error"),
    }[name]


EXC_NAMES = ["app", "value", "key", "assert", "conn", "pipe", "timeout", "oserror"]


def gen_app_spec(rng: random.Random) -> dict:
    return {
        "status": "200 OK" if rng.random() < 0.3 else rng.choice(
            STATUSES[:18] if rng.random() < 0.85 else STATUSES
        ),
        "headers": rng.choice(HEADER_SETS),
        "body": rng.choice(BODIES[:8] if rng.random() < 0.9 else BODIES),
        # behaviours
        "raise_before_start": rng.choice(EXC_NAMES) if rng.random() < 0.07 else None,
        "skip_start": rng.random() < 0.04,
        "raise_after_start": rng.choice(EXC_NAMES) if rng.random() < 0.07 else None,
        "raise_at_chunk": (rng.randrange(4), rng.choice(EXC_NAMES)) if rng.random() < 0.15 else None,
        "use_write_callable": rng.random() < 0.15,
        "second_start": None if rng.random() < 0.8 else rng.choice(["plain", "exc_info_early", "exc_info_late",
                                    "plain_late", "exc_info_empty"]),
        "return_list": rng.random() < 0.3,
        "has_close": rng.random() < 0.5,
        "close_raises": rng.choice(EXC_NAMES) if rng.random() < 0.05 else None,
        "mutate_method": rng.choice([None, None, None, None, "HEAD", "GET"]),
        "headers_as_tuple": rng.random() < 0.1,
    }


class AppIter:
    def __init__(self, gen, events, close_raises):
        self._gen = gen
        self._events = events
        self._close_raises = close_raises

    def __iter__(self):
        return self

    def __next__(self):
        return next(self._gen)

    def close(self):
        self._events.append(("app-close",))
        if self._close_raises:
            raise make_exc(self._close_raises)


def build_app(spec: dict, events: list):
    def app(environ, start_response):
        events.append(("app-called", environ["REQUEST_METHOD"], environ["PATH_INFO"]))
        if spec["mutate_method"]:
            environ["REQUEST_METHOD"] = spec["mutate_method"]
        if spec["raise_before_start"]:
            raise make_exc(spec["raise_before_start"])
        headers = list(spec["headers"])
        if spec["headers_as_tuple"]:
            headers = tuple(headers)
        write = None
        if not spec["skip_start"]:
            write = start_response(spec["status"], headers)
        second = spec["second_start"]
        if second == "plain":
            start_response("202 Accepted", [("X-Second", "1")])
        elif second == "exc_info_early":
            try:
                raise AppError("early")
            except AppError:
                write = start_response("500 Early", [("X-Early", "1")], sys.exc_info())
        elif second == "exc_info_empty":
            write = start_response("203 Empty", [("X-Empty", "1")], ())
        if spec["raise_after_start"]:
            raise make_exc(spec["raise_after_start"])

        def gen():
            for i, chunk in enumerate(spec["body"]):
                if spec["raise_at_chunk"] and spec["raise_at_chunk"][0] == i:
                    raise make_exc(spec["raise_at_chunk"][1])
                if spec["use_write_callable"] and write is not None and i == 0:
                    write(chunk)
                    continue
                yield chunk
                if second == "exc_info_late" and i == 0:
                    try:
                        raise AppError("late")
                    except AppError:
                        start_response("500 Late", [("X-Late", "1")], sys.exc_info())
                if second == "plain_late" and i == 0:
                    start_response("202 Late", [("X-Late", "1")])
            if spec["raise_at_chunk"] and spec["raise_at_chunk"][0] >= len(spec["body"]):
                raise make_exc(spec["raise_at_chunk"][1])

        if spec["return_list"] and not spec["raise_at_chunk"] and not spec["use_write_callable"] \
                and second not in ("exc_info_late", "plain_late"):
            return list(spec["body"])  # no close() attribute
        g = gen()
        if spec["has_close"]:
            return AppIter(g, events, spec["close_raises"])
        return g  # generators have close() as well

    return app


def gen_case(rng: random.Random) -> dict:
    expect = rng.choice([None, None, None, "100-continue", "100-Continue ", "other"])
    req_headers = [("Host", "localhost")]
    if expect:
        req_headers.append(("Expect", expect))
    if rng.random() < 0.2:
        req_headers.append(("Transfer-Encoding", "chunked"))
    return {
        "app": gen_app_spec(rng),
        "command": rng.choice(["GET", "GET", "POST", "HEAD", "HEAD", "PUT", "head", "OPTIONS"]),
        "path": rng.choice(["/", "/a%20b?x=1", "//host/p", "http://example.com/z"]),
        "request_version": rng.choice(["HTTP/1.1", "HTTP/1.1", "HTTP/1.0", "HTTP/0.9"]),
        "protocol_version": rng.choice(["HTTP/1.1", "HTTP/1.1", "HTTP/1.1", "HTTP/1.0", "HTTP/2.0", "HTTP/0.9"]),
        "req_headers": req_headers,
        "passthrough_errors": rng.random() < 0.15,
        "fail_at": rng.randrange(1, 12) if rng.random() < 0.12 else None,
        "fail_exc": rng.choice(["conn", "pipe", "timeout", "oserror", "value"]),
        "rfile_data": rng.choice([b"", b"leftover", b"x" * 1000]),
        "select_script": [rng.random() < 0.7 for _ in range(rng.randint(0, 4))],
        "real_socket": rng.random() < 0.02,
        "peer_sends": rng.choice([b"", b"abc", b"z" * 5000]),
    }


def run(fn, case: dict):
    events: list = []
    h = object.__new__(Handler)
    h.events = events
    h.server = FakeServer(build_app(case["app"], events), case["passthrough_errors"], events)
    h.client_address = ("127.0.0.1", 40000)
    h.command = case["command"]
    h.path = case["path"]
    h.request_version = case["request_version"]
    h.requestline = f"{case['command']} {case['path']} {case['request_version']}"
    h.protocol_version = case["protocol_version"]
    h.close_connection = "unset"
    raw = "".join(f"{k}: {v}\r\n" for k, v in case["req_headers"]).encode("latin-1") + b"\r\n"
    h.headers = http.client.parse_headers(io.BytesIO(raw))
    fail_exc = make_exc(case["fail_exc"]) if case["fail_at"] is not None else None
    h.wfile = RecordingWFile(events, case["fail_at"], fail_exc)

    peer = None
    SelectorsShim.use_real = case["real_socket"]
    FakeSelector.script = case["select_script"]
    FakeSelector.log = []
    if case["real_socket"]:
        conn, peer = socket.socketpair()
        peer.sendall(case["peer_sends"])
        peer.shutdown(socket.SHUT_WR)
        h.connection = conn
        h.rfile = conn.makefile("rb")
    else:
        h.connection = PlainConn()
        h.rfile = io.BytesIO(case["rfile_data"])

    try:
        fn(h)
        outcome = ("returned",)
    except BaseException as e:  # noqa: BLE001
        outcome = ("raised", type(e).__name__, str(e))
    finally:
        if peer is not None:
            leftover = h.rfile.read()
            h.rfile.close()
            h.connection.close()
            peer.close()
            pos = ("socket-leftover", len(leftover))
        else:
            pos = ("rfile-pos", h.rfile.tell())
    env = getattr(h, "environ", None)
    env_summary = None
    if env is not None:
        env_summary = (env.get("REQUEST_METHOD"), env.get("PATH_INFO"), type(env["wsgi.input"]).__name__,
                       sorted(k for k in env))
    return {
        "outcome": outcome,
        "events": events,
        "close_connection": h.close_connection,
        "pos": pos,
        "selector": list(FakeSelector.log),
        "environ": env_summary,
        "headers_buffer": list(getattr(h, "_headers_buffer", ())),
    }


def main() -> int:
    assert WSGIRequestHandler.run_wsgi is not orig_run_wsgi
    rng = random.Random(0xC19 + 3)
    n_cases = 12000
    mismatches = 0
    stats = {"chunked": 0, "content-length": 0, "error-500": 0, "dropped": 0, "raised": 0,
             "no-body-status": 0, "head": 0, "http10": 0, "terminator": 0}
    for i in range(n_cases):
        case = gen_case(rng)
        a = run(orig_run_wsgi, case)
        b = run(Handler.run_wsgi, case)
        if a != b:
            mismatches += 1
            if mismatches <= 5:
                print("MISMATCH case", i, case)
                for k in a:
                    if a[k] != b[k]:
                        print("  key", k)
                        print("   orig:", a[k])
                        print("   new :", b[k])
        sent = b"".join(e[1] for e in a["events"] if e[0] == "write")
        head = sent.split(b"\r\n\r\n", 1)[0].lower()
        if b"\r\ntransfer-encoding: chunked\r\nconnection: close" in head:
            stats["chunked"] += 1
        if b"content-length" in head:
            stats["content-length"] += 1
        if any(e[0] == "server-log" for e in a["events"]):
            stats["error-500"] += 1
        if any(e[0] == "connection_dropped" for e in a["events"]):
            stats["dropped"] += 1
        if a["outcome"][0] == "raised":
            stats["raised"] += 1
        if case["app"]["status"][:3] in ("204", "304", "100", "101", "199"):
            stats["no-body-status"] += 1
        if case["command"] == "HEAD":
            stats["head"] += 1
        if case["protocol_version"] < "HTTP/1.1":
            stats["http10"] += 1
        if ("write", b"0\r\n\r\n") in a["events"]:
            stats["terminator"] += 1
    print(f"cases={n_cases} stats={stats}")
    if "--show" in sys.argv:
        for ev in a["events"]:
            print("   ", ev)
    if mismatches:
        print(f"FAIL: {mismatches} mismatching cases")
        return 1
    print("PASS")
    return 0


if __name__ == "__main__":
    sys.exit(main())
