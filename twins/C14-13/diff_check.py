"""Differential check for refactoring 1 (safe_join: extracted
_is_unsafe_component helper, ``directory or "."``, renamed loop variable).

Compares werkzeug.security.safe_join from the worktree against a verbatim
copy of the original implementation, on exhaustive small combinations and
random inputs, under the native (posix) configuration and under a simulated
Windows configuration (alt seps = ["\\"], os.path.isabs = ntpath.isabs).
"""

import itertools
import ntpath
import os
import posixpath
import random
import sys

from werkzeug import security
from werkzeug.security import safe_join as new_safe_join

_os_alt_seps = list(security._os_alt_seps)


def orig_safe_join(directory, *pathnames):
    if not directory:
        # Ensure we end up with ./path if directory="" is given,
        # otherwise the first untrusted part could become trusted.
        directory = "."

    parts = [directory]

    for filename in pathnames:
        if filename != "":
            filename = posixpath.normpath(filename)

        if (
            any(sep in filename for sep in _os_alt_seps)
            or os.path.isabs(filename)
            # ntpath.isabs doesn't catch this on Python < 3.11
            or filename.startswith("/")
            or filename == ".."
            or filename.startswith("../")
        ):
            return None

        parts.append(filename)

    return posixpath.join(*parts)


def run(fn, args):
    try:
        return ("ok", fn(*args))
    except BaseException as e:  # noqa: B036
        return ("exc", type(e))


ATOMS = [
    "",
    ".",
    "..",
    "...",
    "/",
    "//",
    "\\",
    "a",
    "b.txt",
    "..a",
    "a..",
    "\x00",
    " ",
    "C:",
    "c:",
    "~",
    "\u00e9",
    "\n",
]
SEPS = ["", "/", "//", "\\", "/./", "/../"]
DIRS = ["", ".", "/", "/srv/static", "srv", "srv/", "..", "C:\\x", "a/../b", "\x00"]
ODD = [None, b"a", b"../a", 0, 1, ("a",), ["a"], 1.5]


def gen_exhaustive():
    segs = set()
    for n in (1, 2, 3):
        for atoms in itertools.product(ATOMS[:12], repeat=n):
            for sep in SEPS:
                segs.add(sep.join(atoms))
                if len(segs) > 20000:
                    break
    return sorted(segs)


def gen_random(rng, count):
    for _ in range(count):
        n = rng.randint(0, 6)
        s = ""
        for _ in range(n):
            s += rng.choice(ATOMS) + rng.choice(SEPS)
        if rng.random() < 0.3:
            s = rng.choice(["/", "\\", "../", "./", "C:\\", "C:/", "//"]) + s
        yield s


def cases():
    rng = random.Random(1414)
    segs = gen_exhaustive()
    for d in DIRS:
        yield (d,)
    # single segment, every directory for a sample, default dir for all
    for s in segs:
        yield ("/srv/static", s)
    for s in rng.sample(segs, 3000):
        yield (rng.choice(DIRS), s)
    # multi segment
    pool = list(gen_random(rng, 4000)) + ATOMS
    for _ in range(6000):
        k = rng.randint(0, 4)
        yield (rng.choice(DIRS), *[rng.choice(pool) for _ in range(k)])
    # non-str values in every position (exception type / early-return order)
    for odd in ODD:
        yield (odd,)
        yield (odd, "a")
        yield ("d", odd)
        yield ("d", "..", odd)
        yield ("d", odd, "..")
        yield ("d", "a", odd, "/x")
        yield ("", odd)


def compare(label):
    n = bad = 0
    for args in cases():
        n += 1
        a = run(orig_safe_join, args)
        b = run(new_safe_join, args)
        if a != b or type(a[1]) is not type(b[1]):
            bad += 1
            if bad <= 10:
                print(f"[{label}] MISMATCH {args!r}: orig={a!r} new={b!r}")
    print(f"[{label}] {n} cases, {bad} mismatches")
    return bad


def main():
    global _os_alt_seps
    bad = compare("native")

    # simulated Windows: backslash is an alternate separator and isabs is
    # the ntpath one. os.path is posixpath here, so patch it for both sides.
    saved_isabs = posixpath.isabs
    saved_seps = security._os_alt_seps
    try:
        posixpath.isabs = ntpath.isabs
        security._os_alt_seps = ["\\"]
        _os_alt_seps = ["\\"]
        bad += compare("simulated-nt")
    finally:
        posixpath.isabs = saved_isabs
        security._os_alt_seps = saved_seps
        _os_alt_seps = list(saved_seps)

    print("PASS" if bad == 0 else "FAIL")
    sys.exit(0 if bad == 0 else 1)


if __name__ == "__main__":
    main()
