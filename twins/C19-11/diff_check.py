"""Differential check for refactoring 2 (WSGIRequestHandler.make_environ).

Run: cd /tmp/wt10-C19 && PYTHONPATH=/tmp/wt10-C19/src /venv/bin/python /tmp/twin6-C19/2/diff_check.py
"""

from __future__ import annotations

import http.client
import io
import random
import sys
import typing as t
from urllib.parse import unquote
from urllib.parse import urlsplit

from werkzeug._internal import _wsgi_encoding_dance
from werkzeug.serving import DechunkedInput
from werkzeug.serving import ssl
from werkzeug.serving import WSGIRequestHandler


def orig_make_environ(self):  # verbatim copy from the unmodified tree
    request_url = urlsplit(self.path)
    url_scheme = "http" if self.server.ssl_context is None else "https"

    if not self.client_address:
        self.client_address = ("<local>", 0)
    elif isinstance(self.client_address, str):
        self.client_address = (self.client_address, 0)

    # If there was no scheme but the path started with two slashes,
    # the first segment may have been incorrectly parsed as the
    # netloc, prepend it to the path again.
    if not request_url.scheme and request_url.netloc:
        path_info = f"/{request_url.netloc}{request_url.path}"
    else:
        path_info = request_url.path

    path_info = unquote(path_info)

    environ = {
        "wsgi.version": (1, 0),
        "wsgi.url_scheme": url_scheme,
        "wsgi.input": self.rfile,
        "wsgi.errors": sys.stderr,
        "wsgi.multithread": self.server.multithread,
        "wsgi.multiprocess": self.server.multiprocess,
        "wsgi.run_once": False,
        "werkzeug.socket": self.connection,
        "SERVER_SOFTWARE": self.server_version,
        "REQUEST_METHOD": self.command,
        "SCRIPT_NAME": "",
        "PATH_INFO": _wsgi_encoding_dance(path_info),
        "QUERY_STRING": _wsgi_encoding_dance(request_url.query),
        # Non-standard, added by mod_wsgi, uWSGI
        "REQUEST_URI": _wsgi_encoding_dance(self.path),
        # Non-standard, added by gunicorn
        "RAW_URI": _wsgi_encoding_dance(self.path),
        "REMOTE_ADDR": self.address_string(),
        "REMOTE_PORT": self.port_integer(),
        "SERVER_NAME": self.server.server_address[0],
        "SERVER_PORT": str(self.server.server_address[1]),
        "SERVER_PROTOCOL": self.request_version,
    }

    for key, value in self.headers.items():
        if "_" in key:
            continue

        key = key.upper().replace("-", "_")
        value = value.replace("\r\n", "")
        if key not in ("CONTENT_TYPE", "CONTENT_LENGTH"):
            key = f"HTTP_{key}"
            if key in environ:
                value = f"{environ[key]},{value}"
        environ[key] = value

    if environ.get("HTTP_TRANSFER_ENCODING", "").strip().lower() == "chunked":
        environ["wsgi.input_terminated"] = True
        environ["wsgi.input"] = DechunkedInput(environ["wsgi.input"])

    # Per RFC 2616, if the URL is absolute, use that as the host.
    # We're using "has a scheme" to indicate an absolute URL.
    if request_url.scheme and request_url.netloc:
        environ["HTTP_HOST"] = request_url.netloc

    try:
        # binary_form=False gives nicer information, but wouldn't be compatible with
        # what Nginx or Apache could return.
        peer_cert = self.connection.getpeercert(binary_form=True)
        if peer_cert is not None:
            # Nginx and Apache use PEM format.
            environ["SSL_CLIENT_CERT"] = ssl.DER_cert_to_PEM_cert(peer_cert)
    except ValueError:
        # SSL handshake hasn't finished.
        self.server.log("error", "Cannot fetch SSL peer certificate info")
    except AttributeError:
        # Not using TLS, the socket will not have getpeercert().
        pass

    return environ


class OrigHandler(WSGIRequestHandler):
    make_environ = orig_make_environ


class FakeServer:
    def __init__(self, rng: random.Random) -> None:
        self.ssl_context = rng.choice([None, None, object()])
        self.multithread = rng.choice([True, False])
        self.multiprocess = rng.choice([True, False])
        self.server_address = rng.choice(
            [("127.0.0.1", 5000), ("::1", 80, 0, 0), ("unix:///tmp/x.sock", 0)]
        )
        self._server_version = "Werkzeug/x"
        self.logged: list[t.Any] = []

    def log(self, *args: t.Any) -> None:
        self.logged.append(args)


class PlainConn:
    pass


class TLSConn:
    def __init__(self, cert: t.Any) -> None:
        self.cert = cert

    def getpeercert(self, binary_form: bool = False) -> t.Any:
        assert binary_form is True
        if self.cert == "notready":
            raise ValueError("handshake not done")
        return self.cert


HEADER_NAMES = [
    "Host",
    "host",
    "Content-Type",
    "content-type",
    "CONTENT-LENGTH",
    "Content-Length",
    "Content_Length",
    "Content_Type",
    "Transfer-Encoding",
    "transfer-encoding",
    "Transfer_Encoding",
    "X-Forwarded-For",
    "x-forwarded-for",
    "X_Forwarded_For",
    "Accept",
    "Cookie",
    "X-A.b",
    "wsgi.input",
    "Wsgi.Input-Terminated",
    "Request-Method",
    "Path-Info",
    "Http-Host",
    "Expect",
    "X-\xe9",
    "Script-Name",
]
HEADER_VALUES = [
    "chunked",
    " Chunked ",
    "CHUNKED",
    "gzip, chunked",
    "chunked, gzip",
    "identity",
    "",
    "0",
    "12",
    "text/plain; charset=utf-8",
    "example.com",
    "a=b; c=d",
    "1.2.3.4, 5.6.7.8",
    "folded\r\n value",
    "folded\r\n\tmore\r\n and more",
    "caf\xe9",
    "x" * 50,
    "a,b",
]
PATHS = [
    "/",
    "",
    "*",
    "/a/b",
    "/a%20b",
    "/a%2Fb?x=%20y",
    "/%E2%9C%93",
    "/%ff%fe",
    "/caf\xe9",
    "/\u2713?q=\u2713",
    "//evil.example/x",
    "//evil.example",
    "///x",
    "//",
    "//a@b:1/c?d#e",
    "http://abs.example/path?q=1",
    "http://abs.example",
    "https://u:p@abs.example:8443/p%41th;params?q#frag",
    "http:///nohost",
    "http:/onlypath",
    "mailto:someone",
    "c:/windows",
    "?only=query",
    "/p?a=1&b=2?c",
    "/p#frag?notquery",
    "/a b",
    "/a%",
    "/a%zz",
    "//[::1]/x",
    "//[::1/x",
    "http://[bad/x",
    "/x?\xe9=%E9",
    "/;p",
    "/a/../b/./c",
    "\\\\host\\x",
    "/\t/x\n",
]
PATH_PIECES = ["/", "//", "a", "%41", "%2f", "?", "#", "x=1", "http:", ":", "@", "é", "%", "[", "]", "b.c", ";", "&"]


def gen_path(rng: random.Random) -> str:
    if rng.random() < 0.5:
        return rng.choice(PATHS)
    return "".join(rng.choice(PATH_PIECES) for _ in range(rng.randrange(0, 8)))


def gen_headers(rng: random.Random) -> bytes:
    lines = []
    for _ in range(rng.choice([0, 1, 2, 3, 5, 8, 12])):
        name = rng.choice(HEADER_NAMES)
        value = rng.choice(HEADER_VALUES)
        if rng.random() < 0.15:
            name = rng.choice(["Transfer-Encoding", "transfer-encoding"])
            value = rng.choice(HEADER_VALUES[:6])
        lines.append(f"{name}: {value}\r\n".encode("latin1", "replace"))
    return b"".join(lines) + b"\r\n"


def build(cls: type, case: dict[str, t.Any]) -> t.Any:
    h = cls.__new__(cls)
    rng = random.Random(case["seed"])
    h.server = FakeServer(rng)
    h.path = case["path"]
    h.command = case["command"]
    h.request_version = case["version"]
    h.client_address = case["client_address"]
    h.rfile = io.BytesIO(b"body")
    h.connection = case["conn"]
    h.headers = http.client.parse_headers(io.BytesIO(case["headers"]))
    if case["stale_environ"]:
        h.environ = {"REMOTE_ADDR": "9.9.9.9"}
    return h


def normalise(h: t.Any, environ: dict[str, t.Any]) -> list[t.Any]:
    out = []
    for key, value in environ.items():  # keeps insertion order on purpose
        if key == "wsgi.input":
            if isinstance(value, DechunkedInput):
                value = ("dechunked", value._rfile is h.rfile, value._len, value._done)
            else:
                value = ("raw", value is h.rfile)
        elif key == "werkzeug.socket":
            value = value is h.connection
        elif key == "wsgi.errors":
            value = value is sys.stderr
        out.append((key, type(value).__name__, value))
    return out


def run(cls: type, case: dict[str, t.Any]) -> t.Any:
    h = build(cls, case)
    try:
        environ = h.make_environ()
    except Exception as e:
        return ("exc", type(e), str(e), h.client_address, h.server.logged)
    return ("ok", normalise(h, environ), h.client_address, h.server.logged)


def main() -> None:
    rng = random.Random(19002)
    n_chunked = n_exc = 0
    total = 8000
    for i in range(total):
        conn_kind = rng.choice(["plain", "plain", "none", "cert", "notready"])
        if conn_kind == "plain":
            conn: t.Any = PlainConn()
        elif conn_kind == "none":
            conn = TLSConn(None)
        elif conn_kind == "cert":
            conn = TLSConn(bytes(rng.randrange(256) for _ in range(rng.randrange(80))))
        else:
            conn = TLSConn("notready")
        case = {
            "seed": i,
            "path": gen_path(rng),
            "command": rng.choice(["GET", "POST", "HEAD", "PUT", "OPTIONS", "get"]),
            "version": rng.choice(["HTTP/1.1", "HTTP/1.0", "HTTP/0.9"]),
            "client_address": rng.choice(
                [("10.0.0.1", 4321), ("::1", 99, 0, 0), "", "/tmp/sock", None, ()]
            ),
            "conn": conn,
            "headers": gen_headers(rng),
            "stale_environ": rng.random() < 0.1,
        }
        a = run(OrigHandler, case)
        b = run(WSGIRequestHandler, case)
        if a != b:
            print("FAIL", i, case)
            print(" orig:", a)
            print(" new: ", b)
            raise SystemExit(1)
        if a[0] == "exc":
            n_exc += 1
        elif any(k == "wsgi.input_terminated" for k, _, _ in a[1]):
            n_chunked += 1

    assert OrigHandler.make_environ is not WSGIRequestHandler.make_environ
    print(f"PASS ({total} cases, {n_chunked} chunked, {n_exc} raising)")


if __name__ == "__main__":
    main()
