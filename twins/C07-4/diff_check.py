"""Differential check: refactored werkzeug.http.parse_range_header vs. original copy."""
import itertools
import random

from werkzeug import datastructures as ds
from werkzeug._internal import _plain_int
from werkzeug.http import parse_range_header as new_impl


def old_impl(value, make_inclusive=True):
    if not value or "=" not in value:
        return None

    ranges = []
    last_end = 0
    units, rng = value.split("=", 1)
    units = units.strip().lower()

    for item in rng.split(","):
        item = item.strip()
        if "-" not in item:
            return None
        if item.startswith("-"):
            if last_end < 0:
                return None
            try:
                begin = _plain_int(item)
            except ValueError:
                return None
            end = None
            last_end = -1
        elif "-" in item:
            begin_str, end_str = item.split("-", 1)
            begin_str = begin_str.strip()
            end_str = end_str.strip()

            try:
                begin = _plain_int(begin_str)
            except ValueError:
                return None

            if begin < last_end or last_end < 0:
                return None
            if end_str:
                if end_str.startswith("-"):
                    # _plain_int accepts a sign, a position does not have one
                    return None

                try:
                    end = _plain_int(end_str) + 1
                except ValueError:
                    return None

                if begin >= end:
                    return None
            else:
                end = None
            last_end = end if end is not None else -1
        ranges.append((begin, end))

    return ds.Range(units, ranges)


def run(f, v):
    try:
        r = f(v)
    except BaseException as e:  # noqa: B036
        return ("EXC", type(e).__name__, str(e))
    if r is None:
        return None
    return ("Range", r.units, list(r.ranges), type(r).__name__)


ATOMS = [
    "", " ", "\t", "-", "--", "0", "1", "5", "9", "10", "99", "100", "-1", "-0",
    "+1", "1_0", "١", "²", "x", "=", ",", "bytes", "Bytes ", " items",
    "\xa0", " ", "0x1", "1e3", "1.0", "\x00", "\n", "\r",
]
UNITS = ["bytes", "BYTES", " bytes ", "", "items", "by=tes", "K", "b\xe9"]


def gen_items(rng):
    kind = rng.random()
    if kind < 0.5:
        a = rng.choice(["", "0", "1", "5", "10", "50", "100", "-3", " 7 ", "+2", "x"])
        b = rng.choice(["", "0", "1", "5", "10", "50", "100", "-3", " 7 ", "+2", "x", "٣"])
        sep = rng.choice(["-", "-", "-", " - ", "--", ""])
        return a + sep + b
    if kind < 0.7:
        return rng.choice(["-", "- ", " -"]) + rng.choice(["1", "5", "500", "", " 3", "x", "-2"])
    return "".join(rng.choice(ATOMS) for _ in range(rng.randint(0, 4)))


def main():
    rng = random.Random(7007)
    inputs = [None, "", "=", "bytes", "bytes=", "bytes=0-", "bytes=-5", "bytes=0-0",
              "bytes=0-499,500-999", "bytes=500-,0-1", "bytes=-5,0-1", "bytes=0-1,-5",
              "bytes=-5,-6", "bytes=5-1", "bytes=0-1,1-2", "bytes=0-1,2-3", "a=b=0-1",
              "bytes=0-1,", "bytes=,0-1", "bytes= 0 - 1 , 3 - ", "bytes=--1", "bytes=-0",
              "bytes=1--1", "bytes=١-٢", "bytes=0-٢"]
    # exhaustive short strings over a small alphabet
    alpha = ["0", "1", "-", ",", " ", "="]
    for n in range(1, 6):
        for tup in itertools.product(alpha, repeat=n):
            inputs.append("b=" + "".join(tup))
            if n <= 4:
                inputs.append("".join(tup))
    for _ in range(30000):
        n = rng.randint(1, 4)
        body = rng.choice([",", ", ", " ,"]).join(gen_items(rng) for _ in range(n))
        inputs.append(rng.choice(UNITS) + rng.choice(["=", "=", " = ", ""]) + body)
    for _ in range(10000):
        inputs.append("".join(rng.choice(ATOMS) for _ in range(rng.randint(0, 8))))

    bad = 0
    some = 0
    for v in inputs:
        a, b = run(old_impl, v), run(new_impl, v)
        if a is not None:
            some += 1
        if a != b:
            bad += 1
            if bad <= 10:
                print("MISMATCH", repr(v), a, b)
    print(f"inputs={len(inputs)} non-None={some} mismatches={bad}")
    print("PASS" if bad == 0 else "FAIL")


if __name__ == "__main__":
    main()
