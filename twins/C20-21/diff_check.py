"""Differential check for refactoring 3 (DebuggedApplication.__call__ dispatch).

Run: cd /tmp/wt15-C20 && PYTHONPATH=/tmp/wt15-C20/src /venv/bin/python /tmp/twin10-C20/3/diff_check.py
"""
from __future__ import annotations

import io
import random
import re
import time
from collections import Counter

import werkzeug.debug as dbg
from werkzeug.debug import DebuggedApplication
from werkzeug.debug import hash_pin
from werkzeug.debug import PIN_TIME
from werkzeug.test import EnvironBuilder
from werkzeug.wrappers import Request

NOW = [1_700_000_000.5]
SLEEPS: list[float] = []


class _FakeTime:
    @staticmethod
    def time():
        return NOW[0]

    @staticmethod
    def sleep(x):
        SLEEPS.append(x)

    def __getattr__(self, name):
        return getattr(time, name)


dbg.time = _FakeTime()

CALLS: list[str] = []  # which gate methods were reached, per request


# ---- ORIGINAL implementation (copied from the unmodified tree) ----
class OrigApp(DebuggedApplication):
    def __call__(self, environ, start_response):
        request = Request(environ)
        response = self.debug_application
        if request.args.get("__debugger__") == "yes":
            cmd = request.args.get("cmd")
            arg = request.args.get("f")
            secret = request.args.get("s")
            frame = self.frames.get(request.args.get("frm", type=int))  # type: ignore
            if cmd == "resource" and arg:
                response = self.get_resource(request, arg)  # type: ignore
            elif cmd == "pinauth" and secret == self.secret:
                response = self.pin_auth(request)  # type: ignore
            elif cmd == "printpin" and secret == self.secret:
                response = self.log_pin_request(request)  # type: ignore
            elif (
                self.evalex
                and cmd is not None
                and frame is not None
                and self.secret == secret
                and self.check_pin_trust(environ)
            ):
                response = self.execute_command(request, cmd, frame)  # type: ignore
        elif (
            self.evalex
            and self.console_path is not None
            and request.path == self.console_path
        ):
            response = self.display_console(request)  # type: ignore
        return response(environ, start_response)


class NewApp(DebuggedApplication):
    pass  # uses the refactored __call__ from the worktree


def _trace(cls):
    for name in (
        "get_resource", "pin_auth", "log_pin_request", "execute_command",
        "display_console", "check_pin_trust", "check_host_trust",
        "debug_application",
    ):
        base = getattr(DebuggedApplication, name)

        def wrapper(self, *a, __base=base, __name=name, **kw):
            CALLS.append(__name)
            return __base(self, *a, **kw)

        setattr(cls, name, wrapper)


_trace(OrigApp)
_trace(NewApp)


def wsgi_app(environ, start_response):
    if environ.get("PATH_INFO") == "/boom":
        raise RuntimeError("boom")
    start_response("200 OK", [("Content-Type", "text/plain")])
    return [b"ok"]


PIN = "123-456-789"
COOKIE = "__wzdtest"
SECRET = "s3cr3t"
GOOD = hash_pin(PIN)
rng = random.Random(3020)


def make(cls, evalex, pin, console_path):
    app = cls(wsgi_app, evalex=evalex, pin_logging=False, console_path=console_path)
    app._pin = pin
    app._pin_cookie = COOKIE
    app.secret = SECRET
    return app


def environ_for(path, query, host, cookie):
    headers = {}
    if cookie is not None:
        headers["Cookie"] = f"{COOKIE}={cookie}"
    env = EnvironBuilder(path=path, query_string=query, headers=headers).get_environ()
    env["wsgi.errors"] = io.StringIO()
    if host is None:
        env.pop("HTTP_HOST", None)
    else:
        env["HTTP_HOST"] = host
    return env


_ID = re.compile(rb"(id=\"frame-|frm=|frame-)\d+|0x[0-9a-f]+|traceback-\d+|\"traceback_id\": \d+|TRACEBACK = \d+")


def call(app, env):
    SLEEPS.clear()
    CALLS.clear()
    cap = {}

    def sr(status, headers, exc_info=None):
        cap["status"] = status
        cap["headers"] = sorted(headers)

    try:
        it = app(env, sr)
        body = b"".join(it)
        if hasattr(it, "close"):
            it.close()
    except BaseException as e:  # noqa: BLE001
        return ("exc", type(e), str(e), list(CALLS))
    # frame/traceback ids are id()s of per-app objects, mask them
    body = _ID.sub(b"<id>", body)
    headers = [
        (k, v) for k, v in cap.get("headers", []) if k.lower() != "content-length"
    ]
    return (cap.get("status"), headers, body, list(SLEEPS), list(CALLS),
            app._failed_pin_auth.value, sorted(k for k in app.frames if k == 0))


now_i = int(NOW[0])
HOSTS = ["localhost"] * 8 + ["127.0.0.1", "localhost:5000",
         "a.localhost", "evil.com", "notlocalhost", "127.0.0.1.evil.com",
         "127.0.0.10", "[::1]", "", None, "xlocalhost", "localhost.evil.com"]
COOKIES = [None, None, f"{now_i}|{GOOD}", f"{now_i}|{GOOD}",
           f"{now_i - PIN_TIME - 5}|{GOOD}", f"{now_i}|deadbeefdead", "junk",
           f"abc|{GOOD}", "|"]
CMDS = [None, "resource", "pinauth", "printpin", "1+1", "app", "x = 5", "x",
        "import os", "", "pinauth ", "RESOURCE", "dump()", "raise ValueError('v')"]
SECRETS = [SECRET] * 8 + [None, "", "bad", SECRET.upper(), SECRET + " "]
FRMS = [None] + ["0"] * 8 + ["1", "-1", "abc", "00", " 0", "0.0", "+0"]
FILES = [None, "", "style.css", "debugger.js", "../__init__.py", "nope.txt", "console.png"]
PINS = [None, PIN, "123456789", "000-000-000", "", " 123-456-789 "]
PATHS = ["/", "/console", "/console", "/console/", "/Console", "/x", "/boom",
         "/altconsole"]
DBG = ["yes"] * 12 + [None, None, "no", "YES", "yes ", ""]

n = bad = 0
stats = Counter()

for seq in range(400):
    evalex = rng.random() < 0.8
    pin = PIN if rng.random() < 0.75 else None
    console_path = rng.choice(["/console", "/console", "/altconsole", None])
    orig = make(OrigApp, evalex, pin, console_path)
    new = make(NewApp, evalex, pin, console_path)
    if rng.random() < 0.5:
        orig.trusted_hosts = new.trusted_hosts = [".localhost", "127.0.0.1", "[::1]"]
    for step in range(30):
        q = {}
        d = rng.choice(DBG)
        if d is not None:
            q["__debugger__"] = d
        cmd = rng.choice(CMDS)
        if cmd is not None:
            q["cmd"] = cmd
        s = rng.choice(SECRETS)
        if s is not None:
            q["s"] = s
        frm = rng.choice(FRMS)
        if frm is not None:
            q["frm"] = frm
        f = rng.choice(FILES)
        if f is not None:
            q["f"] = f
        p = rng.choice(PINS)
        if p is not None:
            q["pin"] = p
        path = rng.choice(PATHS)
        if d is None and rng.random() < 0.6:
            path = "/console"
        host = rng.choice(HOSTS)
        cookie = rng.choice(COOKIES)
        a = call(orig, environ_for(path, q, host, cookie))
        b = call(new, environ_for(path, q, host, cookie))
        n += 1
        stats[(a[0], tuple(c for c in (a[4] if a[0] != "exc" else a[3])
                           if c not in ("check_pin_trust", "check_host_trust")))] += 1
        if a != b:
            bad += 1
            print("MISMATCH", seq, step, path, q, repr(host), repr(cookie))
            print("   orig:", a[:2], a[3:])
            print("   new :", b[:2], b[3:])

for k, v in sorted(stats.items(), key=lambda kv: -kv[1]):
    print(f"  {v:6d}  {k}")
print(f"{n} cases, {bad} mismatches")
print("PASS" if bad == 0 else "FAIL")
