"""Differential check for refactoring 2 (sansio.http.parse_cookie and
_cookie_unslash_replace).

Compares the worktree's werkzeug.sansio.http.parse_cookie (and the WSGI-level
werkzeug.http.parse_cookie wrapper) against a pasted copy of the ORIGINAL
implementation, including raised exception types, on generated cookie headers
and on the output of dump_cookie for generated values.
"""

from __future__ import annotations

import random
import re
import sys
import warnings

import werkzeug.sansio.http as sh
from werkzeug import datastructures as ds
from werkzeug.http import dump_cookie
from werkzeug.http import parse_cookie as wsgi_parse_cookie

# ---------------------------------------------------------------- ORIGINAL
_cookie_re = re.compile(
    r"""
    ([^=;]*)
    (?:\s*=\s*
      (
        "(?:[^\\"]|\\.)*"
      |
        .*?
      )
    )?
    \s*;\s*
    """,
    flags=re.ASCII | re.VERBOSE,
)
_cookie_unslash_re = re.compile(rb"\\([0-3][0-7]{2}|.)")


def orig_cookie_unslash_replace(m):
    v = m.group(1)

    if len(v) == 1:
        return v

    return int(v, 8).to_bytes(1, "big")


def orig_parse_cookie(cookie=None, cls=None):
    if cls is None:
        cls = ds.MultiDict

    if not cookie:
        return cls()

    cookie = f"{cookie};"
    out = []

    for ck, cv in _cookie_re.findall(cookie):
        ck = ck.strip()
        cv = cv.strip()

        if not ck:
            continue

        if len(cv) >= 2 and cv[0] == cv[-1] == '"':
            cv = _cookie_unslash_re.sub(
                orig_cookie_unslash_replace, cv[1:-1].encode()
            ).decode(errors="replace")

        out.append((ck, cv))

    return cls(out)


def orig_wsgi_parse_cookie(header, cls=None):
    if isinstance(header, dict):
        cookie = header.get("HTTP_COOKIE")
    else:
        cookie = header

    if cookie:
        cookie = cookie.encode("latin1").decode(errors="replace")

    return orig_parse_cookie(cookie=cookie, cls=cls)


# ---------------------------------------------------------------- inputs
rng = random.Random(20213)

TOKENS = [
    "a",
    "b",
    "key",
    "v1",
    "=",
    "==",
    ";",
    "; ",
    " ;",
    ",",
    '"',
    '""',
    '"',
    "\\",
    "\\\\",
    '\\"',
    "\\073",
    "\\054",
    "\\042",
    "\\134",
    "\\000",
    "\\012",
    "\\377",
    "\\400",
    "\\38",
    "\\08",
    "\\1",
    "\\12",
    "\\303\\251",
    "\\342\\202\\254",
    "\\303",
    "\\n",
    "\\\n",
    " ",
    "  ",
    "\t",
    "\n",
    "\r\n",
    "\x0b",
    "\x0c",
    "\x1f",
    "\x00",
    "\x7f",
    "\x85",
    "\xa0",
    "é",
    "€",
    "\U0001f36a",
    " ",
    " ",
    "\udc80",
    "%20",
    "x=y",
    '"a;b"',
    '"a\\"b"',
    '"unterminated',
    'unstarted"',
]


def rand_header():
    n = rng.randrange(0, 14)
    return "".join(rng.choice(TOKENS) for _ in range(n))


def rand_value(maxlen=16):
    out = []
    for _ in range(rng.randrange(0, maxlen)):
        r = rng.random()
        if r < 0.35:
            out.append(rng.choice("abcXYZ019_"))
        elif r < 0.7:
            out.append(rng.choice('";,\\ \t\r\n\x00\x1f\x7f=%'))
        elif r < 0.85:
            out.append(chr(rng.randrange(0, 0x100)))
        else:
            out.append(chr(rng.choice([*range(0x100, 0xD800), *range(0xE000, 0x11000)])))
    return "".join(out)


def call(fn, *args, **kw):
    try:
        rv = fn(*args, **kw)
        return ("ok", type(rv), list(rv.items(multi=True)))
    except BaseException as e:  # noqa: B036
        return ("exc", type(e))


def main():
    warnings.simplefilter("ignore")
    headers = [None, "", ";", "=", "a", "a=", "=b", 'a="', 'a=""', 'a="""', 'a="\\"']
    headers += [b"a=b", b"", 0, 5, ["a=b"]]

    # every octal escape, quoted and unquoted, and every single-char escape
    for i in range(0o1000):
        headers.append(f'k="\\{i:03o}"')
        headers.append(f"k=\\{i:03o}")
        headers.append(f'k="x\\{i:o}y"')
    for cp in range(0x180):
        headers.append(f'k="\\{chr(cp)}"')
        headers.append(f'k="{chr(cp)}"')
        headers.append(f"k={chr(cp)}")
        headers.append(f"{chr(cp)}=v")
        headers.append(f'k={chr(cp)}"v"{chr(cp)}; x=1')

    for _ in range(8000):
        headers.append(rand_header())

    # real dump_cookie output, alone and joined as a Cookie request header
    dumped = []
    for _ in range(3000):
        try:
            dumped.append(dump_cookie(rand_value(5) or "k", rand_value(), path=None))
        except UnicodeError:
            pass
    headers += dumped
    for _ in range(1500):
        headers.append("; ".join(rng.sample(dumped, rng.randrange(1, 5))))

    mismatches = 0
    total = 0

    def check(a, b, what):
        nonlocal mismatches, total
        total += 1
        if a != b:
            mismatches += 1
            if mismatches <= 10:
                print("MISMATCH", what, a, b, file=sys.stderr)

    for h in headers:
        check(call(orig_parse_cookie, h), call(sh.parse_cookie, h), ("sansio", h))
        check(
            call(orig_parse_cookie, h, cls=ds.ImmutableMultiDict),
            call(sh.parse_cookie, h, cls=ds.ImmutableMultiDict),
            ("sansio-cls", h),
        )
        check(
            call(orig_wsgi_parse_cookie, h),
            call(wsgi_parse_cookie, h),
            ("wsgi", h),
        )
        if isinstance(h, str):
            env = {"HTTP_COOKIE": h}
            check(
                call(orig_wsgi_parse_cookie, env),
                call(wsgi_parse_cookie, env),
                ("environ", h),
            )

    # the unslash callback directly, on every match the regex can produce
    for i in range(256):
        for data in (b"\\" + bytes([i]), b"\\%03o" % i, b"\\" + bytes([i]) + b"77"):
            m = _cookie_unslash_re.match(data)
            total += 1
            if m is None:
                if sh._cookie_unslash_re.match(data) is not None:
                    mismatches += 1
                continue
            if orig_cookie_unslash_replace(m) != sh._cookie_unslash_replace(m):
                mismatches += 1

    print(f"{total} comparisons, {mismatches} mismatches")
    print("PASS" if mismatches == 0 else "FAIL")
    return 0 if mismatches == 0 else 1


if __name__ == "__main__":
    sys.exit(main())
