"""Differential check for refactoring 2 (parse_range_header).

Run: cd /tmp/wt6-C06 && PYTHONPATH=/tmp/wt6-C06/src /venv/bin/python /tmp/twin4-C06/2/diff_check.py
"""
from __future__ import annotations

import itertools
import random

from werkzeug import datastructures as ds
from werkzeug import http
from werkzeug._internal import _plain_int


# ---- ORIGINAL implementation (copied from the unmodified tree) ----
def orig_parse_range_header(value, make_inclusive=True):
    if not value or "=" not in value:
        return None

    ranges = []
    last_end = 0
    units, rng = value.split("=", 1)
    units = units.strip().lower()

    for item in rng.split(","):
        item = item.strip()
        if "-" not in item:
            return None
        if item.startswith("-"):
            if last_end < 0:
                return None
            try:
                begin = _plain_int(item)
            except ValueError:
                return None
            end = None
            last_end = -1
        elif "-" in item:
            begin_str, end_str = item.split("-", 1)
            begin_str = begin_str.strip()
            end_str = end_str.strip()

            try:
                begin = _plain_int(begin_str)
            except ValueError:
                return None

            if begin < last_end or last_end < 0:
                return None
            if end_str:
                if end_str.startswith("-"):
                    # _plain_int accepts a sign, a position does not have one
                    return None

                try:
                    end = _plain_int(end_str) + 1
                except ValueError:
                    return None

                if begin >= end:
                    return None
            else:
                end = None
            last_end = end if end is not None else -1
        ranges.append((begin, end))

    return ds.Range(units, ranges)


def norm(fn, *args, **kwargs):
    try:
        rv = fn(*args, **kwargs)
    except BaseException as e:  # noqa: B036
        return ("exc", type(e))  # exception type only (messages name the str method)
    if rv is None:
        return ("none",)
    return ("range", type(rv), rv.units, list(rv.ranges), rv.to_header())


WS = ["", "", "", " ", "  ", "\t", "\n", "\x0b", " ", " "]
NUMS = [
    "0", "1", "2", "5", "9", "10", "99", "100", "499", "500", "999", "1000",
    "007", "00", "-0", "-1", "-5", "+1", "+0", "1_0", "1.0", "1e3", "0x10",
    "١٢", "１", "", " ", "a", "1a", "--1", "-", "1 2",
    "9" * 30, "9" * 5000, "18446744073709551616",
]
UNITS = ["bytes", "Bytes", "BYTES", " bytes ", "items", "", "by=tes", "b,c", "É"]


def ws(rng):
    return rng.choice(WS)


def rand_item(rng):
    r = rng.random()
    if r < 0.45:
        a = rng.randint(0, 1200)
        b = a + rng.randint(-3, 400)
        return f"{ws(rng)}{a}{ws(rng)}-{ws(rng)}{b}{ws(rng)}"
    if r < 0.6:
        return f"{ws(rng)}{rng.randint(0, 1200)}{ws(rng)}-{ws(rng)}"
    if r < 0.72:
        return f"{ws(rng)}-{ws(rng)}{rng.randint(0, 1200)}{ws(rng)}"
    if r < 0.9:
        return f"{ws(rng)}{rng.choice(NUMS)}{ws(rng)}-{ws(rng)}{rng.choice(NUMS)}{ws(rng)}"
    if r < 0.94:
        return rng.choice(NUMS)
    return "".join(rng.choice("0123456789-,= \tab") for _ in range(rng.randint(0, 8)))


def rand_sorted_spec(rng):
    # ascending, non-overlapping (mostly) ranges -> exercises the last_end logic
    pos = rng.randint(0, 5)
    items = []
    for _ in range(rng.randint(1, 5)):
        a = pos + rng.randint(-1, 20)
        a = max(a, 0)
        r = rng.random()
        if r < 0.15:
            items.append(f"{a}-")
        elif r < 0.25:
            items.append(f"-{rng.randint(0, 50)}")
        else:
            b = a + rng.randint(0, 30)
            items.append(f"{a}{ws(rng)}-{ws(rng)}{b}")
            pos = b + 1
    return ",".join(ws(rng) + i + ws(rng) for i in items)


def main():
    rng = random.Random(60602)
    n = bad = 0

    def check(value, **kw):
        nonlocal n, bad
        a = norm(orig_parse_range_header, value, **kw)
        b = norm(http.parse_range_header, value, **kw)
        n += 1
        if a != b:
            bad += 1
            print("MISMATCH", repr(value)[:120], a[:4], b[:4])

    # fixed / degenerate inputs, including out-of-domain types
    fixed = [
        None, "", " ", "=", "==", "bytes", "bytes=", "bytes= ", "bytes=-", "bytes=--",
        "bytes=,", "bytes=0-,", "bytes=,0-", "bytes=0-0", "bytes=0-0,0-0", "bytes=0-1,1-2",
        "bytes=0-1,2-3", "bytes=-5,0-1", "bytes=0-,5-6", "bytes=0-,-5", "bytes=-5,-6",
        "bytes=5-,6-", "bytes=1-0", "bytes=-0", "bytes=0--1", "bytes=0- -1", "bytes=-1-2",
        "bytes=- 5", "bytes=-\t5", "bytes= - 5", "a=b=c", "bytes=0-1=2", "=0-1",
        "bytes=0-499", "bytes=500-999", "bytes=-500", "bytes=9500-", "bytes=0-0,-1",
        "bytes=500-600,601-999", "bytes=500-700,601-999", "awesome=0-999",
        0, 5, b"bytes=0-1", b"", ["bytes=0-1"], ["="], {"=": 1}, ("a",), 1.5, True, object(),
    ]
    for v in fixed:
        check(v)
        check(v, make_inclusive=False)

    # exhaustive small products of number tokens
    for u, a, b in itertools.product(["bytes", " X "], NUMS, NUMS):
        check(f"{u}={a}-{b}")
    for a in NUMS:
        check(f"bytes={a}")
        check(f"bytes={a}-")
        check(f"bytes=-{a}")
        check(f"bytes=0-1,{a}")
        check(f"bytes=0-,{a}-")
        check(f"bytes=-3,{a}-9")

    # random single / multi item values
    for _ in range(12000):
        k = rng.choice([1, 1, 1, 2, 2, 3, 4])
        spec = ",".join(rand_item(rng) for _ in range(k))
        units = rng.choice(UNITS)
        sep = rng.choice(["=", "=", "=", " = ", "==", ""])
        check(f"{units}{sep}{spec}")

    for _ in range(8000):
        check(f"{rng.choice(UNITS)}={rand_sorted_spec(rng)}")

    # the C06 round trip: valid Range -> to_header -> parse gives the same value with
    # both implementations, and parsing is a normal form
    for _ in range(4000):
        ranges = []
        pos = 0
        for _ in range(rng.randint(1, 4)):
            a = pos + rng.randint(0, 30)
            r = rng.random()
            if r < 0.15:
                ranges.append((a, None))
                break
            if r < 0.25:
                ranges.append((-rng.randint(1, 50), None))
                break
            b = a + rng.randint(1, 40)
            ranges.append((a, b))
            pos = b
        header = ds.Range(rng.choice(["bytes", "items"]), ranges).to_header()
        a = norm(orig_parse_range_header, header)
        b = norm(http.parse_range_header, header)
        n += 1
        if a != b or b[0] != "range" or b[3] != ranges or b[4] != header:
            bad += 1
            print("MISMATCH roundtrip", header, a[:4], b[:4])

    print(f"{n} comparisons, {bad} mismatches")
    print("PASS" if bad == 0 else "FAIL")


if __name__ == "__main__":
    main()
