"""Differential check for refactoring 3 (formparser.MultiPartParser.parse).

Run: cd /tmp/wt10-C02 && PYTHONPATH=/tmp/wt10-C02/src /venv/bin/python /tmp/twin6-C02/3/diff_check.py
"""
from __future__ import annotations

import random
import typing as t
from io import BytesIO

import werkzeug.formparser as formparser
from werkzeug.datastructures import FileStorage
from werkzeug.datastructures import Headers
from werkzeug.datastructures import MultiDict
from werkzeug.exceptions import RequestEntityTooLarge
from werkzeug.formparser import _chunk_iter
from werkzeug.formparser import MultiPartParser
from werkzeug.sansio.multipart import Data
from werkzeug.sansio.multipart import Epilogue
from werkzeug.sansio.multipart import Field
from werkzeug.sansio.multipart import File
from werkzeug.sansio.multipart import MultipartDecoder
from werkzeug.sansio.multipart import MultipartEncoder
from werkzeug.sansio.multipart import NeedData
from werkzeug.sansio.multipart import Preamble
from werkzeug.test import encode_multipart
from werkzeug.test import EnvironBuilder
from werkzeug.wrappers import Request


class OrigMultiPartParser(MultiPartParser):
    """Everything inherited from the worktree except ``parse``, which is a
    verbatim copy of the unmodified implementation."""

    def parse(
        self, stream: t.IO[bytes], boundary: bytes, content_length: int | None
    ) -> tuple[MultiDict[str, str], MultiDict[str, FileStorage]]:
        current_part: Field | File
        field_size: int | None = None
        container: t.IO[bytes] | list[bytes]
        _write: t.Callable[[bytes], t.Any]

        parser = MultipartDecoder(
            boundary,
            max_form_memory_size=self.max_form_memory_size,
            max_parts=self.max_form_parts,
        )

        fields = []
        files = []

        for data in _chunk_iter(stream.read, self.buffer_size):
            parser.receive_data(data)
            event = parser.next_event()
            while not isinstance(event, (Epilogue, NeedData)):
                if isinstance(event, Field):
                    current_part = event
                    field_size = 0
                    container = []
                    _write = container.append
                elif isinstance(event, File):
                    current_part = event
                    field_size = None
                    container = self.start_file_streaming(event, content_length)
                    _write = container.write
                elif isinstance(event, Data):
                    if self.max_form_memory_size is not None and field_size is not None:
                        # Ensure that accumulated data events do not exceed limit.
                        # Also checked within single event in MultipartDecoder.
                        field_size += len(event.data)

                        if field_size > self.max_form_memory_size:
                            raise RequestEntityTooLarge()

                    _write(event.data)
                    if not event.more_data:
                        if isinstance(current_part, Field):
                            value = b"".join(container).decode(
                                self.get_part_charset(current_part.headers), "replace"
                            )
                            fields.append((current_part.name, value))
                        else:
                            container = t.cast(t.IO[bytes], container)
                            container.seek(0)
                            files.append(
                                (
                                    current_part.name,
                                    FileStorage(
                                        container,
                                        current_part.filename,
                                        current_part.name,
                                        headers=current_part.headers,
                                    ),
                                )
                            )

                event = parser.next_event()

        return self.cls(fields), self.cls(files)


assert MultiPartParser.parse is not OrigMultiPartParser.parse
NewMultiPartParser = MultiPartParser

ALPHABETS = [
    "abcXYZ019 _-.",
    "äöüßéñ€",
    "日本語テキスト",
    "😀🎉",
    "\t ;=:,'%&+/",
]


def rand_text(rng: random.Random, nonempty: bool = False) -> str:
    n = rng.choice([1, 1, 2, 3, 5, 8, 12] if nonempty else [0, 1, 1, 2, 3, 5, 8, 12])
    alpha = "".join(rng.sample(ALPHABETS, rng.randint(1, 3)))
    return "".join(rng.choice(alpha) for _ in range(n))


def rand_value(rng: random.Random) -> str:
    k = rng.random()
    if k < 0.5:
        return rand_text(rng)
    pieces = ["", "\r", "\n", "\r\n", "--", "\x00", "é", "日本", "😀", "a" * 50, " "]
    return "".join(rng.choice(pieces) for _ in range(rng.randint(0, 6)))


def rand_boundary(rng: random.Random) -> str:
    n = rng.choice([1, 2, 5, 16, 40, 70])
    return "".join(
        chr(rng.choice(b"abcXYZ0123456789-_'()+,./:=?")) for _ in range(n)
    )


def rand_payload(rng: random.Random, boundary: bytes) -> bytes:
    pieces = [
        b"",
        b"\r",
        b"\n",
        b"\r\n",
        b"\r\n\r\n",
        b"--",
        b"----",
        b"--" + boundary[:-1],
        b"\r\n--" + boundary[:-1],
        b"\n--" + boundary[: len(boundary) // 2],
        bytes(rng.randrange(256) for _ in range(rng.randint(0, 30))),
        b"x" * rng.choice([1, 10, 100, 1000]),
        "ünïcödé 日本語".encode(),
        "latin-1 é".encode("latin-1"),
    ]
    return b"".join(rng.choice(pieces) for _ in range(rng.randint(0, 6)))


CONTENT_TYPES = [
    "text/plain",
    "text/plain; charset=utf-8",
    "text/plain; charset=iso-8859-1",
    "text/plain; charset=US-ASCII",
    "text/plain; charset=ascii",
    "text/plain; charset=utf-16",
    "text/plain; charset=bogus",
    "application/octet-stream",
    "",
    "image/png",
]


def rand_headers(rng: random.Random) -> Headers:
    h = Headers()
    if rng.random() < 0.6:
        h.add("Content-Type", rng.choice(CONTENT_TYPES))
    if rng.random() < 0.2:
        h.add("Content-Length", rng.choice(["12", "0", "abc", "-1", "+5", ""]))
    if rng.random() < 0.2:
        h.add("X-Custom", rng.choice(["a", "ünï", ""]))
    return h


def sansio_body(rng: random.Random, boundary: bytes) -> bytes:
    enc = MultipartEncoder(boundary)
    out = [enc.send_event(Preamble(data=rng.choice([b"", b"", b"pre", b"pre\r\n"])))]
    for _ in range(rng.randint(0, 6)):
        name = rand_text(rng)
        if rng.random() < 0.5:
            out.append(enc.send_event(Field(name=name, headers=rand_headers(rng))))
        else:
            out.append(
                enc.send_event(
                    File(name=name, filename=rand_text(rng), headers=rand_headers(rng))
                )
            )
        nchunks = rng.randint(1, 3)
        for i in range(nchunks):
            out.append(
                enc.send_event(
                    Data(data=rand_payload(rng, boundary), more_data=i < nchunks - 1)
                )
            )
    out.append(enc.send_event(Epilogue(data=rng.choice([b"", b"", b"epi", b"\r\n"]))))
    return b"".join(out)


def rand_form(rng: random.Random, boundary: bytes) -> MultiDict[str, t.Any]:
    md: MultiDict[str, t.Any] = MultiDict()
    keys = [rand_text(rng, nonempty=True) for _ in range(rng.randint(1, 4))]
    for _ in range(rng.randint(0, 7)):
        key = rng.choice(keys)
        if rng.random() < 0.5:
            md.add(key, rand_value(rng))
        else:
            fn = rand_text(rng, nonempty=True)
            ct = rng.choice([None, "text/plain", "application/x-custom; charset=utf-8"])
            md.add(
                key,
                FileStorage(
                    BytesIO(rand_payload(rng, boundary)),
                    filename=fn,
                    content_type=ct,
                ),
            )
    return md


def clone_form(md: MultiDict[str, t.Any]) -> MultiDict[str, t.Any]:
    out: MultiDict[str, t.Any] = MultiDict()
    for k, v in md.items(multi=True):
        if isinstance(v, FileStorage):
            pos = v.stream.tell()
            data = v.stream.read()
            v.stream.seek(pos)
            out.add(
                k,
                FileStorage(
                    BytesIO(data), filename=v.filename, content_type=v.content_type
                ),
            )
        else:
            out.add(k, v)
    return out


def mutate(rng: random.Random, body: bytes) -> bytes:
    b = bytearray(body)
    for _ in range(rng.randint(1, 4)):
        if not b:
            break
        k = rng.random()
        i = rng.randrange(len(b))
        if k < 0.3:
            del b[i : i + rng.randint(1, 6)]
        elif k < 0.6:
            b[i:i] = rng.choice([b"\r", b"\n", b"\r\n", b"--", b" ", b"\t", b"\x00"])
        elif k < 0.8:
            b[i] = rng.randrange(256)
        else:
            del b[i:]
    if rng.random() < 0.3:
        b = bytearray(bytes(b).replace(b"\r\n", rng.choice([b"\n", b"\r"])))
    return bytes(b)


def describe(result: t.Any) -> t.Any:
    form, files = result
    out_files = []
    for key, fs in files.items(multi=True):
        fs.stream.seek(0)
        out_files.append(
            (
                key,
                type(fs),
                fs.filename,
                fs.name,
                fs.content_type,
                fs.content_length,
                list(fs.headers),
                type(fs.stream).__name__,
                fs.stream.read(),
            )
        )
    return (type(form), list(form.items(multi=True)), type(files), out_files)


def run_parser(
    cls: type[MultiPartParser],
    body: bytes,
    boundary: bytes,
    content_length: int | None,
    **kwargs: t.Any,
) -> t.Any:
    stream = BytesIO(body)
    try:
        res = cls(**kwargs).parse(stream, boundary, content_length)
    except Exception as e:
        return ("exc", type(e), str(e), stream.tell())
    return ("ok", describe(res), stream.tell())


def run_request(cls: type[MultiPartParser], md: MultiDict[str, t.Any], qs: t.Any) -> t.Any:
    formparser.MultiPartParser = cls  # type: ignore[misc]
    try:
        builder = EnvironBuilder(method="POST", data=md, query_string=qs)
        try:
            env = builder.get_environ()
        finally:
            builder.close()
        req = Request(env)
        try:
            return (
                "ok",
                describe((req.form, req.files)),
                list(req.args.items(multi=True)),
                env.get("CONTENT_TYPE", "").split(";")[0],
            )
        except Exception as e:
            return ("exc", type(e), str(e))
    finally:
        formparser.MultiPartParser = NewMultiPartParser  # type: ignore[misc]


def main() -> None:
    rng = random.Random(20260304)
    mismatches = 0
    counts = {"sansio": 0, "encode_multipart": 0, "request": 0, "exc": 0}

    # 1. sans-io encoder bodies (valid and mutated), various parser settings
    for i in range(4000):
        boundary = rand_boundary(rng).encode()
        body = sansio_body(rng, boundary)
        if i % 3 == 2:
            body = mutate(rng, body)
        kwargs: dict[str, t.Any] = {
            "buffer_size": rng.choice([1, 2, 3, 7, 16, 64, 1024, 64 * 1024]),
            "max_form_memory_size": rng.choice([None, None, None, 20, 200, 2000]),
            "max_form_parts": rng.choice([None, None, 1, 3]),
        }
        cl = rng.choice([None, len(body), 0, 10**6])
        new = run_parser(NewMultiPartParser, body, boundary, cl, **kwargs)
        old = run_parser(OrigMultiPartParser, body, boundary, cl, **kwargs)
        counts["sansio"] += 1
        counts["exc"] += new[0] == "exc"
        if new != old:
            mismatches += 1
            if mismatches <= 5:
                print("SANSIO MISMATCH", boundary, body, kwargs, new, old)

    # 2. encode_multipart -> MultiPartParser
    for i in range(2000):
        bnd = rand_boundary(rng)
        md = rand_form(rng, bnd.encode())
        _, body = encode_multipart(clone_form(md), boundary=bnd)
        kwargs = {"buffer_size": rng.choice([1, 5, 33, 1024, 64 * 1024])}
        new = run_parser(NewMultiPartParser, body, bnd.encode(), len(body), **kwargs)
        old = run_parser(OrigMultiPartParser, body, bnd.encode(), len(body), **kwargs)
        counts["encode_multipart"] += 1
        counts["exc"] += new[0] == "exc"
        if new != old:
            mismatches += 1
            if mismatches <= 5:
                print("ENCODE_MULTIPART MISMATCH", bnd, body, new, old)

    # 3. EnvironBuilder -> Request.form / files / args
    for i in range(2000):
        md = rand_form(rng, b"---------------WerkzeugFormPart_")
        qs = [(rand_text(rng), rand_value(rng)) for _ in range(rng.randint(0, 4))]
        qs_md = MultiDict(qs)
        new = run_request(NewMultiPartParser, clone_form(md), qs_md)
        old = run_request(OrigMultiPartParser, clone_form(md), qs_md)
        counts["request"] += 1
        counts["exc"] += new[0] == "exc"
        if new != old:
            mismatches += 1
            if mismatches <= 5:
                print("REQUEST MISMATCH", list(md.items(multi=True)), qs, new, old)

    print(counts)
    print("PASS" if mismatches == 0 else f"FAIL ({mismatches} mismatches)")


if __name__ == "__main__":
    main()
