"""Differential check for refactoring 2 (MultipartDecoder.next_event / _parse_data).

Feeds identical byte streams, in identical random chunkings, to the
worktree's MultipartDecoder and to a pasted copy of the original
implementation and compares, after every next_event() call, the event (or
exception type), the decoder state, the remaining buffer and the search
position.
"""
from __future__ import annotations

import random
import re
import sys
import typing as t

from werkzeug.datastructures import Headers
from werkzeug.exceptions import RequestEntityTooLarge
from werkzeug.http import parse_options_header
from werkzeug.sansio.multipart import BLANK_LINE_RE
from werkzeug.sansio.multipart import Data
from werkzeug.sansio.multipart import Epilogue
from werkzeug.sansio.multipart import Event
from werkzeug.sansio.multipart import Field
from werkzeug.sansio.multipart import File
from werkzeug.sansio.multipart import HEADER_CONTINUATION_RE
from werkzeug.sansio.multipart import LINE_BREAK
from werkzeug.sansio.multipart import LINE_BREAK_RE
from werkzeug.sansio.multipart import MultipartDecoder
from werkzeug.sansio.multipart import MultipartEncoder
from werkzeug.sansio.multipart import NEED_DATA
from werkzeug.sansio.multipart import NeedData
from werkzeug.sansio.multipart import Preamble
from werkzeug.sansio.multipart import SEARCH_EXTRA_LENGTH
from werkzeug.sansio.multipart import State


# ---- verbatim copy of the original class (only renamed) -------------------
class OrigMultipartDecoder:
    """Decodes a multipart message as bytes into Python events.

    The part data is returned as available to allow the caller to save
    the data from memory to disk, if desired.
    """

    def __init__(
        self,
        boundary: bytes,
        max_form_memory_size: int | None = None,
        *,
        max_parts: int | None = None,
    ) -> None:
        self.buffer = bytearray()
        self.complete = False
        self.max_form_memory_size = max_form_memory_size
        self.max_parts = max_parts
        self.state = State.PREAMBLE
        self.boundary = boundary

        # Note in the below \h i.e. horizontal whitespace is used
        # as [^\S\n\r] as \h isn't supported in python.

        # The preamble must end with a boundary where the boundary is
        # prefixed by a line break, RFC2046. Except that many
        # implementations including Werkzeug's tests omit the line
        # break prefix. In addition the first boundary could be the
        # epilogue boundary (for empty form-data) hence the matching
        # group to understand if it is an epilogue boundary.
        self.preamble_re = re.compile(
            rb"%s?--%s(--[^\S\n\r]*%s?|[^\S\n\r]*%s)"
            % (LINE_BREAK, re.escape(boundary), LINE_BREAK, LINE_BREAK),
            re.MULTILINE,
        )
        # A boundary must include a line break prefix and suffix, and
        # may include trailing whitespace. In addition the boundary
        # could be the epilogue boundary hence the matching group to
        # understand if it is an epilogue boundary.
        self.boundary_re = re.compile(
            rb"%s--%s(--[^\S\n\r]*%s?|[^\S\n\r]*%s)"
            % (LINE_BREAK, re.escape(boundary), LINE_BREAK, LINE_BREAK),
            re.MULTILINE,
        )
        self._search_position = 0
        self._parts_decoded = 0

    def last_newline(self, data: bytes) -> int:
        try:
            last_nl = data.rindex(b"\n")
        except ValueError:
            last_nl = len(data)
        try:
            last_cr = data.rindex(b"\r")
        except ValueError:
            last_cr = len(data)

        return min(last_nl, last_cr)

    def receive_data(self, data: bytes | None) -> None:
        if data is None:
            self.complete = True
        elif (
            self.max_form_memory_size is not None
            and len(self.buffer) + len(data) > self.max_form_memory_size
        ):
            # Ensure that data within single event does not exceed limit.
            # Also checked across accumulated events in MultiPartParser.
            raise RequestEntityTooLarge()
        else:
            self.buffer.extend(data)

    def next_event(self) -> Event:
        event: Event = NEED_DATA

        if self.state == State.PREAMBLE:
            match = self.preamble_re.search(self.buffer, self._search_position)
            if match is not None:
                if match.group(1).startswith(b"--"):
                    self.state = State.EPILOGUE
                else:
                    self.state = State.PART
                data = bytes(self.buffer[: match.start()])
                del self.buffer[: match.end()]
                event = Preamble(data=data)
                self._search_position = 0
            else:
                # Update the search start position to be equal to the
                # current buffer length (already searched) minus a
                # safe buffer for part of the search target.
                self._search_position = max(
                    0, len(self.buffer) - len(self.boundary) - SEARCH_EXTRA_LENGTH
                )

        elif self.state == State.PART:
            match = BLANK_LINE_RE.search(self.buffer, self._search_position)
            if match is not None:
                headers = self._parse_headers(self.buffer[: match.start()])
                # The final header ends with a single CRLF, however a
                # blank line indicates the start of the
                # body. Therefore the end is after the first CRLF.
                headers_end = (match.start() + match.end()) // 2
                del self.buffer[:headers_end]

                if "content-disposition" not in headers:
                    raise ValueError("Missing Content-Disposition header")

                disposition, extra = parse_options_header(
                    headers["content-disposition"]
                )
                name = t.cast(str, extra.get("name"))
                filename = extra.get("filename")
                if filename is not None:
                    event = File(
                        filename=filename,
                        headers=headers,
                        name=name,
                    )
                else:
                    event = Field(
                        headers=headers,
                        name=name,
                    )
                self.state = State.DATA_START
                self._search_position = 0
                self._parts_decoded += 1

                if self.max_parts is not None and self._parts_decoded > self.max_parts:
                    raise RequestEntityTooLarge()
            else:
                # Update the search start position to be equal to the
                # current buffer length (already searched) minus a
                # safe buffer for part of the search target.
                self._search_position = max(0, len(self.buffer) - SEARCH_EXTRA_LENGTH)

        elif self.state == State.DATA_START:
            data, del_index, more_data = self._parse_data(self.buffer, start=True)
            del self.buffer[:del_index]
            event = Data(data=data, more_data=more_data)
            if more_data:
                self.state = State.DATA

        elif self.state == State.DATA:
            data, del_index, more_data = self._parse_data(self.buffer, start=False)
            del self.buffer[:del_index]
            if data or not more_data:
                event = Data(data=data, more_data=more_data)

        elif self.state == State.EPILOGUE and self.complete:
            event = Epilogue(data=bytes(self.buffer))
            del self.buffer[:]
            self.state = State.COMPLETE

        if self.complete and isinstance(event, NeedData):
            raise ValueError(f"Invalid form-data cannot parse beyond {self.state}")

        return event

    def _parse_headers(self, data: bytes) -> Headers:
        headers: list[tuple[str, str]] = []
        # Merge the continued headers into one line
        data = HEADER_CONTINUATION_RE.sub(b" ", data)
        # Now there is one header per line
        for line in data.splitlines():
            line = line.strip()

            if line != b"":
                name, _, value = line.decode().partition(":")
                headers.append((name.strip(), value.strip()))
        return Headers(headers)

    def _parse_data(self, data: bytes, *, start: bool) -> tuple[bytes, int, bool]:
        # Body parts must start with CRLF (or CR or LF)
        if start:
            match = LINE_BREAK_RE.match(data)
            data_start = t.cast(t.Match[bytes], match).end()
        else:
            data_start = 0

        boundary = b"--" + self.boundary

        if self.buffer.find(boundary) == -1:
            # No complete boundary in the buffer, but there may be
            # a partial boundary at the end. As the boundary
            # starts with either a nl or cr find the earliest and
            # return up to that as data.
            data_end = del_index = self.last_newline(data[data_start:]) + data_start
            # If amount of data after last newline is far from
            # possible length of partial boundary, we should
            # assume that there is no partial boundary in the buffer
            # and return all pending data.
            if (len(data) - data_end) > len(b"\n" + boundary):
                data_end = del_index = len(data)
            more_data = True
        else:
            match = self.boundary_re.search(data)
            if match is not None:
                if match.group(1).startswith(b"--"):
                    self.state = State.EPILOGUE
                else:
                    self.state = State.PART
                data_end = match.start()
                del_index = match.end()
            else:
                data_end = del_index = self.last_newline(data[data_start:]) + data_start
            more_data = match is None

        return bytes(data[data_start:data_end]), del_index, more_data


# ---------------------------------------------------------------------------

rng = random.Random(8020261003)

TEXT = "abcXYZ019 _-.;=:äöüß€中文\U0001f600\t'"


def rand_text() -> str:
    return "".join(rng.choice(TEXT) for _ in range(rng.choice([0, 1, 2, 5, 12])))


def rand_bytes(boundary: bytes) -> bytes:
    pieces = [
        b"",
        b"\r",
        b"\n",
        b"\r\n",
        b"\r\r",
        b"\n\n",
        b"--",
        b"-",
        boundary,
        b"--" + boundary,
        b"--" + boundary[:-1],
        b"\r\n--" + boundary[:-1],
        b"\r\n--" + boundary[: len(boundary) // 2],
        b"\n--" + boundary + b"x",
        b"\r\n--" + boundary + b"-",
        bytes(rng.randrange(256) for _ in range(rng.randrange(8))),
        b"x" * rng.randrange(60),
        b"y" * rng.randrange(300),
    ]
    return b"".join(rng.choice(pieces) for _ in range(rng.randrange(6)))


def rand_headers() -> Headers:
    h = Headers()
    for _ in range(rng.choice([0, 0, 1, 2])):
        h.add(
            rng.choice(["Content-Type", "X-Custom", "Content-Length"]),
            rng.choice(["text/plain", "text/plain; charset=utf-8", "5", ""]),
        )
    return h


def encoded_body(boundary: bytes) -> bytes:
    enc = MultipartEncoder(boundary)
    out = [enc.send_event(Preamble(data=rng.choice([b"", b"", b"pre\r\namble"])))]
    for _ in range(rng.randrange(5)):
        if rng.random() < 0.5:
            out.append(enc.send_event(Field(name=rand_text(), headers=rand_headers())))
        else:
            out.append(
                enc.send_event(
                    File(name=rand_text(), filename=rand_text(), headers=rand_headers())
                )
            )
        for _ in range(rng.randrange(3)):
            out.append(enc.send_event(Data(data=rand_bytes(boundary), more_data=True)))
        out.append(enc.send_event(Data(data=rand_bytes(boundary), more_data=False)))
    out.append(enc.send_event(Epilogue(data=rng.choice([b"", b"", b"epi\r\nlogue"]))))
    return b"".join(out)


def handwritten_body(boundary: bytes) -> bytes:
    """Bodies using the lenient syntax the decoder accepts (bare CR / LF line
    breaks, trailing whitespace after the boundary, missing headers, ...)."""
    nl = rng.choice([b"\r\n", b"\n", b"\r"])
    ws = rng.choice([b"", b"", b" ", b"\t "])
    out = [rng.choice([b"", b"junk", nl])]
    for _ in range(rng.randrange(4)):
        out.append(b"--" + boundary + ws + nl)
        r = rng.random()
        if r < 0.8:
            out.append(b'Content-Disposition: form-data; name="' + rand_text().encode())
            out.append(b'"')
            if rng.random() < 0.5:
                out.append(b'; filename="' + rand_text().encode() + b'"')
            out.append(nl)
            if rng.random() < 0.3:
                out.append(b"Content-Type: text/plain;" + nl + b" charset=utf-8" + nl)
        elif r < 0.9:
            out.append(b"X-Other: 1" + nl)
        out.append(nl)
        out.append(rand_bytes(boundary))
        out.append(nl)
    out.append(b"--" + boundary + rng.choice([b"--", b"--", b"", b"-"]) + ws)
    out.append(rng.choice([nl, b"", nl + b"epilogue"]))
    return b"".join(out)


def mutate(body: bytes) -> bytes:
    b = bytearray(body)
    for _ in range(rng.randrange(1, 4)):
        if not b:
            break
        i = rng.randrange(len(b))
        r = rng.random()
        if r < 0.4:
            del b[i : i + rng.randrange(1, 6)]
        elif r < 0.7:
            b[i:i] = rng.choice([b"\r", b"\n", b"--", b"\r\n", b"\x00"])
        else:
            b[i] = rng.randrange(256)
    return bytes(b)


def chunkings(body: bytes) -> list[bytes | None]:
    r = rng.random()
    chunks: list[bytes | None] = []
    if r < 0.2:
        chunks = [body]
    else:
        size_max = rng.choice([1, 2, 3, 7, 16, 64, 400])
        i = 0
        while i < len(body):
            n = rng.randrange(1, size_max + 1)
            chunks.append(body[i : i + n])
            i += n
    chunks.append(None)
    return chunks


def snapshot(dec: t.Any) -> tuple[t.Any, ...]:
    return (dec.state, bytes(dec.buffer), dec._search_position, dec._parts_decoded)


def ev_key(ev: t.Any) -> t.Any:
    if isinstance(ev, (Field, File)):
        return (type(ev), ev.name, getattr(ev, "filename", None), list(ev.headers))
    if isinstance(ev, NeedData):
        return NeedData
    return ev


def run(cls: t.Any, boundary: bytes, chunks: list[bytes | None], kw: dict[str, t.Any]):
    dec = cls(boundary, **kw)
    trace: list[t.Any] = []
    for chunk in chunks:
        try:
            dec.receive_data(chunk)
        except Exception as e:  # noqa: B902
            trace.append(("recv-err", type(e), snapshot(dec)))
            return trace
        # drain like MultiPartParser.parse does, but also poke past NeedData
        for _ in range(10000):
            try:
                ev = dec.next_event()
            except Exception as e:  # noqa: B902
                trace.append(("err", type(e), snapshot(dec)))
                return trace
            trace.append(("ev", ev_key(ev), snapshot(dec)))
            if isinstance(ev, (Epilogue, NeedData)):
                break
    return trace


def main() -> int:
    n = 0
    for i in range(8000):
        boundary = rng.choice(
            [b"b", b"bound", b"--x--", b"-" * 30 + b"Werkzeug_1.5", b"a.b+c", b"x" * 70]
        )
        r = rng.random()
        if r < 0.45:
            body = encoded_body(boundary)
        elif r < 0.8:
            body = handwritten_body(boundary)
        else:
            body = rand_bytes(boundary) + rand_bytes(boundary)
        if rng.random() < 0.3:
            body = mutate(body)
        kw: dict[str, t.Any] = {}
        if rng.random() < 0.15:
            kw["max_form_memory_size"] = rng.choice([10, 100, 1000])
        if rng.random() < 0.15:
            kw["max_parts"] = rng.choice([0, 1, 2])
        chunks = chunkings(body)
        a = run(MultipartDecoder, boundary, chunks, kw)
        b = run(OrigMultipartDecoder, boundary, chunks, kw)
        n += len(a)
        if a != b:
            print("MISMATCH", boundary, body, kw)
            for x, y in zip(a, b):
                if x != y:
                    print(" new:", x)
                    print(" old:", y)
                    break
            return 1
    print(f"PASS ({n} decoder steps compared over 8000 bodies)")
    return 0


if __name__ == "__main__":
    sys.exit(main())
