"""Differential check for refactoring 2 (LimitedStream.readinto).

Compares werkzeug.wsgi.LimitedStream from the worktree against a verbatim copy of the
ORIGINAL class on randomly generated underlying streams and call sequences.

Run: cd /tmp/wt12-C09 && PYTHONPATH=/tmp/wt12-C09/src /venv/bin/python <this file>
"""
from __future__ import annotations

import io
import random
import typing as t

from werkzeug import wsgi as new_wsgi
from werkzeug.exceptions import ClientDisconnected
from werkzeug.exceptions import RequestEntityTooLarge

assert new_wsgi.__file__.startswith("/tmp/wt12-C09/src/"), new_wsgi.__file__
NewLimitedStream = new_wsgi.LimitedStream


# ---------------------------------------------------------------- ORIGINAL copy
class OrigLimitedStream(io.RawIOBase):
    def __init__(self, stream: t.IO[bytes], limit: int, is_max: bool = False) -> None:
        self._stream = stream
        self._pos = 0
        self.limit = limit
        self._limit_is_max = is_max

    @property
    def is_exhausted(self) -> bool:
        return self._pos >= self.limit

    def on_exhausted(self) -> None:
        if self._limit_is_max:
            raise RequestEntityTooLarge()

    def on_disconnect(self, error: Exception | None = None) -> None:
        if not self._limit_is_max or error is not None:
            raise ClientDisconnected()

    def exhaust(self) -> bytes:
        if not self.is_exhausted:
            return self.readall()

        return b""

    def readinto(self, b: bytearray) -> int | None:  # type: ignore[override]
        size = len(b)
        remaining = self.limit - self._pos

        if remaining <= 0:
            self.on_exhausted()
            return 0

        if hasattr(self._stream, "readinto"):
            # Use stream.readinto if it's available.
            if size <= remaining:
                # The size fits in the remaining limit, use the buffer directly.
                try:
                    out_size: int | None = self._stream.readinto(b)
                except (OSError, ValueError) as e:
                    self.on_disconnect(error=e)
                    return 0
            else:
                # Use a temp buffer with the remaining limit as the size.
                temp_b = bytearray(remaining)

                try:
                    out_size = self._stream.readinto(temp_b)
                except (OSError, ValueError) as e:
                    self.on_disconnect(error=e)
                    return 0

                if out_size:
                    b[:out_size] = temp_b[:out_size]
        else:
            # WSGI requires that stream.read is available.
            try:
                data = self._stream.read(min(size, remaining))
            except (OSError, ValueError) as e:
                self.on_disconnect(error=e)
                return 0

            out_size = len(data)
            b[:out_size] = data

        if not out_size:
            # Read zero bytes from the stream.
            self.on_disconnect()
            return 0

        self._pos += out_size
        return out_size

    def readall(self) -> bytes:
        if self.is_exhausted:
            self.on_exhausted()
            return b""

        out = bytearray()

        # The parent implementation uses "while True", which results in an extra read.
        while not self.is_exhausted:
            data = self.read(1024 * 64)

            # Stream may return empty before a max limit is reached.
            if not data:
                break

            out.extend(data)

        return bytes(out)

    def tell(self) -> int:
        return self._pos

    def readable(self) -> bool:
        return True


# ---------------------------------------------------------------- underlying streams
class Boom(Exception):
    pass


ERRORS = {
    "oserror": OSError,
    "valueerror": ValueError,
    "connreset": ConnectionResetError,
    "timeout": TimeoutError,
    "unicode": UnicodeDecodeError,  # ValueError subclass, needs args
    "runtime": RuntimeError,
    "boom": Boom,
    "eof": EOFError,
}


def make_error(kind: str) -> Exception:
    if kind == "unicode":
        return UnicodeDecodeError("utf-8", b"x", 0, 1, "bad")
    return ERRORS[kind]("injected")


class Source:
    """Underlying wsgi.input: fragments its reads, optionally has readinto, can fail or
    return None / empty at a chosen call, and counts the bytes consumed from it."""

    def __init__(self, data, frags, with_readinto, fail_at, fail_kind, none_at, log):
        self.data = data
        self.pos = 0
        self.frags = frags
        self.calls = 0
        self.fail_at = fail_at
        self.fail_kind = fail_kind
        self.none_at = none_at
        self.log = log
        if with_readinto:
            self.readinto = self._readinto

    def _next_len(self, size: int) -> int:
        frag = self.frags[self.calls % len(self.frags)]
        self.calls += 1
        return min(size, frag)

    def _maybe_fail(self) -> None:
        if self.calls == self.fail_at:
            self.calls += 1
            raise make_error(self.fail_kind)

    def read(self, size: int = -1) -> bytes:
        self.log.append(("read", size))
        self._maybe_fail()
        if size is None or size < 0:
            size = len(self.data) - self.pos
        n = self._next_len(size)
        out = self.data[self.pos : self.pos + n]
        self.pos += len(out)
        return out

    def _readinto(self, b) -> int | None:
        self.log.append(("readinto", len(b), type(b).__name__))
        self._maybe_fail()
        if self.calls == self.none_at:
            self.calls += 1
            return None
        n = self._next_len(len(b))
        out = self.data[self.pos : self.pos + n]
        self.pos += len(out)
        b[: len(out)] = out
        return len(out)


def make_subclass(base, mode: str):
    if mode == "plain":
        return base

    if mode == "quiet":

        class Quiet(base):  # type: ignore[misc,valid-type]
            def on_exhausted(self):
                self.events.append("exhausted")

            def on_disconnect(self, error=None):
                self.events.append(("disconnect", type(error).__name__))

        Quiet.events = None
        return Quiet

    if mode == "recording":

        class Recording(base):  # type: ignore[misc,valid-type]
            def on_exhausted(self):
                self.events.append("exhausted")
                return super().on_exhausted()

            def on_disconnect(self, error=None):
                self.events.append(("disconnect", type(error).__name__))
                return super().on_disconnect(error)

        return Recording

    if mode == "recording_kw":

        class RecordingKw(base):  # type: ignore[misc,valid-type]
            def on_disconnect(self, error=None):
                self.events.append(("disconnect", type(error).__name__))
                return super().on_disconnect(error=error)

        return RecordingKw

    raise AssertionError(mode)


OPS = [
    "read_all", "read_n", "read_n", "read_n", "readline", "readline_n", "readlines",
    "readlines_hint", "readinto_ba", "readinto_mv", "iter_next", "iter_all", "exhaust",
    "readall", "tell", "is_exhausted", "on_exhausted", "on_disconnect",
    "on_disconnect_err", "on_disconnect_kw", "read_0", "readinto_empty",
]


def gen_case(rng: random.Random):
    body_len = rng.choice([0, 1, 2, 5, 9, 10, 11, 16, 33, 100, 70000])
    body = bytes(rng.choice(b"abc\nde\n\r") for _ in range(min(body_len, 200)))
    if body_len > 200:
        body = (body * (body_len // 200 + 1))[:body_len]
    limit = rng.choice(
        [-3, 0, 1, 2, 5, 9, 10, 11, 16, 33, 100, body_len, body_len + 1,
         max(body_len - 1, 0), 65536, 65537, 70000, 70001]
    )
    frags = [rng.choice([1, 2, 3, 5, 8, 13, 64, 1024, 10**6]) for _ in range(rng.randint(1, 4))]
    if rng.random() < 0.1:
        frags[rng.randrange(len(frags))] = 0  # premature empty read
    with_readinto = rng.random() < 0.6
    fail_at = rng.choice([-1, -1, -1, 0, 1, 2, 3, 5])
    fail_kind = rng.choice(list(ERRORS))
    none_at = rng.choice([-1, -1, -1, 0, 1, 2])
    is_max = rng.choice([False, True, 0, 1])
    mode = rng.choice(["plain", "plain", "quiet", "recording", "recording_kw"])
    buffered = rng.choice([None, None, 1, 4, 16, 8192])
    ops = [
        (rng.choice(OPS), rng.choice([0, 1, 2, 3, 4, 7, 10, 16, 50, 1000, 70000, 140000]))
        for _ in range(rng.randint(1, 8))
    ]
    return dict(
        body=body, limit=limit, frags=frags, with_readinto=with_readinto,
        fail_at=fail_at, fail_kind=fail_kind, none_at=none_at, is_max=is_max,
        mode=mode, buffered=buffered, ops=ops,
    )


def run_case(base_cls, case):
    srclog: list = []
    src = Source(
        case["body"], case["frags"], case["with_readinto"], case["fail_at"],
        case["fail_kind"], case["none_at"], srclog,
    )
    cls = make_subclass(base_cls, case["mode"])
    limited = cls(src, case["limit"], is_max=case["is_max"])
    limited.events = []
    target = limited
    if case["buffered"] is not None:
        target = io.BufferedReader(limited, case["buffered"])
    out: list = []

    for op, n in case["ops"]:
        try:
            if op == "read_all":
                r = target.read()
            elif op == "read_n":
                r = target.read(n)
            elif op == "read_0":
                r = target.read(0)
            elif op == "readline":
                r = target.readline()
            elif op == "readline_n":
                r = target.readline(n)
            elif op == "readlines":
                r = target.readlines()
            elif op == "readlines_hint":
                r = target.readlines(n)
            elif op == "readinto_ba":
                buf = bytearray(b"\xff" * n)
                r = (target.readinto(buf), bytes(buf))
            elif op == "readinto_mv":
                buf = bytearray(b"\xee" * n)
                r = (target.readinto(memoryview(buf)), bytes(buf))
            elif op == "readinto_empty":
                buf = bytearray()
                r = (target.readinto(buf), bytes(buf))
            elif op == "iter_next":
                r = next(iter(target), "STOP")
            elif op == "iter_all":
                r = list(target)
            elif op == "exhaust":
                r = limited.exhaust()
            elif op == "readall":
                r = limited.readall()
            elif op == "tell":
                r = limited.tell()
            elif op == "is_exhausted":
                r = limited.is_exhausted
            elif op == "on_exhausted":
                r = limited.on_exhausted()
            elif op == "on_disconnect":
                r = limited.on_disconnect()
            elif op == "on_disconnect_err":
                r = limited.on_disconnect(make_error(case["fail_kind"]))
            elif op == "on_disconnect_kw":
                r = limited.on_disconnect(error=None)
            else:
                raise AssertionError(op)
            out.append((op, n, "ok", type(r).__name__, r))
        except Exception as e:  # noqa: BLE001
            out.append((op, n, "exc", type(e).__name__, type(e).__mro__[1].__name__))
        out.append(("state", limited._pos, src.pos, src.calls))

    return out, srclog, list(limited.events), limited._pos, src.pos


def main(n_cases: int = 20000, seed: int = 9090) -> None:
    rng = random.Random(seed)
    mismatches = 0
    stats = {"exc": 0, "ok": 0}

    for i in range(n_cases):
        case = gen_case(rng)
        a = run_case(OrigLimitedStream, case)
        b = run_case(NewLimitedStream, case)

        for entry in a[0]:
            if len(entry) == 5:
                stats[entry[2]] += 1

        if a != b:
            mismatches += 1
            if mismatches <= 5:
                print("MISMATCH", i, {k: v for k, v in case.items() if k != "body"})
                print("  orig:", a[0][:6], a[2])
                print("  new :", b[0][:6], b[2])

    print(f"{n_cases} cases ({stats['ok']} ok calls, {stats['exc']} raising calls), {mismatches} mismatches")
    print("PASS" if mismatches == 0 else "FAIL")


if __name__ == "__main__":
    main()
