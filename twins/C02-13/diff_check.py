"""Differential check for refactoring 1 (MultipartEncoder.send_event).

Compares the worktree's MultipartEncoder against a pasted copy of the
original implementation on random event sequences (valid and invalid),
checking the produced bytes, raised exception types and the encoder
state after every event.
"""
from __future__ import annotations

import random
import sys
import typing as t

from werkzeug.datastructures import Headers
from werkzeug.sansio.multipart import Data
from werkzeug.sansio.multipart import Epilogue
from werkzeug.sansio.multipart import Event
from werkzeug.sansio.multipart import Field
from werkzeug.sansio.multipart import File
from werkzeug.sansio.multipart import MultipartDecoder
from werkzeug.sansio.multipart import MultipartEncoder
from werkzeug.sansio.multipart import NEED_DATA
from werkzeug.sansio.multipart import Preamble
from werkzeug.sansio.multipart import State


class OrigMultipartEncoder:
    def __init__(self, boundary: bytes) -> None:
        self.boundary = boundary
        self.state = State.PREAMBLE

    def send_event(self, event: Event) -> bytes:
        if isinstance(event, Preamble) and self.state == State.PREAMBLE:
            self.state = State.PART
            return event.data
        elif isinstance(event, (Field, File)) and self.state in {
            State.PREAMBLE,
            State.PART,
            State.DATA,
        }:
            data = b"\r\n--" + self.boundary + b"\r\n"
            data += b'Content-Disposition: form-data; name="%s"' % event.name.encode()
            if isinstance(event, File):
                data += b'; filename="%s"' % event.filename.encode()
            data += b"\r\n"
            for name, value in t.cast(Field, event).headers:
                if name.lower() != "content-disposition":
                    data += f"{name}: {value}\r\n".encode()
            self.state = State.DATA_START
            return data
        elif isinstance(event, Data) and self.state == State.DATA_START:
            self.state = State.DATA
            if len(event.data) > 0:
                return b"\r\n" + event.data
            else:
                return event.data
        elif isinstance(event, Data) and self.state == State.DATA:
            return event.data
        elif isinstance(event, Epilogue):
            self.state = State.COMPLETE
            return b"\r\n--" + self.boundary + b"--\r\n" + event.data
        else:
            raise ValueError(f"Cannot generate {event} in state: {self.state}")


rng = random.Random(20261003)

ALPHABETS = [
    "abcXYZ019 _-.;=:",
    "äöüß€中文\U0001f600\u0000\u007f\t",
    "\r\n\"\\%22'",
    "\ud800\udc00x",  # lone surrogates -> UnicodeEncodeError
]


def rand_text(allow_bad: bool = True) -> str:
    pools = ALPHABETS if allow_bad and rng.random() < 0.15 else ALPHABETS[:2]
    n = rng.choice([0, 1, 2, 5, 12])
    return "".join(rng.choice(rng.choice(pools)) for _ in range(n))


def rand_bytes(boundary: bytes) -> bytes:
    pieces = [
        b"",
        b"\r",
        b"\n",
        b"\r\n",
        b"--",
        b"-",
        boundary,
        b"--" + boundary,
        b"\r\n--" + boundary[:-1],
        b"\r\n--" + boundary + b"--",
        bytes(rng.randrange(256) for _ in range(rng.randrange(8))),
        b"x" * rng.randrange(40),
    ]
    return b"".join(rng.choice(pieces) for _ in range(rng.randrange(5)))


def rand_headers() -> Headers:
    h = Headers()
    for _ in range(rng.choice([0, 0, 1, 2, 3])):
        name = rng.choice(
            [
                "Content-Type",
                "content-disposition",
                "Content-Disposition",
                "CONTENT-DISPOSITION",
                "X-Custom",
                "Content-Length",
                "X-ä",
            ]
        )
        value = rng.choice(
            ["text/plain", "text/plain; charset=utf-8", "5", "", rand_text(False)]
        )
        try:
            h.add(name, value)
        except ValueError:
            pass
    return h


def rand_event(boundary: bytes) -> Event:
    r = rng.random()
    if r < 0.1:
        return Preamble(data=rand_bytes(boundary))
    if r < 0.3:
        name: t.Any = rand_text()
        if rng.random() < 0.03:
            name = None
        return Field(name=name, headers=rand_headers())
    if r < 0.5:
        name = rand_text()
        filename: t.Any = rand_text()
        if rng.random() < 0.03:
            name = None
        if rng.random() < 0.03:
            filename = None
        return File(name=name, filename=filename, headers=rand_headers())
    if r < 0.9:
        data: t.Any = rand_bytes(boundary)
        rr = rng.random()
        if rr < 0.03:
            data = None
        elif rr < 0.06:
            data = bytearray(data)
        return Data(data=data, more_data=rng.random() < 0.5)
    if r < 0.97:
        return Epilogue(data=rand_bytes(boundary))
    return rng.choice([NEED_DATA, Event()])


def step(enc: t.Any, event: Event) -> tuple[str, t.Any, State]:
    try:
        out = enc.send_event(event)
        res: tuple[str, t.Any] = ("ok", (type(out), bytes(out)))
    except Exception as e:  # noqa: B902
        res = ("err", type(e))
    return res[0], res[1], enc.state


def valid_sequence(boundary: bytes) -> list[Event]:
    events: list[Event] = [Preamble(data=b"")]
    for _ in range(rng.randrange(5)):
        if rng.random() < 0.5:
            events.append(Field(name=rand_text(False), headers=rand_headers()))
        else:
            events.append(
                File(
                    name=rand_text(False),
                    filename=rand_text(False),
                    headers=rand_headers(),
                )
            )
        for _ in range(rng.randrange(3)):
            events.append(Data(data=rand_bytes(boundary), more_data=True))
        events.append(Data(data=rand_bytes(boundary), more_data=False))
    events.append(Epilogue(data=b""))
    return events


def decode_all(boundary: bytes, body: bytes) -> list[t.Any]:
    dec = MultipartDecoder(boundary)
    dec.receive_data(body)
    dec.receive_data(None)
    out: list[t.Any] = []
    try:
        while True:
            ev = dec.next_event()
            out.append(ev)
            if isinstance(ev, Epilogue):
                break
    except Exception as e:  # noqa: B902
        out.append(type(e))
    return out


def main() -> int:
    cases = 0
    for i in range(6000):
        boundary: t.Any = rng.choice(
            [b"b", b"boundary", b"--x--", b"-" * 30 + b"Werkzeug_1.5", b"a.b+c"]
        )
        if rng.random() < 0.01:
            boundary = "str-boundary"  # TypeError path
        new = MultipartEncoder(boundary)
        old = OrigMultipartEncoder(boundary)
        if i % 2:
            events = valid_sequence(boundary if isinstance(boundary, bytes) else b"b")
        else:
            events = [
                rand_event(boundary if isinstance(boundary, bytes) else b"b")
                for _ in range(rng.randrange(1, 12))
            ]
        body_new = b""
        body_old = b""
        all_ok = True
        for ev in events:
            a = step(new, ev)
            b = step(old, ev)
            cases += 1
            if a != b:
                print("MISMATCH", boundary, ev, a, b)
                return 1
            if a[0] == "ok":
                body_new += a[1][1]
                body_old += b[1][1]
            else:
                all_ok = False
        if all_ok and isinstance(boundary, bytes):
            if decode_all(boundary, body_new) != decode_all(boundary, body_old):
                print("DECODE MISMATCH", boundary, events)
                return 1
    print(f"PASS ({cases} send_event calls compared)")
    return 0


if __name__ == "__main__":
    sys.exit(main())
