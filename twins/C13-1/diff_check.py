"""Differential check for refactoring 1 (dump_cookie: extracted value-quoting helper,
named substitution callback, if/elif attribute loop).

Run as: cd /tmp/wt3-C13 && PYTHONPATH=/tmp/wt3-C13/src /venv/bin/python /tmp/twin-C13/1/diff_check.py
"""

from __future__ import annotations

import datetime as _dtmod
import random
import re
import warnings
from datetime import timedelta
from datetime import timezone
from urllib.parse import quote

import werkzeug.http as wh
from werkzeug.http import http_date
from werkzeug.sansio.http import parse_cookie as sansio_parse_cookie

_real_datetime = _dtmod.datetime


# Freeze "now" for both implementations so that the synthesized Expires attribute is
# deterministic. isinstance(x, FrozenDatetime) behaves like isinstance(x, datetime).
class _Meta(type):
    def __instancecheck__(cls, obj):
        return isinstance(obj, _real_datetime)


class FrozenDatetime(_real_datetime, metaclass=_Meta):
    @classmethod
    def now(cls, tz=None):
        return _real_datetime(2024, 5, 6, 7, 8, 9, tzinfo=tz)


wh.datetime = FrozenDatetime
datetime = FrozenDatetime

# ---------------------------------------------------------------- ORIGINAL (pasted)
_cookie_no_quote_re = re.compile(r"[\w!#$%&'()*+\-./:<=>?@\[\]^`{|}~]*", re.A)
_cookie_slash_re = re.compile(rb"[\x00-\x1f\",;\\\x7f-\xff]", re.A)
_cookie_slash_map = {b'"': b'\\"', b"\\": b"\\\\"}
_cookie_slash_map.update(
    (v.to_bytes(1, "big"), b"\\%03o" % v)
    for v in [*range(0x20), *b",;", *range(0x7F, 256)]
)


def orig_dump_cookie(
    key,
    value="",
    max_age=None,
    expires=None,
    path="/",
    domain=None,
    secure=False,
    httponly=False,
    sync_expires=True,
    max_size=4093,
    samesite=None,
    partitioned=False,
):
    if path is not None:
        path = quote(path, safe="%!$&'()*+,/:=@")

    if domain:
        domain = domain.partition(":")[0].lstrip(".").encode("idna").decode("ascii")

    if isinstance(max_age, timedelta):
        max_age = int(max_age.total_seconds())

    if expires is not None:
        if not isinstance(expires, str):
            expires = http_date(expires)
    elif max_age is not None and sync_expires:
        expires = http_date(datetime.now(tz=timezone.utc).timestamp() + max_age)

    if samesite is not None:
        samesite = samesite.title()

        if samesite not in {"Strict", "Lax", "None"}:
            raise ValueError("SameSite must be 'Strict', 'Lax', or 'None'.")

    if partitioned:
        secure = True

    if not _cookie_no_quote_re.fullmatch(value):
        value = _cookie_slash_re.sub(
            lambda m: _cookie_slash_map[m.group()], value.encode()
        ).decode("ascii")
        value = f'"{value}"'

    buf = [f"{key.encode().decode('latin1')}={value}"]

    for k, v in (
        ("Domain", domain),
        ("Expires", expires),
        ("Max-Age", max_age),
        ("Secure", secure),
        ("HttpOnly", httponly),
        ("Path", path),
        ("SameSite", samesite),
        ("Partitioned", partitioned),
    ):
        if v is None or v is False:
            continue

        if v is True:
            buf.append(k)
            continue

        buf.append(f"{k}={v}")

    rv = "; ".join(buf)
    cookie_size = len(rv)

    if max_size and cookie_size > max_size:
        value_size = len(value)
        warnings.warn(
            f"The '{key}' cookie is too large: the value was {value_size} bytes but the"
            f" header required {cookie_size - value_size} extra bytes. The final size"
            f" was {cookie_size} bytes but the limit is {max_size} bytes. Browsers may"
            " silently ignore cookies larger than this.",
            stacklevel=2,
        )

    return rv


# ---------------------------------------------------------------- generators
rng = random.Random(0xC13)

SPECIAL = list('";,\\ \t\r\n\x00\x01\x1f\x7f\x80\xff=%') + [
    "€",
    "\U0001f600",
    "\ud800",  # lone surrogate -> UnicodeEncodeError in .encode()
    "é",
    " ",
    "\\073",
    "\\\\",
    '\\"',
    "; Secure",
    "; Domain=evil.example",
    "\r\nSet-Cookie: x=y",
]
SAFE = "abcXYZ019_!#$%&'()*+-./:<=>?@[]^`{|}~"


def rand_text(maxlen=12, special_p=0.4):
    n = rng.randrange(0, maxlen)
    out = []
    for _ in range(n):
        r = rng.random()
        if r < special_p:
            out.append(rng.choice(SPECIAL))
        elif r < special_p + 0.15:
            cp = rng.randrange(0, 0x110000)
            out.append(chr(cp))
        else:
            out.append(rng.choice(SAFE))
    return "".join(out)


def rand_value():
    r = rng.random()
    if r < 0.02:
        return rng.choice([b"bytes", None, 5, 1.5, ["x"], True])
    if r < 0.25:
        return "".join(rng.choice(SAFE) for _ in range(rng.randrange(0, 20)))
    if r < 0.30:
        return chr(rng.randrange(0, 0x110000))
    return rand_text()


def rand_kwargs():
    kw = {}
    if rng.random() < 0.4:
        kw["max_age"] = rng.choice(
            [0, 1, 3600, -5, timedelta(days=1), timedelta(seconds=1.7), None, "60", 2.5]
        )
    if rng.random() < 0.3:
        kw["expires"] = rng.choice(
            [
                0,
                1700000000,
                1700000000.5,
                "Thu, 01 Jan 1970 00:00:00 GMT",
                "garbage; Secure",
                _real_datetime(2030, 1, 2, 3, 4, 5),
                _real_datetime(2030, 1, 2, 3, 4, 5, tzinfo=timezone.utc),
                _dtmod.date(2031, 2, 3),
                None,
                True,
                False,
            ]
        )
    if rng.random() < 0.4:
        kw["path"] = rng.choice(
            [None, "/", "", "/a b", "/x;y", "/é", "/%41", "/a,b", rand_text(), 5]
        )
    if rng.random() < 0.4:
        kw["domain"] = rng.choice(
            [
                None,
                "",
                "example.com",
                ".example.com",
                "example.com:8080",
                "localhost",
                "bücher.example",
                "a..b",
                "x" * 70 + ".com",
                "ex ample.com",
                "evil.com; Secure",
                rand_text(),
            ]
        )
    if rng.random() < 0.3:
        kw["secure"] = rng.choice([True, False, None, 1, 0, "yes", ""])
    if rng.random() < 0.3:
        kw["httponly"] = rng.choice([True, False, None, 1, 0, "yes", ""])
    if rng.random() < 0.2:
        kw["sync_expires"] = rng.choice([True, False])
    if rng.random() < 0.3:
        kw["max_size"] = rng.choice([0, 1, 10, 30, 4093, None])
    if rng.random() < 0.4:
        kw["samesite"] = rng.choice(
            ["strict", "Strict", "LAX", "lax", "none", "None", "", "bogus", "Lax; x", None, 5]
        )
    if rng.random() < 0.3:
        kw["partitioned"] = rng.choice([True, False, None, 1, 0, "p"])
    return kw


def run(fn, args, kwargs):
    with warnings.catch_warnings(record=True) as w:
        warnings.simplefilter("always")
        try:
            rv = ("ok", fn(*args, **kwargs))
        except Exception as e:  # noqa: BLE001
            rv = ("exc", type(e), str(e))
    warns = [(x.category, str(x.message), x.filename == __file__) for x in w]
    return rv, warns


def main():
    n = 0
    bad = 0
    roundtrip_checked = 0

    cases = []
    # exhaustive single code points in the BMP low range + samples
    for cp in list(range(0, 0x300)) + [0xD7FF, 0xD800, 0xDFFF, 0xE000, 0xFFFF, 0x10000, 0x10FFFF]:
        cases.append((("k", chr(cp)), {}))
        cases.append((("k", "a" + chr(cp) + "b"), {}))
    for _ in range(12000):
        key = rng.choice(["k", "sess", "ü", "a b", "", rand_text(5)])
        if rng.random() < 0.01:
            key = rng.choice([b"k", None, 3])
        cases.append(((key, rand_value()), rand_kwargs()))
    # positional-arg call shape and defaults
    cases.append((("k",), {}))
    cases.append((("k", "v", 10, None, "/p", "d.example", True, True, True, 5, "lax", True), {}))

    for args, kwargs in cases:
        n += 1
        a = run(orig_dump_cookie, args, kwargs)
        b = run(wh.dump_cookie, args, kwargs)
        if a != b:
            bad += 1
            if bad <= 10:
                print("MISMATCH", args, kwargs, a, b)
            continue
        # sanity: property round trip still observed on the refactored function
        if a[0][0] == "ok" and isinstance(args[0], str) and len(args) > 1 and isinstance(args[1], str):
            k = args[0]
            if k and k == k.strip() and re.fullmatch(r"[A-Za-z0-9_]+", k):
                pair = b[0][1].split("; ")[0] if not kwargs else None
                if pair is not None:
                    got = sansio_parse_cookie(pair)
                    assert got.get(k) == args[1], (args, pair, got)
                    assert pair.isascii()
                    roundtrip_checked += 1

    print(f"cases={n} mismatches={bad} roundtrip_checked={roundtrip_checked}")
    print("PASS" if bad == 0 else "FAIL")


if __name__ == "__main__":
    main()
