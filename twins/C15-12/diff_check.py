"""Differential check for refactoring 3 (C15): DispatcherMiddleware.__call__ and
sansio.utils.get_current_url.

Compares the worktree implementation against a pasted copy of the original.
Run: cd /tmp/wt10-C15 && PYTHONPATH=/tmp/wt10-C15/src /venv/bin/python /tmp/twin6-C15/3/diff_check.py
"""
from __future__ import annotations

import itertools
import random
from urllib.parse import quote

import werkzeug
from werkzeug.middleware.dispatcher import DispatcherMiddleware as NewDispatcher
from werkzeug.sansio.utils import get_current_url as new_get_current_url
from werkzeug.test import EnvironBuilder
from werkzeug.urls import uri_to_iri  # unchanged by this refactoring
from werkzeug.wrappers import Request

assert werkzeug.__file__.startswith("/tmp/wt10-C15/"), werkzeug.__file__


# ---------------------------------------------------------------- ORIGINAL ---
class OldDispatcher:
    def __init__(self, app, mounts=None) -> None:
        self.app = app
        self.mounts = mounts or {}

    def __call__(self, environ, start_response):
        script = environ.get("PATH_INFO", "")
        path_info = ""

        while "/" in script:
            if script in self.mounts:
                app = self.mounts[script]
                break

            script, last_item = script.rsplit("/", 1)
            path_info = f"/{last_item}{path_info}"
        else:
            app = self.mounts.get(script, self.app)

        original_script_name = environ.get("SCRIPT_NAME", "")
        environ["SCRIPT_NAME"] = original_script_name + script
        environ["PATH_INFO"] = path_info
        return app(environ, start_response)


def old_get_current_url(scheme, host, root_path=None, path=None, query_string=None):
    url = [scheme, "://", host]

    if root_path is None:
        url.append("/")
        return uri_to_iri("".join(url))

    url.append(quote(root_path.rstrip("/"), safe="!$&'()*+,/:;=@%"))
    url.append("/")

    if path is None:
        return uri_to_iri("".join(url))

    url.append(quote(path.lstrip("/"), safe="!$&'()*+,/:;=@%"))

    if query_string:
        url.append("?")
        url.append(quote(query_string, safe="!$&'()*+,/:;=?@%"))

    return uri_to_iri("".join(url))


# ----------------------------------------------------------------- HELPERS ---
rnd = random.Random(0xC153)
mismatch = 0
count = 0


def run(f, *a, **kw):
    try:
        return ("ok", f(*a, **kw))
    except BaseException as e:  # noqa: B036
        return ("exc", type(e), str(e))


def check(label, a, b, arg):
    global mismatch, count
    count += 1
    if a != b:
        mismatch += 1
        if mismatch < 20:
            print("MISMATCH", label, repr(arg), a, b)


def make_app(name):
    def app(environ, start_response):
        # Report everything the dispatched app can observe.
        req = Request(environ)
        return (
            name,
            environ.get("SCRIPT_NAME"),
            environ.get("PATH_INFO"),
            sorted((k, repr(v)) for k, v in environ.items() if k.isupper()),
            req.path,
            req.root_path,
            req.url,
            req.base_url,
            req.host,
            sorted(req.args.items(multi=True)),
        )

    return app


SEGS = ["", "a", "b", "api", "api2", "v1", "static", "☃", "å b", "%2F", "a.b", "..", "é́", "\U0001f600", "x;y", "a:b", "?", "#"]


def rand_path(maxseg=5, lead=None):
    n = rnd.randint(0, maxseg)
    p = "/".join(rnd.choice(SEGS) for _ in range(n))
    if lead is None:
        lead = rnd.random() < 0.85
    if lead:
        p = "/" + p
    if rnd.random() < 0.2:
        p += "/"
    return p


def rand_mounts():
    m = {}
    for _ in range(rnd.randint(0, 6)):
        k = rnd.random()
        if k < 0.1:
            key = rnd.choice(["", "/", "a", "api", "//"])
        else:
            key = rand_path(3)
        m[key] = make_app(f"mount:{key}")
    return m


class Raises:
    def __call__(self, environ, start_response):
        raise RuntimeError("boom " + environ["SCRIPT_NAME"] + "|" + environ["PATH_INFO"])


# ---------------------------------------------------- dispatcher: raw environ
for _ in range(6000):
    mounts = rand_mounts()
    default = make_app("default")
    if rnd.random() < 0.05:
        mounts[rand_path(2)] = Raises()
    old, new = OldDispatcher(default, mounts), NewDispatcher(default, dict(mounts))
    base = {}
    k = rnd.random()
    if k < 0.9:
        base["PATH_INFO"] = rand_path()
        # sometimes make sure a mount prefix is hit
        if mounts and rnd.random() < 0.6:
            base["PATH_INFO"] = rnd.choice(list(mounts)) + rand_path(3, lead=rnd.random() < 0.8)
    if rnd.random() < 0.7:
        base["SCRIPT_NAME"] = rnd.choice(["", "/root", "/r/☃", "/x/"])
    if rnd.random() < 0.03:
        base["PATH_INFO"] = rnd.choice([b"/a/b", None, 5])
    if rnd.random() < 0.03:
        base["SCRIPT_NAME"] = rnd.choice([b"/a", None])
    base.update({"wsgi.url_scheme": "http", "SERVER_NAME": "localhost", "SERVER_PORT": "80", "REQUEST_METHOD": "GET", "QUERY_STRING": "a=1&b=%C3%A5"})
    e1, e2 = dict(base), dict(base)
    r1, r2 = run(old, e1, None), run(new, e2, None)
    check("dispatch", r1, r2, (base.get("PATH_INFO"), list(mounts)))
    check("dispatch-environ", repr(sorted(e1.items())), repr(sorted(e2.items())), base)

# mounts=None / empty
for p in ["", "/", "/a", "a", "a/b", "//", "/a//b/"]:
    e1, e2 = {"PATH_INFO": p}, {"PATH_INFO": p}
    d = make_app("default")
    check("nomounts", run(OldDispatcher(d), e1, None), run(NewDispatcher(d), e2, None), p)
    check("nomounts-env", repr(sorted(e1.items())), repr(sorted(e2.items())), p)

# ------------------------- dispatcher: through EnvironBuilder + Request (unicode)
for _ in range(2500):
    mounts = rand_mounts()
    default = make_app("default")
    old, new = OldDispatcher(default, mounts), NewDispatcher(default, dict(mounts))
    path = rand_path()
    if mounts and rnd.random() < 0.6:
        path = (rnd.choice(list(mounts)) or "/") + rand_path(3)
    if not path.startswith("/"):
        path = "/" + path
    kw = dict(
        path=path,
        base_url=rnd.choice(["http://localhost/", "https://☃.net:8443/r%20oot/", "http://example.com/å/", "http://[::1]:5000/"]),
        query_string=rnd.choice([None, "a=1", {"k": "☃ &="}, "x=%C3%A5&x=%ff", {"å": ["1", "2"]}]),
    )
    b1, b2 = run(lambda: EnvironBuilder(**kw).get_environ()), run(lambda: EnvironBuilder(**kw).get_environ())
    if b1[0] != "ok":
        check("builder", b1, b2, kw)
        continue
    r1, r2 = run(old, b1[1], None), run(new, b2[1], None)
    check("dispatch-builder", r1, r2, kw)
    s1, s2 = b1[1].get("SCRIPT_NAME", ""), b2[1].get("SCRIPT_NAME", "")
    check("dispatch-builder-env", (s1, b1[1].get("PATH_INFO")), (s2, b2[1].get("PATH_INFO")), kw)

# ------------------------------------------------------------- get_current_url
SCHEMES = ["http", "https", "ws", "wss", "", "itms-services"]
HOSTS = ["localhost", "example.com:8080", "☃.net", "xn--n3h.net", "[::1]:5000", "", "a b", "user:pw@h", "xn--zz-zz-zz.x", "h:bad", "h:99999"]
ROOTS = [None, "", "/", "/root", "/root/", "//", "/r ☃/", "/a%2Fb", "/å/é/", "root", "/%zz", "/a?b#c/"]
PATHS = [None, "", "/", "/p", "p/q", "//p//", "/☃ x", "/%C3%A5%DF", "/a?b", "/a#b", "/;=:@&+$,"]
QUERIES = [None, b"", b"a=1", b"a=%C3%A5&b=%ff", b"x=\xe2\x98\x83", b"\xff\xfe", b"a=b#c", b"q=a+b&&=", "text=str", b"%", b"a=%2", 0]

for args in itertools.product(SCHEMES, HOSTS, ROOTS, PATHS, QUERIES):
    check("get_current_url", run(old_get_current_url, *args), run(new_get_current_url, *args), args)

# partial / keyword forms
for scheme, host in itertools.product(SCHEMES, HOSTS):
    check("gcu-2", run(old_get_current_url, scheme, host), run(new_get_current_url, scheme, host), (scheme, host))
    for q in QUERIES:
        kw = dict(query_string=q)
        check("gcu-q-only", run(old_get_current_url, scheme, host, **kw), run(new_get_current_url, scheme, host, **kw), (scheme, host, q))
        for p in PATHS:
            kw = dict(path=p, query_string=q)
            check("gcu-noroot", run(old_get_current_url, scheme, host, **kw), run(new_get_current_url, scheme, host, **kw), (scheme, host, p, q))

# wrong-typed arguments must fail identically
for args in [("http", "h", 5), ("http", "h", "/", 5), ("http", "h", "/", "/", 5), ("http", None), (None, "h"), ("http", "h", b"/r"), ("http", "h", "/r", b"/p")]:
    check("gcu-types", run(old_get_current_url, *args), run(new_get_current_url, *args), args)

print(f"{count} comparisons, {mismatch} mismatches")
print("PASS" if mismatch == 0 else "FAIL")
