"""Differential check for refactoring 1 (parse_range_header)."""
import itertools
import random

from werkzeug import datastructures as ds
from werkzeug._internal import _plain_int
from werkzeug.http import parse_range_header as new_parse


def orig_parse(value, make_inclusive=True):
    if not value or "=" not in value:
        return None

    ranges = []
    last_end = 0
    units, rng = value.split("=", 1)
    units = units.strip().lower()

    for item in rng.split(","):
        item = item.strip()
        if "-" not in item:
            return None
        if item.startswith("-"):
            if last_end < 0:
                return None
            try:
                begin = _plain_int(item)
            except ValueError:
                return None
            end = None
            last_end = -1
        elif "-" in item:
            begin_str, end_str = item.split("-", 1)
            begin_str = begin_str.strip()
            end_str = end_str.strip()

            try:
                begin = _plain_int(begin_str)
            except ValueError:
                return None

            if begin < last_end or last_end < 0:
                return None
            if end_str:
                if end_str.startswith("-"):
                    # _plain_int accepts a sign, a position does not have one
                    return None

                try:
                    end = _plain_int(end_str) + 1
                except ValueError:
                    return None

                if begin >= end:
                    return None
            else:
                end = None
            last_end = end if end is not None else -1
        ranges.append((begin, end))

    return ds.Range(units, ranges)


def run(fn, value):
    try:
        r = fn(value)
    except Exception as e:  # noqa: BLE001
        return ("exc", type(e))
    if r is None:
        return None
    return (type(r), r.units, list(r.ranges), r.to_header())


rnd = random.Random(1234)
NUMS = ["0", "1", "5", "9", "10", "99", "100", "007", "-1", "-0", "-5", "+3", "1_0",
        "", " ", "a", "٣", "1.5", "--2", " 4", "4 ", "\t7", "18446744073709551616"]
SEPS = ["-", "-", "-", " - ", "- ", " -", "--", "", "–"]
UNITS = ["bytes", "Bytes", " bytes ", "items", "", "b=", "bytes "]


def rand_item():
    k = rnd.random()
    if k < 0.7:
        return rnd.choice(NUMS) + rnd.choice(SEPS) + rnd.choice(NUMS)
    if k < 0.85:
        return "-" + rnd.choice(NUMS)
    return "".join(rnd.choice("0123456789-, =ab\t") for _ in range(rnd.randint(0, 6)))


def rand_sane_item():
    a = rnd.randint(0, 50)
    k = rnd.random()
    if k < 0.6:
        return f"{a}-{a + rnd.randint(-2, 30)}"
    if k < 0.8:
        return f"{a}-"
    return f"-{a}"


cases = [None, "", "bytes", "=", "bytes=", "bytes=-", "bytes=--", "bytes=,", "bytes=0-0",
         "bytes=0-,5-", "bytes=-5,0-3", "bytes=0-3,-5", "bytes=0-3,-5,7-9", "bytes=5-3",
         "bytes=0--1", "bytes=0- -1", "bytes=0-5,5-9", "bytes=0-5,6-9", "bytes=0-5,3-9",
         "bytes=0-5=7", "a=b=c"]
# exhaustive small grid
for a, s, b in itertools.product(NUMS, SEPS, NUMS):
    cases.append(f"bytes={a}{s}{b}")
for _ in range(30000):
    n = rnd.randint(1, 4)
    gen = rand_item if rnd.random() < 0.5 else rand_sane_item
    sep = rnd.choice([",", ", ", " ,", ",,"]) if rnd.random() < 0.2 else ","
    v = rnd.choice(UNITS) + rnd.choice(["=", "=", "=", " = ", ""]) + sep.join(gen() for _ in range(n))
    cases.append(v)
# sorted multi-ranges so the non-None path is covered well
for _ in range(10000):
    pos = sorted(rnd.sample(range(0, 200), rnd.randint(2, 8)))
    items = [f"{pos[i]}-{pos[i + 1] - rnd.randint(0, 1)}" for i in range(0, len(pos) - 1, 2)]
    tail = rnd.choice(["", ",-5", f",{pos[-1]}-", ",-0", f",{pos[-1]}-,-3"])
    cases.append("bytes=" + ",".join(items) + tail)

bad = 0
non_none = 0
for v in cases:
    o, n = run(orig_parse, v), run(new_parse, v)
    if o is not None and o[0] != "exc":
        non_none += 1
    if o != n:
        bad += 1
        if bad < 10:
            print("MISMATCH", repr(v), o, n)

print(f"{len(cases)} cases, {non_none} parsed to a Range, {bad} mismatches")
print("PASS" if bad == 0 else "FAIL")
