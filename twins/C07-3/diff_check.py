"""Differential check for refactoring 3 (parse_options_header).

Run: cd /tmp/wt3-C07 && PYTHONPATH=/tmp/wt3-C07/src /venv/bin/python /tmp/twin-C07/3/diff_check.py
"""
import itertools
import random
import re
from urllib.parse import unquote

from werkzeug.http import parse_options_header as new_parse_options_header
from werkzeug.sansio.request import Request
from werkzeug.datastructures import Headers

# ---------------------------------------------------------------- original code
_parameter_key_re = re.compile(r"([\w!#$%&'*+\-.^`|~]+)=", flags=re.ASCII)
_parameter_token_value_re = re.compile(r"[\w!#$%&'*+\-.^`|~]+", flags=re.ASCII)
_charset_value_re = re.compile(
    r"""
    ([\w!#$%&*+\-.^`|~]*)'  # charset part, could be empty
    [\w!#$%&*+\-.^`|~]*'  # don't care about language part, usually empty
    ([\w!#$%&'*+\-.^`|~]+)  # one or more token chars with percent encoding
    """,
    re.ASCII | re.VERBOSE,
)
_continuation_re = re.compile(r"\*(\d+)$", re.ASCII)


def orig_parse_options_header(value):
    if value is None:
        return "", {}

    value, _, rest = value.partition(";")
    value = value.strip()
    rest = rest.strip()

    if not value or not rest:
        # empty (invalid) value, or value without options
        return value, {}

    # Collect all valid key=value parts without processing the value.
    parts = []

    while True:
        if (m := _parameter_key_re.match(rest)) is not None:
            pk = m.group(1).lower()
            rest = rest[m.end() :]

            # Value may be a token.
            if (m := _parameter_token_value_re.match(rest)) is not None:
                parts.append((pk, m.group()))

            # Value may be a quoted string, find the closing quote.
            elif rest[:1] == '"':
                pos = 1
                length = len(rest)

                while pos < length:
                    if rest[pos : pos + 2] in {"\\\\", '\\"'}:
                        # Consume escaped slashes and quotes.
                        pos += 2
                    elif rest[pos] == '"':
                        # Stop at an unescaped quote.
                        parts.append((pk, rest[: pos + 1]))
                        rest = rest[pos + 1 :]
                        break
                    else:
                        # Consume any other character.
                        pos += 1

        # Find the next section delimited by `;`, if any.
        if (end := rest.find(";")) == -1:
            break

        rest = rest[end + 1 :].lstrip()

    options = {}
    encoding = None
    continued_encoding = None

    for pk, pv in parts:
        if pk[-1] == "*":
            pk = pk[:-1]
            match = _charset_value_re.match(pv)

            if match:
                encoding, pv = match.groups()
                encoding = encoding.lower()

            if not encoding:
                encoding = continued_encoding

            if encoding in {"ascii", "us-ascii", "utf-8", "iso-8859-1"}:
                continued_encoding = encoding
                pv = unquote(pv, encoding=encoding)

        if pv[0] == pv[-1] == '"':
            pv = pv[1:-1].replace("\\\\", "\\").replace('\\"', '"').replace("%22", '"')

        match = _continuation_re.search(pk)

        if match:
            pk = pk[: match.start()]

        if not pk:
            continue

        if match:
            options[pk] = options.get(pk, "") + pv
        else:
            options[pk] = pv

    return value, options


# -------------------------------------------------------------------- harness
def run(f, v):
    try:
        r = f(v)
    except BaseException as e:  # noqa: B036
        return ("EXC", type(e), str(e))
    # dict order matters too
    return ("OK", type(r), r[0], type(r[1]), list(r[1].items()))


VALUES = ["text/html", "form-data", "", " ", "a/b ", "*", "multipart/form-data"]
KEYS = [
    "a", "A", "charset", "filename", "filename*", "a*", "a*0", "a*1", "a*0*", "a*1*",
    "*", "*0", "*0*", "**", "*1", "a*x", "a*01", "a**0", "", " a", "a ", '"a"', "é",
    "a*١", "b", "b*0", "b*", "name",
]
VALS = [
    "b", "UTF-8", '"b"', '""', '"', '"b', 'b"', '"a\\"b"', '"a\\\\"', '"a\\\\\\"', '"a\\',
    '"a\\"', '"a;b"', '"a;b', "a b", "", " b", "utf-8''%C3%A9", "UTF-8'en'%e2%82%ac",
    "''x", "'x", "iso-8859-1''%e9", "ascii''%e9", "us-ascii'%41", "latin1''%e9",
    "utf-8''%ff%fe", "''%41", "'", "''", "%22", '"%22"', '"a%22b"', "é", '"é"',
    '"\\"', '"\\\\', '\\"', '"a"b"', '"a" x', "a=b", '"a"=b', "b;", '"\x00"', "\x00",
    "utf-8''", "utf-8''\"x\"", '"utf-8\'\'%41"', "%41", "utf-8'x", "%", "%zz", "utf-8''%",
]
SEPS = [";", "; ", " ;", ";;", " ; ", ";\t", ", "]
ALPHABET = list('ab=;"\\ *0\'%é\x00,/') + ['="', '";', "*=", "*0=", "\\\\", '\\"', "''", "%22", "utf-8"]


def gen(rng):
    yield from ["", ";", ";;", "a", "a;", ";a=b", " ; a=b", "a; b", "a;b=", "a;=b"]
    for k, v in itertools.product(KEYS, VALS):
        yield f"text/html; {k}={v}"
        yield f"x;{k}={v};{k}={v}"
        yield f"x; q=1; {k}={v}; z=2"
    for _ in range(60000):
        n = rng.randint(0, 5)
        params = []
        for _ in range(n):
            k = rng.choice(KEYS)
            v = rng.choice(VALS)
            eq = rng.choice(["=", "=", "=", " = ", "", "=="])
            params.append(f"{k}{eq}{v}")
        out = rng.choice(VALUES)
        for p in params:
            out += rng.choice(SEPS) + p
        yield out
    for _ in range(60000):
        yield rng.choice(["x;", "x; ", "", "a/b;c="]) + "".join(
            rng.choice(ALPHABET) for _ in range(rng.randint(0, 18))
        )
    # long unterminated / heavily escaped quoted strings
    for n in (50, 500, 5000):
        yield 'x; a="' + "\\" * n
        yield 'x; a="' + '\\"' * n
        yield 'x; a="' + '\\"' * n + '"'
        yield 'x; a="' + "b" * n + '"; c=d'
        yield "x" + '; a="' * n


def via_request(v):
    r = Request("GET", "http", None, "", "/", b"", Headers([("Content-Type", v)]), None)
    return (r.mimetype, r.mimetype_params)


def main():
    rng = random.Random(7073)
    n = bad = 0
    kinds = {"OK": 0, "EXC": 0}
    with_opts = 0
    for v in itertools.chain([None], gen(rng)):
        a = run(orig_parse_options_header, v)
        b = run(new_parse_options_header, v)
        n += 1
        kinds[a[0]] += 1
        if a[0] == "OK" and a[4]:
            with_opts += 1
        if a != b:
            bad += 1
            if bad <= 10:
                print("MISMATCH", repr(v), a, b)
        # lazily parsed request attribute agrees with the original as well
        if v is not None and n % 5 == 0 and "\n" not in v and "\r" not in v:
            o = orig_parse_options_header(v)
            got = via_request(v)
            if (o[0].lower(), o[1]) != got:
                bad += 1
                if bad <= 10:
                    print("MISMATCH(request)", repr(v), o, got)
    print(f"inputs={n} outcomes={kinds} with_options={with_opts} mismatches={bad}")
    print("PASS" if bad == 0 and with_opts > 5000 else "FAIL")


if __name__ == "__main__":
    main()
