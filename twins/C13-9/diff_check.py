"""Differential check for refactoring 3 (werkzeug.test client-side cookie jar).

Run: cd /tmp/wt9-C13 && PYTHONPATH=/tmp/wt9-C13/src /venv/bin/python /tmp/twin5-C13/3/diff_check.py
The ORIGINAL Cookie._from_response_header, Client.set_cookie and
Client._update_cookies_from_response are pasted below and compiled in a copy of
werkzeug.test's namespace in which `Cookie` is a subclass carrying the original
classmethod, so the original code path never touches refactored code.
Compared: parsed Cookie fields, the full ordered jar after sequences of
Set-Cookie headers / set_cookie calls, the Cookie header sent on the next
request, and raised exception types/messages.
"""
from __future__ import annotations

import dataclasses
import random
import sys
import warnings
from datetime import datetime
from datetime import timedelta
from datetime import timezone

import werkzeug.test as T
from werkzeug.http import dump_cookie
from werkzeug.wrappers import Request
from werkzeug.wrappers import Response

ORIG_COOKIE_SRC = '''
class OrigCookie(Cookie):
    @classmethod
    def _from_response_header(cls, server_name, path, header):
        header, _, parameters_str = header.partition(";")
        key, _, value = header.partition("=")
        decoded_key, decoded_value = next(parse_cookie(header).items())  # type: ignore[call-overload]
        params = {}

        for item in parameters_str.split(";"):
            k, sep, v = item.partition("=")
            params[k.strip().lower()] = v.strip() if sep else None

        return cls(
            key=key.strip(),
            value=value.strip(),
            decoded_key=decoded_key,
            decoded_value=decoded_value,
            expires=parse_date(params.get("expires")),
            max_age=int(params["max-age"] or 0) if "max-age" in params else None,
            domain=params.get("domain") or server_name,
            origin_only="domain" not in params,
            path=params.get("path") or path.rpartition("/")[0] or "/",
            secure="secure" in params,
            http_only="httponly" in params,
            same_site=params.get("samesite"),
        )
'''

ORIG_CLIENT_SRC = '''
class OrigClient(Client):
    def set_cookie(
        self,
        key,
        value="",
        *,
        domain="localhost",
        origin_only=True,
        path="/",
        **kwargs,
    ):
        if self._cookies is None:
            raise TypeError(
                "Cookies are disabled. Create a client with 'use_cookies=True'."
            )

        cookie = Cookie._from_response_header(
            domain, "/", dump_cookie(key, value, domain=domain, path=path, **kwargs)
        )
        cookie.origin_only = origin_only

        if cookie._should_delete:
            self._cookies.pop(cookie._storage_key, None)
        else:
            self._cookies[cookie._storage_key] = cookie

    def _update_cookies_from_response(self, server_name, path, headers):
        if self._cookies is None:
            return

        for header in headers:
            cookie = Cookie._from_response_header(server_name, path, header)

            if cookie._should_delete:
                self._cookies.pop(cookie._storage_key, None)
            else:
                self._cookies[cookie._storage_key] = cookie
'''

import inspect

assert list(inspect.signature(T.Client.set_cookie).parameters) == [
    "self", "key", "value", "domain", "origin_only", "path", "kwargs"
]

ns1 = dict(T.__dict__)
exec(compile(ORIG_COOKIE_SRC, "<orig-cookie>", "exec"), ns1)
OrigCookie = ns1["OrigCookie"]
OrigCookie = dataclasses.dataclass(OrigCookie) if not dataclasses.is_dataclass(OrigCookie) else OrigCookie
ns2 = dict(T.__dict__)
ns2["Cookie"] = OrigCookie  # the original client methods resolve `Cookie` here
exec(compile(ORIG_CLIENT_SRC, "<orig-client>", "exec"), ns2)
OrigClient = ns2["OrigClient"]
NewClient = T.Client
NewCookie = T.Cookie

rnd = random.Random(0xC13 + 3)


def rand_text(maxlen=8):
    out = []
    mode = rnd.random()
    for _ in range(rnd.randrange(0, maxlen)):
        if mode < 0.4:
            out.append(rnd.choice("abcXYZ019-_."))
        elif mode < 0.85:
            out.append(rnd.choice('";,\\ \t\n\x00\x7f\x80=é€/%'))
        else:
            out.append(chr(rnd.choice([rnd.randrange(0x100), rnd.randrange(0x3000), rnd.randrange(0x110000)])))
    return "".join(out)


KEYS = ["k", "sid", "a", "b", "é", "a b", "", "x=y"]
DOMAINS = [None, "", "example.com", ".example.com", "sub.example.com", "localhost", "other.test"]
PATHS = [None, "/", "/a", "/a/b", "/a b", "", "/é"]
EXPIRES = [None, None, 0, 1, 1700000000, 4102444800, "Thu, 01 Jan 1970 00:00:00 GMT", "junk", datetime(2035, 1, 1, tzinfo=timezone.utc)]
MAX_AGE = [None, None, 0, 1, 3600, -1, timedelta(0), timedelta(hours=1)]
SAMESITE = [None, "lax", "Strict", "none"]

RAW_ATTRS = [
    "Max-Age=0", "Max-Age=", "Max-Age", "max-age=10", "MAX-AGE= 7 ", "Max-Age=abc", "Max-Age=1.5", "Max-Age=-0",
    "Max-Age=５", "Max-Age=1_0", "Max-Age=+3",
    "Expires=Thu, 01 Jan 1970 00:00:00 GMT", "Expires=", "Expires", "expires=junk", "Expires=Wed, 21 Oct 2099 07:28:00 GMT",
    "Expires=Thu, 01 Jan 99999 00:00:00 GMT", "Expires=0",
    "Domain=example.com", "Domain=", "Domain", "domain=.x.test", "Path=/", "Path=", "Path", "path=/a/b", "Path=/x=y",
    "Secure", "secure=1", "HttpOnly", "httponly", "SameSite=Lax", "samesite", "SameSite=", "Partitioned", "", " ", "=", "=x", "x=",
    "Max-Age=0", "Max-Age=5",
]


def rand_set_cookie_header():
    r = rnd.random()
    if r < 0.5:
        kw = {}
        if rnd.random() < 0.6:
            kw["max_age"] = rnd.choice(MAX_AGE)
        if rnd.random() < 0.5:
            kw["expires"] = rnd.choice(EXPIRES)
        if rnd.random() < 0.6:
            kw["path"] = rnd.choice(PATHS)
        if rnd.random() < 0.5:
            kw["domain"] = rnd.choice(DOMAINS)
        if rnd.random() < 0.3:
            kw["secure"] = True
        if rnd.random() < 0.3:
            kw["httponly"] = True
        if rnd.random() < 0.3:
            kw["samesite"] = rnd.choice(SAMESITE)
        if rnd.random() < 0.2:
            kw["partitioned"] = True
        key = rnd.choice(KEYS)
        value = rand_text() if rnd.random() < 0.7 else rnd.choice(["v", "", "1"])
        try:
            with warnings.catch_warnings():
                warnings.simplefilter("ignore")
                return dump_cookie(key, value, **kw)
        except Exception:
            return "k=v"
    pair = rnd.choice(
        [
            f"{rnd.choice(KEYS)}={rand_text()}",
            rand_text(),
            "",
            "novalue",
            '"q"="r"',
            'k="a\\073b"',
            " k = v ",
            "=v",
            "a=b=c",
        ]
    )
    attrs = [rnd.choice(RAW_ATTRS) for _ in range(rnd.randrange(0, 5))]
    sep = rnd.choice(["; ", ";", " ; "])
    return sep.join([pair, *attrs])


def snap_cookie(c):
    return dataclasses.astuple(c)


def snap_jar(client):
    if client._cookies is None:
        return None
    return [(k, snap_cookie(v)) for k, v in client._cookies.items()]


def call(fn, *a, **kw):
    with warnings.catch_warnings():
        warnings.simplefilter("ignore")
        try:
            return ("ok", fn(*a, **kw))
        except BaseException as e:  # noqa: B036
            return ("exc", type(e), str(e))


@Request.application
def echo_app(request):
    rv = Response(request.headers.get("Cookie", "<none>"))
    for h in request.args.getlist("sc"):
        rv.headers.add("Set-Cookie", h)
    return rv


def main():
    bad = 0
    total = 0

    def fail(label, *info):
        nonlocal bad
        bad += 1
        if bad < 10:
            print("MISMATCH", label, *info)

    # 1. Cookie._from_response_header field by field
    for _ in range(20000):
        h = rand_set_cookie_header()
        sn = rnd.choice(["localhost", "example.com", "sub.example.com"])
        p = rnd.choice(["/", "/a/b", "", "nopath", "/x/"])
        o = call(lambda: snap_cookie(OrigCookie._from_response_header(sn, p, h)))
        n = call(lambda: snap_cookie(NewCookie._from_response_header(sn, p, h)))
        total += 1
        if o != n:
            fail("from_response_header", repr(h), o, n)

    # 2. jar evolution through _update_cookies_from_response and set_cookie
    for i in range(4000):
        use_cookies = rnd.random() > 0.05
        oc = OrigClient(echo_app, use_cookies=use_cookies)
        nc = NewClient(echo_app, use_cookies=use_cookies)
        for _step in range(rnd.randrange(1, 8)):
            total += 1
            if rnd.random() < 0.6:
                headers = [rand_set_cookie_header() for _ in range(rnd.randrange(0, 4))]
                sn = rnd.choice(["localhost", "example.com", "sub.example.com"])
                p = rnd.choice(["/", "/a/b", ""])
                o = call(oc._update_cookies_from_response, sn, p, list(headers))
                n = call(nc._update_cookies_from_response, sn, p, list(headers))
            else:
                kw = {}
                if rnd.random() < 0.5:
                    kw["max_age"] = rnd.choice(MAX_AGE)
                if rnd.random() < 0.4:
                    kw["expires"] = rnd.choice(EXPIRES)
                if rnd.random() < 0.4:
                    kw["domain"] = rnd.choice([d for d in DOMAINS if d is not None])
                if rnd.random() < 0.4:
                    kw["path"] = rnd.choice([p for p in PATHS if p is not None])
                if rnd.random() < 0.3:
                    kw["origin_only"] = rnd.choice([True, False])
                if rnd.random() < 0.2:
                    kw["samesite"] = rnd.choice(SAMESITE + ["bad"])
                key = rnd.choice(KEYS)
                value = rand_text()
                # dump_cookie reads the clock for Max-Age -> freeze by retrying until
                # both jars agree on a second boundary (sandwich)
                for _attempt in range(5):
                    o = call(oc.set_cookie, key, value, **kw)
                    n = call(nc.set_cookie, key, value, **kw)
                    if snap_jar(oc) == snap_jar(nc):
                        break
            if o != n:
                fail("step result", o, n)
                break
            if snap_jar(oc) != snap_jar(nc):
                fail("jar", snap_jar(oc), snap_jar(nc))
                break
            # what would be sent on the next request
            for base, rpath in (
                ("http://localhost/", "/"),
                ("http://example.com/", "/a/b"),
                ("http://sub.example.com/", "/a/x"),
            ):
                eo = T.EnvironBuilder(base_url=base, path=rpath).get_environ()
                en = dict(eo)
                call(oc._add_cookies_to_wsgi, eo)
                call(nc._add_cookies_to_wsgi, en)
                if eo.get("HTTP_COOKIE") != en.get("HTTP_COOKIE"):
                    fail("request header", eo.get("HTTP_COOKIE"), en.get("HTTP_COOKIE"))

    # 3. full WSGI round trips: app sets cookies, next request echoes them
    for i in range(1500):
        oc = OrigClient(echo_app)
        nc = NewClient(echo_app)
        for _step in range(3):
            hs = []
            for _ in range(rnd.randrange(0, 3)):
                h = rand_set_cookie_header()
                try:
                    h.encode("latin1")
                except UnicodeError:
                    continue
                if any(c in h for c in "\r\n\x00"):
                    continue
                hs.append(h)
            path = rnd.choice(["/", "/a/b", "/a"])
            o = call(lambda: oc.get(path, query_string={"sc": hs}).get_data(as_text=True))
            n = call(lambda: nc.get(path, query_string={"sc": hs}).get_data(as_text=True))
            total += 1
            if o != n or snap_jar(oc) != snap_jar(nc):
                fail("wsgi", hs, o, n)

    # 4. round trip of arbitrary Unicode values through the jar (the property)
    for i in range(3000):
        v = rand_text(12)
        oc = OrigClient(echo_app)
        nc = NewClient(echo_app)
        o = call(oc.set_cookie, "k", v)
        n = call(nc.set_cookie, "k", v)
        total += 1
        if o != n or snap_jar(oc) != snap_jar(nc):
            fail("value jar", repr(v), o, n)
            continue
        if o[0] == "ok":
            co, cn = oc.get_cookie("k"), nc.get_cookie("k")
            if (co is None) != (cn is None) or (cn is not None and (cn.decoded_value != v or co.decoded_value != v)):
                fail("value roundtrip", repr(v), co, cn)

    print(f"comparisons={total} mismatches={bad}")
    print("PASS" if bad == 0 else "FAIL")
    return 0 if bad == 0 else 1


if __name__ == "__main__":
    sys.exit(main())
