"""Differential check for refactoring 1 (parse_accept_header / _parse_accept_q).

Compares the worktree's ``werkzeug.http.parse_accept_header`` against a pasted copy
of the ORIGINAL implementation on generated Accept-style headers.
"""
import random
import typing as t

import werkzeug.http as http
from werkzeug import datastructures as ds
from werkzeug.http import _q_value_re
from werkzeug.http import dump_options_header
from werkzeug.http import parse_list_header
from werkzeug.http import parse_options_header


# ---- ORIGINAL implementation (pasted from the unmodified tree) ----
def orig_parse_accept_header(value, cls=None):
    if cls is None:
        cls = ds.Accept

    if not value:
        return cls(None)

    result = []

    for item in parse_list_header(value):
        item, options = parse_options_header(item)

        if "q" in options:
            # pop q, remaining options are reconstructed
            q_str = options.pop("q").strip()

            if _q_value_re.fullmatch(q_str) is None:
                # ignore an invalid q
                continue

            q = float(q_str)

            if q < 0 or q > 1:
                # ignore an invalid q
                continue
        else:
            q = 1

        if options:
            # reconstruct the media type with any options
            item = dump_options_header(item, options)

        result.append((item, q))

    return cls(result)


# ---- input generation ----
rng = random.Random(1717)

VALUES = [
    "text/html", "text/*", "*/*", "*", "application/json", "application/xhtml+xml",
    "text/plain", "image/png", "en", "en-US", "en_us", "de", "fr-CA", "zh-Hant-TW",
    "utf-8", "iso-8859-1", "latin1", "gzip", "br", "identity", "deflate", "", "x",
    "TEXT/HTML", "text/html;level=1", "*/html", "text", "a/b/c",
]
QS = [
    "1", "0", "0.5", "0.7", "0.001", "1.0", "1.000", "0.0", "1.1", "2", "-1", "-0",
    "-0.0", "-0.5", ".5", "1.", "", " ", "abc", "0,5", "1e0", "1e-1", "nan", "inf",
    "-inf", "+1", "0x1", " 0.3 ", "\t0.4", "0.3\n", "١", "²", "0.٥",
    "1" * 400, "0." + "9" * 40, "00.5", "01", "0.5.5", "0..5", "--1", '"0.5"',
    '" 0.6 "', "0 .5", "1_0", "0.5;", "0.25", "0.999", "1.0001", "0.10",
]
PARAM_NAMES = ["q", "Q", "level", "charset", "q*", "qq", "v", "q "]
SEPS = [",", ", ", " , ", ",,", ";", " ;q=0.2,"]


def gen_q():
    r = rng.random()
    if r < 0.6:
        return rng.choice(QS)
    if r < 0.8:
        return f"{rng.uniform(-0.5, 1.5):.{rng.randint(0, 4)}f}"
    if r < 0.9:
        return str(rng.randint(-2, 3))
    return "".join(rng.choice("0123456789.-+ eE\"") for _ in range(rng.randint(0, 6)))


def gen_item():
    out = rng.choice(VALUES)
    for _ in range(rng.choice([0, 0, 1, 1, 1, 2, 3])):
        name = rng.choice(PARAM_NAMES)
        if name.strip().lower() == "q" or rng.random() < 0.3:
            val = gen_q()
        else:
            val = rng.choice(["1", "utf-8", '"a b"', "", "x;y", '"a,b"'])
        eq = rng.choice(["=", "=", "=", " = ", ""])
        sc = rng.choice([";", ";", "; ", " ;"])
        out += f"{sc}{name}{eq}{val}"
    return out


def gen_header():
    r = rng.random()
    if r < 0.02:
        return rng.choice([None, "", " ", ",", ";"])
    n = rng.randint(1, 6)
    parts = [gen_item() for _ in range(n)]
    sep = rng.choice(SEPS) if rng.random() < 0.2 else ", "
    h = sep.join(parts)
    if rng.random() < 0.05:
        # random noise
        h = "".join(rng.choice(h + '";=, q01.') for _ in range(len(h)))
    return h


def run(fn, *args):
    try:
        res = fn(*args)
    except BaseException as e:  # noqa: B036
        return ("exc", type(e))
    return (
        "ok",
        type(res),
        res.provided,
        [(v, q, type(q)) for v, q in list.__iter__(res)],
        repr(res),
        res.to_header(),
    )


CLASSES = [None, ds.Accept, ds.MIMEAccept, ds.LanguageAccept, ds.CharsetAccept]
OFFERS = [
    ["text/html", "application/json", "text/plain"],
    ["en", "de", "en-US"],
    ["utf-8", "latin1"],
    ["gzip", "br", "identity"],
]

N = 12000
bad = 0
for i in range(N):
    h = gen_header()
    for cls in CLASSES:
        args = (h,) if cls is None else (h, cls)
        a = run(http.parse_accept_header, *args)
        b = run(orig_parse_accept_header, *args)
        if a != b:
            bad += 1
            if bad <= 10:
                print("MISMATCH", repr(h), cls, a, b)
            continue
        if a[0] == "ok":
            na = http.parse_accept_header(*args)
            nb = orig_parse_accept_header(*args)
            for offers in OFFERS:
                def bm(acc):
                    try:
                        return ("ok", acc.best_match(offers), acc.best)
                    except BaseException as e:  # noqa: B036
                        return ("exc", type(e))
                if bm(na) != bm(nb):
                    bad += 1
                    print("MISMATCH best_match", repr(h), cls, offers)

# direct helper checks on q strings (old inline logic vs new helper)
def orig_q(q_str):
    q_str = q_str.strip()
    if _q_value_re.fullmatch(q_str) is None:
        return None
    q = float(q_str)
    if q < 0 or q > 1:
        return None
    return q

for _ in range(5000):
    s = gen_q()
    if repr(http._parse_accept_q(s)) != repr(orig_q(s)):
        bad += 1
        print("MISMATCH q", repr(s))

print(f"checked {N} headers x {len(CLASSES)} classes; mismatches: {bad}")
print("PASS" if bad == 0 else "FAIL")
