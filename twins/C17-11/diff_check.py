"""Differential check for refactoring 2 (Accept._best_single_match / Accept.best_match).

Run: cd /tmp/wt10-C17 && PYTHONPATH=/tmp/wt10-C17/src /venv/bin/python /tmp/twin6-C17/2/diff_check.py
"""
import random

from werkzeug.datastructures import Accept
from werkzeug.datastructures import CharsetAccept
from werkzeug.datastructures import LanguageAccept
from werkzeug.datastructures import MIMEAccept
from werkzeug.datastructures.accept import _locale_delim_re
from werkzeug.http import parse_accept_header


# ---- verbatim copies of the ORIGINAL implementations -------------------------
class OrigMixin:
    def _best_single_match(self, match):
        for client_item, quality in self:
            if self._value_matches(match, client_item):
                # self is sorted by specificity descending, we can exit
                return client_item, quality
        return None

    def best_match(self, matches, default=None):
        result = default
        best_quality = -1
        best_specificity = (-1,)
        for server_item in matches:
            match = self._best_single_match(server_item)
            if not match:
                continue
            client_item, quality = match
            specificity = self._specificity(client_item)
            if quality <= 0 or quality < best_quality:
                continue
            # better quality or same quality but more specific => better match
            if quality > best_quality or specificity > best_specificity:
                result = server_item
                best_quality = quality
                best_specificity = specificity
        return result


class OrigAccept(OrigMixin, Accept):
    pass


class OrigMIMEAccept(OrigMixin, MIMEAccept):
    pass


class OrigCharsetAccept(OrigMixin, CharsetAccept):
    pass


class OrigLanguageAccept(LanguageAccept):
    # LanguageAccept.best_match (untouched by the refactoring) on top of the
    # original base implementation.
    _best_single_match = OrigMixin._best_single_match

    def best_match(self, matches, default=None):
        result = OrigMixin.best_match(self, matches)

        if result is not None:
            return result

        fallback = OrigAccept(
            [(_locale_delim_re.split(item[0], 1)[0], item[1]) for item in self]
        )
        result = fallback.best_match(matches)

        if result is not None:
            return result

        fallback_matches = [_locale_delim_re.split(item, 1)[0] for item in matches]
        result = OrigMixin.best_match(self, fallback_matches)

        if result is not None:
            return next(
                item
                for item in matches
                if _locale_delim_re.split(item, 1)[0] == result
            )

        return default


PAIRS = [
    (Accept, OrigAccept),
    (MIMEAccept, OrigMIMEAccept),
    (CharsetAccept, OrigCharsetAccept),
    (LanguageAccept, OrigLanguageAccept),
]

rnd = random.Random(170002)

MIME = [
    "text/html", "text/*", "*/*", "text/plain", "application/json",
    "application/*", "application/xml", "image/png", "image/*", "TEXT/HTML",
    "text/html;level=1", "text/html; level=1", "text/html;level=2",
    "text/html;charset=utf-8;level=1", "*/html", "*", "text", "",
    "application/xhtml+xml",
]
LANG = [
    "en", "en-US", "en_US", "en-GB", "EN-us", "de", "de-DE", "de-CH", "fr",
    "fr-CA", "zh-Hans-CN", "zh", "*", "es_419", "", "e",
]
CHARSET = [
    "utf-8", "UTF8", "utf_8", "latin-1", "iso-8859-1", "ISO_8859-1", "ascii",
    "us-ascii", "utf-16", "*", "unknown-x", "UNKNOWN-X", "",
]
PLAIN = ["gzip", "GZIP", "br", "deflate", "identity", "*", "compress", ""]
POOLS = {Accept: PLAIN, MIMEAccept: MIME, CharsetAccept: CHARSET, LanguageAccept: LANG}
QUALS = [
    0, 1, 0.5, 0.8, 0.1, 0.3, 0.9, 1.0, 0.0, 0.001, 0.5, 0.5, 1, 1,
    -0.0, -1, -0.5, 2, 1.5, float("nan"), float("inf"),
]
HEADER_QS = ["0", "1", "0.5", "0.8", "0.1", "0.9", "0.001", "1.0", "0.0", "-0", "2", "x"]


def gen_client(cls):
    pool = POOLS[cls]
    r = rnd.random()
    n = rnd.randint(0, 6)
    if r < 0.05:
        return ("raw", None)
    if r < 0.5:
        # via the header parser
        parts = []
        for _ in range(n):
            v = rnd.choice(pool)
            if rnd.random() < 0.7:
                v += ";q=" + rnd.choice(HEADER_QS)
            parts.append(v)
        return ("header", ", ".join(parts))
    quals = QUALS if rnd.random() < 0.3 else QUALS[:14]
    return ("raw", [(rnd.choice(pool), rnd.choice(quals)) for _ in range(n)])


def build(kind, data, cls):
    if kind == "header":
        return parse_accept_header(data, cls)
    return cls(data)


def gen_offers(cls):
    pool = POOLS[cls]
    n = rnd.randint(0, 6)
    offers = [rnd.choice(pool) for _ in range(n)]
    if rnd.random() < 0.15:
        offers.insert(rnd.randint(0, len(offers)), rnd.choice(MIME + LANG + PLAIN))
    return offers


def call(obj, name, *args, **kwargs):
    try:
        res = getattr(obj, name)(*args, **kwargs)
    except Exception as e:  # noqa: B902
        return ("exc", type(e), str(e))
    return ("ok", res, type(res))


def same(a, b):
    # NaN-aware comparison of observation tuples
    return repr(a) == repr(b)


def main():
    n = 0
    for _ in range(12000):
        new_cls, old_cls = rnd.choice(PAIRS)
        kind, data = gen_client(new_cls)
        new_obj = build(kind, data, new_cls)
        old_obj = build(kind, data, old_cls)
        assert list(new_obj) == list(old_obj) or any(
            q != q for _, q in new_obj
        ), (data, new_obj, old_obj)

        for _ in range(3):
            offers = gen_offers(new_cls)
            default = rnd.choice([None, None, "DEFAULT", offers[0] if offers else "x"])
            obs = []
            for obj in (new_obj, old_obj):
                o = [
                    call(obj, "best_match", list(offers)),
                    call(obj, "best_match", list(offers), default),
                    call(obj, "best_match", tuple(offers), default=default),
                    # one-shot iterables
                    call(obj, "best_match", iter(offers), default),
                    call(obj, "best_match", (x for x in offers), default),
                ]
                for offer in offers:
                    o.append(call(obj, "_best_single_match", offer))
                    o.append(call(obj, "quality", offer))
                obs.append(o)
            if not same(obs[0], obs[1]):
                print("MISMATCH", new_cls.__name__, kind, data, offers, default)
                for x, y in zip(obs[0], obs[1]):
                    if not same(x, y):
                        print("  new:", x)
                        print("  old:", y)
                print("FAIL")
                return
            n += len(obs[0])

    # sanity checks so that the comparison is known to be non-vacuous
    a = parse_accept_header("text/*;q=0.5, text/html;q=0.8, */*;q=0.1", MIMEAccept)
    assert a.best_match(["text/plain", "text/html", "image/png"]) == "text/html"
    assert a.best_match(["image/png"]) == "image/png"
    assert parse_accept_header("a;q=0", Accept).best_match(["a"], "d") == "d"
    print(f"PASS ({n} comparisons)")


main()
