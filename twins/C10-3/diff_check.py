"""Differential check for refactoring 3 (C10).

Compares werkzeug.wsgi.get_input_stream and LimitedStream.on_disconnect / exhaust
from the worktree against the ORIGINAL implementations pasted below, on generated
WSGI environs (declared lengths, chunked, server-terminated, max_content_length,
safe_fallback) wrapped around several kinds of raw streams (BytesIO, read-only
stream without readinto, short reads, streams raising OSError/ValueError), followed
by random read / readline / readall / exhaust scripts. Stream kinds, every
returned chunk, every raised exception type and the final stream positions must be
identical. Also runs Request.form / parse_form_data end to end with the original
get_input_stream patched in.

Run: cd /tmp/wt3-C10 && PYTHONPATH=/tmp/wt3-C10/src /venv/bin/python /tmp/twin-C10/3/diff_check.py
"""

from __future__ import annotations

import io
import random
import sys
import typing as t

import werkzeug.formparser as formparser
import werkzeug.wrappers.request as wrequest
from werkzeug.exceptions import ClientDisconnected
from werkzeug.exceptions import RequestEntityTooLarge
from werkzeug.wrappers import Request
from werkzeug.wsgi import get_content_length
from werkzeug.wsgi import get_input_stream
from werkzeug.wsgi import LimitedStream


class OrigLimitedStream(LimitedStream):
    # ---- ORIGINAL code, pasted verbatim from the unmodified tree ----
    def on_disconnect(self, error: Exception | None = None) -> None:
        if not self._limit_is_max or error is not None:
            raise ClientDisconnected()

        # If the limit is a maximum, then we may have read zero bytes because the
        # streaming body is complete. There's no way to distinguish that from the
        # client disconnecting early.

    def exhaust(self) -> bytes:
        if not self.is_exhausted:
            return self.readall()

        return b""

    # ---- end of ORIGINAL code ----


def orig_get_input_stream(
    environ,
    safe_fallback: bool = True,
    max_content_length: int | None = None,
) -> t.IO[bytes]:
    # ---- ORIGINAL code, pasted verbatim from the unmodified tree, except that
    # LimitedStream is spelled OrigLimitedStream so that the original
    # on_disconnect/exhaust above are used ----
    stream = t.cast(t.IO[bytes], environ["wsgi.input"])
    content_length = get_content_length(environ)

    if content_length is not None and max_content_length is not None:
        if content_length > max_content_length:
            raise RequestEntityTooLarge()

    # A WSGI server can set this to indicate that it terminates the input stream. In
    # that case the stream is safe without wrapping, or can enforce a max length.
    if "wsgi.input_terminated" in environ:
        if max_content_length is not None:
            # If this is moved above, it can cause the stream to hang if a read attempt
            # is made when the client sends no data. For example, the development server
            # does not handle buffering except for chunked encoding.
            return t.cast(
                t.IO[bytes], OrigLimitedStream(stream, max_content_length, is_max=True)
            )

        return stream

    # No limit given, return an empty stream unless the user explicitly allows the
    # potentially infinite stream. An infinite stream is dangerous if it's not expected,
    # as it can tie up a worker indefinitely.
    if content_length is None:
        return io.BytesIO() if safe_fallback else stream

    return t.cast(t.IO[bytes], OrigLimitedStream(stream, content_length))
    # ---- end of ORIGINAL code ----


class ReadOnly:
    """WSGI-minimal stream: read() only, no readinto; optional short reads and an
    optional failure after some bytes."""

    def __init__(self, data: bytes, cap: int | None, fail_at: int | None, exc) -> None:
        self._b = io.BytesIO(data)
        self.cap = cap
        self.fail_at = fail_at
        self.exc = exc
        self.calls = 0

    def read(self, n: int = -1) -> bytes:
        self.calls += 1
        if self.fail_at is not None and self._b.tell() >= self.fail_at:
            raise self.exc("boom")
        if n is None or n < 0:
            return self._b.read()
        if self.cap is not None:
            n = min(n, self.cap)
        return self._b.read(n)

    def readline(self, n: int = -1) -> bytes:
        return self._b.readline(n)

    def tell(self) -> int:
        return self._b.tell()


class WithReadinto(ReadOnly):
    def readinto(self, b) -> int:
        self.calls += 1
        if self.fail_at is not None and self._b.tell() >= self.fail_at:
            raise self.exc("boom")
        n = len(b)
        if self.cap is not None:
            n = min(n, self.cap)
        data = self._b.read(n)
        b[: len(data)] = data
        return len(data)


def make_raw(kind: int, data: bytes, cap, fail_at, exc):
    if kind == 0:
        return io.BytesIO(data)
    if kind == 1:
        return ReadOnly(data, cap, fail_at, exc)
    return WithReadinto(data, cap, fail_at, exc)


def gen_case(rng: random.Random) -> dict[str, t.Any]:
    n = rng.choice([0, 1, 5, 17, 100, 1000, 70000])
    data = bytes(rng.choice(b"abc\n") for _ in range(min(n, 300))) * (n // 300 + 1)
    data = data[:n]
    cl = rng.choice(
        ["absent", "absent", str(n), str(n), str(n), str(max(0, n - 3)), str(n + 5),
         "0", "", "abc", "-5", "+5", " 7", "1_0", str(10**7)]
    )
    mcl = rng.choice(
        [None, None, 0, 1, n, n + 1, max(0, n - 1), max(0, n - 3), n + 5, 10, 10**8]
    )
    ops = []
    for _ in range(rng.randrange(1, 6)):
        op = rng.choice(
            ["read", "read", "readn", "readn", "readline", "readall", "exhaust",
             "is_exhausted", "tell"]
        )
        ops.append((op, rng.choice([0, 1, 2, 10, 99, 1024, 65536, 10**6])))
    return dict(
        data=data,
        cl=cl,
        chunked=rng.random() < 0.15,
        terminated=rng.random() < 0.5,
        mcl=mcl,
        safe_fallback=rng.choice([True, True, False, 0, 1, None]),
        kind=rng.randrange(3),
        cap=rng.choice([None, None, 1, 7, 100]),
        fail_at=rng.choice([None, None, None, 0, n // 2, n]),
        exc=rng.choice([OSError, ValueError, RuntimeError]),
        ops=ops,
        drop_input=rng.random() < 0.01,
    )


def run_case(fn, case: dict[str, t.Any]) -> list[t.Any]:
    raw = make_raw(case["kind"], case["data"], case["cap"], case["fail_at"], case["exc"])
    environ: dict[str, t.Any] = {"wsgi.input": raw, "REQUEST_METHOD": "POST"}
    if case["drop_input"]:
        del environ["wsgi.input"]
    if case["cl"] != "absent":
        environ["CONTENT_LENGTH"] = case["cl"]
    if case["chunked"]:
        environ["HTTP_TRANSFER_ENCODING"] = "chunked"
    if case["terminated"]:
        environ["wsgi.input_terminated"] = True
    trace: list[t.Any] = []
    try:
        s = fn(environ, case["safe_fallback"], case["mcl"])
    except Exception as e:
        return [("exc", type(e))]
    if s is raw:
        trace.append(("raw",))
    elif isinstance(s, LimitedStream):
        assert type(s) in (LimitedStream, OrigLimitedStream)
        trace.append(("limited", s.limit, s._limit_is_max, s._stream is raw, s._pos))
    else:
        trace.append((type(s).__name__,))
    for op, arg in case["ops"]:
        try:
            if op == "read":
                r: t.Any = s.read()
            elif op == "readn":
                r = s.read(arg)
            elif op == "readline":
                r = s.readline()
            elif op == "readall":
                r = s.readall() if hasattr(s, "readall") else "n/a"
            elif op == "exhaust":
                r = s.exhaust() if hasattr(s, "exhaust") else "n/a"
            elif op == "is_exhausted":
                r = getattr(s, "is_exhausted", "n/a")
            else:
                r = s.tell()
            trace.append((op, arg, r))
        except Exception as e:
            trace.append((op, arg, "exc", type(e), str(e)))
    trace.append(("rawpos", raw.tell(), getattr(raw, "calls", None)))
    return trace


def direct_limited(cls, rng_seed: int) -> list[t.Any]:
    """Exercise on_disconnect / exhaust directly on both classes."""
    rng = random.Random(rng_seed)
    out: list[t.Any] = []
    for _ in range(40):
        n = rng.choice([0, 3, 50])
        limit = rng.choice([0, 1, n, n + 4, max(0, n - 2)])
        is_max = rng.choice([True, False, 0, 1])
        s = cls(io.BytesIO(b"x" * n), limit, is_max)
        for err in (None, OSError("e"), ValueError("v")):
            try:
                out.append(("od", s.on_disconnect(err) if err else s.on_disconnect()))
            except Exception as e:
                out.append(("od-exc", type(e)))
            try:
                out.append(("od-kw", s.on_disconnect(error=err)))
            except Exception as e:
                out.append(("od-kw-exc", type(e)))
        if rng.random() < 0.5:
            try:
                out.append(("pre", s.read(rng.choice([1, 2, 100]))))
            except Exception as e:
                out.append(("pre-exc", type(e)))
        for _ in range(2):
            try:
                out.append(("exhaust", s.exhaust(), s.tell(), s.is_exhausted))
            except Exception as e:
                out.append(("exhaust-exc", type(e), s.tell()))
    return out


def multipart_body(rng: random.Random) -> bytes:
    out = bytearray()
    for i in range(rng.choice([0, 1, 2, 5])):
        out += b"--bound\r\n"
        if rng.random() < 0.6:
            out += b'Content-Disposition: form-data; name="f%d"\r\n\r\n' % i
        else:
            out += (
                b'Content-Disposition: form-data; name="f%d"; filename="a.txt"\r\n'
                b"Content-Type: text/plain\r\n\r\n" % i
            )
        out += b"v" * rng.choice([0, 3, 50, 600]) + b"\r\n"
    out += b"--bound--\r\n"
    return bytes(out)


def run_request(fn, body, ctype, cl, terminated, mcl, mem, parts, kind, cap) -> t.Any:
    saved = (formparser.get_input_stream, wrequest.get_input_stream)
    formparser.get_input_stream = fn  # type: ignore[assignment]
    wrequest.get_input_stream = fn  # type: ignore[assignment]
    try:
        raw = make_raw(kind, body, cap, None, OSError)
        environ: dict[str, t.Any] = {
            "wsgi.input": raw,
            "REQUEST_METHOD": "POST",
            "CONTENT_TYPE": ctype,
            "SERVER_NAME": "localhost",
            "SERVER_PORT": "80",
            "wsgi.url_scheme": "http",
        }
        if cl is not None:
            environ["CONTENT_LENGTH"] = str(cl)
        if terminated:
            environ["wsgi.input_terminated"] = True

        res: list[t.Any] = []

        class R(Request):
            max_content_length = mcl
            max_form_memory_size = mem
            max_form_parts = parts

        req = R(dict(environ))
        try:
            form = req.form
            files = req.files
            res.append(
                (
                    "ok",
                    list(form.items(multi=True)),
                    [(k, v.filename, v.read()) for k, v in files.items(multi=True)],
                )
            )
        except Exception as e:
            res.append(("exc", type(e)))
        res.append(raw.tell())

        raw2 = make_raw(kind, body, cap, None, OSError)
        environ["wsgi.input"] = raw2
        try:
            _, form, files = formparser.parse_form_data(
                dict(environ),
                max_content_length=mcl,
                max_form_memory_size=mem,
                max_form_parts=parts,
                silent=False,
            )
            res.append(
                (
                    "ok",
                    list(form.items(multi=True)),
                    [(k, v.filename, v.read()) for k, v in files.items(multi=True)],
                )
            )
        except Exception as e:
            res.append(("exc", type(e)))
        res.append(raw2.tell())

        raw3 = make_raw(kind, body, cap, None, OSError)
        environ["wsgi.input"] = raw3
        req = R(dict(environ))
        try:
            res.append(("data", req.get_data()))
        except Exception as e:
            res.append(("data-exc", type(e)))
        return res
    finally:
        formparser.get_input_stream, wrequest.get_input_stream = saved


def main() -> int:
    rng = random.Random(0xC10_3)
    outcomes: dict[str, int] = {}
    n = 0

    for i in range(8000):
        case = gen_case(rng)
        a = run_case(orig_get_input_stream, case)
        b = run_case(get_input_stream, case)
        if a != b:
            print("FAIL get_input_stream", i, {k: v for k, v in case.items() if k != "data"})
            for x, y in zip(a, b):
                if x != y:
                    print(" orig:", repr(x)[:300])
                    print(" new :", repr(y)[:300])
                    break
            return 1
        key = "gis:" + (a[0][1].__name__ if a[0][0] == "exc" else a[0][0])
        outcomes[key] = outcomes.get(key, 0) + 1
        for step in a[1:]:
            if len(step) > 2 and step[2] == "exc":
                key = "op-exc:" + step[3].__name__
                outcomes[key] = outcomes.get(key, 0) + 1
        n += 1

    for seed in range(100):
        a = direct_limited(OrigLimitedStream, seed)
        b = direct_limited(LimitedStream, seed)
        if a != b:
            print("FAIL LimitedStream direct", seed)
            return 1
        n += 1

    for i in range(1500):
        if rng.random() < 0.7:
            body = multipart_body(rng)
            ctype = "multipart/form-data; boundary=bound"
        else:
            body = b"&".join(
                b"k%d=%s" % (j, b"v" * rng.choice([0, 5, 100]))
                for j in range(rng.choice([0, 1, 4, 30]))
            )
            ctype = "application/x-www-form-urlencoded"
        L = len(body)
        cl = rng.choice([None, L, L, L, max(0, L - 4), L + 4])
        terminated = rng.random() < 0.5
        mcl = rng.choice([None, None, 0, L, L + 1, max(0, L - 1), L // 2, 10**7])
        mem = rng.choice([None, 500_000, 10, 100, L])
        parts = rng.choice([None, 1000, 0, 1, 2, 5])
        kind = rng.randrange(3)
        cap = rng.choice([None, 1, 50])
        a = run_request(orig_get_input_stream, body, ctype, cl, terminated, mcl, mem,
                        parts, kind, cap)
        b = run_request(get_input_stream, body, ctype, cl, terminated, mcl, mem,
                        parts, kind, cap)
        if a != b:
            print("FAIL request", i, body[:200], cl, terminated, mcl, mem, parts)
            print(" orig:", repr(a)[:400])
            print(" new :", repr(b)[:400])
            return 1
        key = "req:" + (a[0][0] if a[0][0] == "ok" else a[0][1].__name__)
        outcomes[key] = outcomes.get(key, 0) + 1
        n += 1

    print("cases:", n, "outcomes:", dict(sorted(outcomes.items())))
    print("PASS")
    return 0


if __name__ == "__main__":
    sys.exit(main())
