"""C03 twin 3: differential check of the refactored MapAdapter.match (map.py) against
the original implementation (embedded below).

Run: cd /tmp/wt6-C03 && PYTHONPATH=/tmp/wt6-C03/src /venv/bin/python /tmp/twin4-C03/3/diff_check.py
"""
# ---------------------------------------------------------------------------
# Shared input generators (rule sets, request paths) for the C03 differential
# checks.  Everything is seeded, so runs are reproducible.
# ---------------------------------------------------------------------------
import random

from werkzeug.exceptions import HTTPException
from werkzeug.routing import BaseConverter
from werkzeug.routing import Map
from werkzeug.routing import RequestRedirect
from werkzeug.routing import Rule
from werkzeug.routing.exceptions import NoMatch
from werkzeug.routing.exceptions import RequestAliasRedirect
from werkzeug.routing.exceptions import RequestPath


class TwoSegConverter(BaseConverter):
    # regex contains a slash -> part_isolating is False automatically
    regex = "[a-z]+/[a-z]+"
    weight = 150


class EvenConverter(BaseConverter):
    # to_python may reject a value the regex admitted (ValidationError path)
    regex = r"\d+"
    weight = 60

    def to_python(self, value):
        from werkzeug.routing import ValidationError

        if int(value) % 2:
            raise ValidationError()
        return int(value)


EXTRA_CONVERTERS = {"two": TwoSegConverter, "even": EvenConverter}

STATIC_SEGS = ["a", "b", "foo", "bar", "x.y", "a+b", "12", "index.html", "(z)"]
VAR_SEGS = [
    "<{n}>",
    "<int:{n}>",
    "<int(signed=True):{n}>",
    "<int(fixed_digits=3):{n}>",
    "<float:{n}>",
    "<string(length=2):{n}>",
    "<string(minlength=2, maxlength=3):{n}>",
    "<any(a,b,foo):{n}>",
    "<uuid:{n}>",
    "<{n}>",
    "<int:{n}>",
    "<{n}>",
    "<int:{n}>",
    "<float:{n}>",
    "<path:{n}>",
    "<even:{n}>",
    "<path:{n}>",
    "<two:{n}>",
    "foo-<int:{n}>",
    "<{n}>.html",
    "<int:{n}>-<{n}2>",
    "pre<path:{n}>",
    "<path:{n}>.txt",
]
VALUES = [
    "a", "b", "foo", "bar", "ab", "abc", "abcd", "12", "7", "007", "-3", "1.5",
    "-2.25", "x.y", "a+b", "index.html", "foo-12", "foo-x", "12-zz", "q.html",
    "pre", "prea", "n.txt", "(z)", "z", "12345678-1234-5678-1234-567812345678",
    "a b", "%20", "ü", "",
]
METHOD_SETS = [None, None, ["GET"], ["POST"], ["GET", "POST"], ["PUT", "DELETE"], ["HEAD"]]
REQ_METHODS = ["GET", "POST", "PUT", "HEAD", "DELETE", "OPTIONS", "get"]


def gen_rule_string(rnd):
    nseg = rnd.choice([0, 1, 1, 1, 2, 2, 2, 3, 4])
    segs = []
    used = 0
    for _ in range(nseg):
        if rnd.random() < 0.5:
            segs.append(rnd.choice(STATIC_SEGS))
        else:
            segs.append(rnd.choice(VAR_SEGS).format(n=f"v{used}"))
            used += 1
    s = "/" + "/".join(segs)
    if segs and rnd.random() < 0.45:
        s += "/"
    if rnd.random() < 0.05:
        s = s.replace("/", "//", 1)
    return s


def vary_rule_string(rnd, rule):
    """Derive a sibling rule sharing a prefix with *rule* (exercises priority
    between literal/variable segments and backtracking)."""
    trailing = rule.endswith("/") and rule != "/"
    segs = [s for s in rule.strip("/").split("/")] if rule.strip("/") else []
    if not segs or rnd.random() < 0.2:
        segs.append(rnd.choice(STATIC_SEGS))
    else:
        i = rnd.randrange(len(segs))
        if rnd.random() < 0.5:
            segs[i] = rnd.choice(STATIC_SEGS)
        else:
            segs[i] = rnd.choice(VAR_SEGS).format(n=f"w{i}")
    if rnd.random() < 0.3:
        trailing = not trailing
    return "/" + "/".join(segs) + ("/" if trailing else "")


def gen_spec(rnd, idx, host_matching, previous=()):
    kwargs = {"endpoint": f"ep{idx}"}
    if previous and rnd.random() < 0.45:
        rule = vary_rule_string(rnd, rnd.choice(previous)[0])
    else:
        rule = gen_rule_string(rnd)
    kwargs["methods"] = rnd.choice(METHOD_SETS)
    r = rnd.random()
    if r < 0.2:
        kwargs["strict_slashes"] = False
    elif r < 0.3:
        kwargs["strict_slashes"] = True
    r = rnd.random()
    if r < 0.15:
        kwargs["merge_slashes"] = False
    elif r < 0.25:
        kwargs["merge_slashes"] = True
    if rnd.random() < 0.07:
        kwargs["websocket"] = True
        if kwargs["methods"] is not None:
            kwargs["methods"] = ["GET"]
    if rnd.random() < 0.12:
        kwargs["defaults"] = {"extra": rnd.choice([1, "d"])}
    if rnd.random() < 0.1:
        if host_matching:
            kwargs["host"] = rnd.choice(["example.org", "<sub>.example.org", "other"])
        else:
            kwargs["subdomain"] = rnd.choice(["api", "<sub>", "www"])
    if rnd.random() < 0.06:
        kwargs["redirect_to"] = rnd.choice(["/target", "/t/<v0>"])
        if "<v0>" in kwargs["redirect_to"] and "v0>" not in rule:
            kwargs["redirect_to"] = "/target"
    return rule, kwargs


def gen_mapspec(rnd):
    host_matching = rnd.random() < 0.15
    n = rnd.choice([1, 2, 3, 4, 6, 8, 12])
    specs = []
    for i in range(n):
        specs.append(gen_spec(rnd, i, host_matching, specs))
    # occasionally add alias / defaults pairs that share an endpoint
    if rnd.random() < 0.3:
        base_rule, base_kw = rnd.choice(specs)
        kw = dict(base_kw)
        kw.pop("redirect_to", None)
        if rnd.random() < 0.5:
            kw["alias"] = True
            specs.append((gen_rule_string(rnd), kw))
        else:
            kw["defaults"] = {"v0": 1}
            specs.insert(0, ("/dflt", kw))
    if rnd.random() < 0.4:
        rnd.shuffle(specs)
    map_kwargs = {
        "strict_slashes": rnd.random() < 0.7,
        "merge_slashes": rnd.random() < 0.7,
        "redirect_defaults": rnd.random() < 0.8,
        "host_matching": host_matching,
    }
    return specs, map_kwargs


def build_map(specs, map_kwargs, rule_cls=Rule, map_cls=Map):
    """Returns a Map or the exception raised while building it."""
    rules = [rule_cls(r, **kw) for r, kw in specs]
    return map_cls(rules, converters=dict(EXTRA_CONVERTERS), **map_kwargs)


GOOD_VALUES = {
    "default": ["foo", "a", "ab", "abc", "12", "x.y", "q.html", "12-zz"],
    "string": ["ab", "abc", "abcd", "a", "12"],
    "int": ["12", "7", "007", "-3", "123", "120"],
    "float": ["1.5", "-2.25", "12"],
    "any": ["a", "b", "foo", "bar"],
    "uuid": ["12345678-1234-5678-1234-567812345678", "abc"],
    "even": ["12", "7", "8"],
    "path": ["a", "a/b", "x/y/z", "a//b", "foo/bar", "a/b/", "n.txt", "a/n.txt"],
    "two": ["a/b", "foo/bar", "a", "a/b/c", "a/b/"],
}


def _fill(rnd, rule):
    import re

    def sub(m):
        if rnd.random() < 0.1:
            return rnd.choice(VALUES + ["a/b", "x/y/z", "a//b", "foo/bar", "a/b/"])
        conv = re.match(r"<(?:([a-zA-Z_]+)(?:\(.*\))?:)?", m.group(0)).group(1)
        return rnd.choice(GOOD_VALUES[conv or "default"])

    return re.sub(r"<[^>]+>", sub, rule)


def gen_paths(rnd, specs, n):
    out = []
    for _ in range(n):
        r = rnd.random()
        if r < 0.88 and specs:
            p = _fill(rnd, rnd.choice(specs)[0])
        else:
            k = rnd.choice([0, 1, 2, 3, 4])
            p = "/" + "/".join(rnd.choice(VALUES + STATIC_SEGS) for _ in range(k))
        m = rnd.random()
        if m < 0.15:
            p = p.rstrip("/") if rnd.random() < 0.5 else p + "/"
        elif m < 0.20:
            i = rnd.randrange(len(p) + 1)
            p = p[:i] + "/" + p[i:]
        elif m < 0.24:
            p = p.replace("/", "//")
        elif m < 0.26:
            p = p + "//"
        out.append(p)
    return out


def gen_bind(rnd, map_kwargs):
    if map_kwargs["host_matching"]:
        return {"server_name": rnd.choice(["example.org", "api.example.org", "other"])}
    return {
        "server_name": "example.org",
        "subdomain": rnd.choice([None, None, "", "api", "www", "zz"]),
        "script_name": rnd.choice(["/", "/app"]),
    }


def observe_adapter(call):
    """Normalise the outcome of a MapAdapter.match-like call."""
    try:
        rv = call()
    except RequestRedirect as e:
        return ("RequestRedirect", e.new_url, e.code)
    except HTTPException as e:
        return (type(e).__name__, getattr(e, "valid_methods", None), e.code)
    except Exception as e:  # noqa: BLE001
        return ("EXC", type(e).__name__, str(e))
    first, args = rv
    if hasattr(first, "rule") and hasattr(first, "endpoint"):
        first = ("RULE", first.rule, first.endpoint)
    return ("OK", first, sorted(args.items(), key=repr), [type(v).__name__ for _, v in sorted(args.items(), key=repr)])


def observe_matcher(matcher, domain, path, method, websocket):
    """Normalise the outcome of StateMachineMatcher.match."""
    try:
        rule, values = matcher.match(domain, path, method, websocket)
    except RequestPath as e:
        return ("RequestPath", e.path_info)
    except RequestAliasRedirect as e:
        return ("RequestAliasRedirect", e.endpoint, sorted(e.matched_values.items(), key=repr))
    except NoMatch as e:
        return ("NoMatch", list(e.have_match_for), e.websocket_mismatch)
    except Exception as e:  # noqa: BLE001
        return ("EXC", type(e).__name__, str(e))
    return ("OK", rule.rule, rule.endpoint, list(values.items()), [type(v).__name__ for v in values.values()])


ORIG_MATCH_SRC = r'''def match(
    self,
    path_info: str | None = None,
    method: str | None = None,
    return_rule: bool = False,
    query_args: t.Mapping[str, t.Any] | str | None = None,
    websocket: bool | None = None,
) -> tuple[t.Any | Rule, t.Mapping[str, t.Any]]:
    """The usage is simple: you just pass the match method the current
    path info as well as the method (which defaults to `GET`).  The
    following things can then happen:

    - you receive a `NotFound` exception that indicates that no URL is
      matching.  A `NotFound` exception is also a WSGI application you
      can call to get a default page not found page (happens to be the
      same object as `werkzeug.exceptions.NotFound`)

    - you receive a `MethodNotAllowed` exception that indicates that there
      is a match for this URL but not for the current request method.
      This is useful for RESTful applications.

    - you receive a `RequestRedirect` exception with a `new_url`
      attribute.  This exception is used to notify you about a request
      Werkzeug requests from your WSGI application.  This is for example the
      case if you request ``/foo`` although the correct URL is ``/foo/``
      You can use the `RequestRedirect` instance as response-like object
      similar to all other subclasses of `HTTPException`.

    - you receive a ``WebsocketMismatch`` exception if the only
      match is a WebSocket rule but the bind is an HTTP request, or
      if the match is an HTTP rule but the bind is a WebSocket
      request.

    - you get a tuple in the form ``(endpoint, arguments)`` if there is
      a match (unless `return_rule` is True, in which case you get a tuple
      in the form ``(rule, arguments)``)

    If the path info is not passed to the match method the default path
    info of the map is used (defaults to the root URL if not defined
    explicitly).

    All of the exceptions raised are subclasses of `HTTPException` so they
    can be used as WSGI responses. They will all render generic error or
    redirect pages.

    Here is a small example for matching:

    >>> m = Map([
    ...     Rule('/', endpoint='index'),
    ...     Rule('/downloads/', endpoint='downloads/index'),
    ...     Rule('/downloads/<int:id>', endpoint='downloads/show')
    ... ])
    >>> urls = m.bind("example.com", "/")
    >>> urls.match("/", "GET")
    ('index', {})
    >>> urls.match("/downloads/42")
    ('downloads/show', {'id': 42})

    And here is what happens on redirect and missing URLs:

    >>> urls.match("/downloads")
    Traceback (most recent call last):
      ...
    RequestRedirect: http://example.com/downloads/
    >>> urls.match("/missing")
    Traceback (most recent call last):
      ...
    NotFound: 404 Not Found

    :param path_info: the path info to use for matching.  Overrides the
                      path info specified on binding.
    :param method: the HTTP method used for matching.  Overrides the
                   method specified on binding.
    :param return_rule: return the rule that matched instead of just the
                        endpoint (defaults to `False`).
    :param query_args: optional query arguments that are used for
                       automatic redirects as string or dictionary.  It's
                       currently not possible to use the query arguments
                       for URL matching.
    :param websocket: Match WebSocket instead of HTTP requests. A
        websocket request has a ``ws`` or ``wss``
        :attr:`url_scheme`. This overrides that detection.

    .. versionadded:: 1.0
        Added ``websocket``.

    .. versionchanged:: 0.8
        ``query_args`` can be a string.

    .. versionadded:: 0.7
        Added ``query_args``.

    .. versionadded:: 0.6
        Added ``return_rule``.
    """
    self.map.update()
    if path_info is None:
        path_info = self.path_info
    if query_args is None:
        query_args = self.query_args or {}
    method = (method or self.default_method).upper()

    if websocket is None:
        websocket = self.websocket

    domain_part = self.server_name

    if not self.map.host_matching and self.subdomain is not None:
        domain_part = self.subdomain

    path_part = f"/{path_info.lstrip('/')}" if path_info else ""

    try:
        result = self.map._matcher.match(domain_part, path_part, method, websocket)
    except RequestPath as e:
        # safe = https://url.spec.whatwg.org/#url-path-segment-string
        new_path = quote(e.path_info, safe="!$&'()*+,/:;=@")
        raise RequestRedirect(
            self.make_redirect_url(new_path, query_args)
        ) from None
    except RequestAliasRedirect as e:
        raise RequestRedirect(
            self.make_alias_redirect_url(
                f"{domain_part}|{path_part}",
                e.endpoint,
                e.matched_values,
                method,
                query_args,
            )
        ) from None
    except NoMatch as e:
        if e.have_match_for:
            raise MethodNotAllowed(valid_methods=list(e.have_match_for)) from None

        if e.websocket_mismatch:
            raise WebsocketMismatch() from None

        raise NotFound() from None
    else:
        rule, rv = result

        if self.map.redirect_defaults:
            redirect_url = self.get_default_redirect(rule, method, rv, query_args)
            if redirect_url is not None:
                raise RequestRedirect(redirect_url)

        if rule.redirect_to is not None:
            if isinstance(rule.redirect_to, str):

                def _handle_match(match: t.Match[str]) -> str:
                    value = rv[match.group(1)]
                    return rule._converters[match.group(1)].to_url(value)

                redirect_url = _simple_rule_re.sub(_handle_match, rule.redirect_to)
            else:
                redirect_url = rule.redirect_to(self, **rv)

            if self.subdomain:
                netloc = f"{self.subdomain}.{self.server_name}"
            else:
                netloc = self.server_name

            raise RequestRedirect(
                urljoin(
                    f"{self.url_scheme or 'http'}://{netloc}{self.script_name}",
                    redirect_url,
                )
            )

        if return_rule:
            return rule, rv
        else:
            return rule.endpoint, rv
'''


# ---------------------------------------------------------------------------
# Driver: ORIGINAL MapAdapter.match (embedded above as ORIG_MATCH_SRC, executed
# in a copy of the werkzeug.routing.map namespace) versus the refactored
# MapAdapter.match from the worktree, on the very same adapter objects.
# ---------------------------------------------------------------------------
import sys

import werkzeug.routing.map as map_mod
from werkzeug.routing import MapAdapter

_ns = dict(map_mod.__dict__)
exec(compile("from __future__ import annotations\n" + ORIG_MATCH_SRC, "<orig MapAdapter.match>", "exec"), _ns)
orig_match = _ns["match"]
assert orig_match.__code__ is not MapAdapter.match.__code__


def observe_full(call):
    """Like observe_adapter but also records exception chaining details."""
    try:
        rv = call()
    except BaseException as e:  # noqa: BLE001
        base = observe_adapter(lambda: (_ for _ in ()).throw(e))
        return base + (
            type(e).__name__,
            type(e.__cause__).__name__,
            e.__suppress_context__,
            getattr(e, "description", None),
        )
    return observe_adapter(lambda: rv)


def callable_redirect(adapter, **values):
    return "/cb/" + "-".join(f"{k}={v}" for k, v in sorted(values.items()))


def main():
    rnd = random.Random(0x3C03)
    total = 0
    mismatches = 0
    outcomes = {}
    for mi in range(1500):
        specs, map_kwargs = gen_mapspec(rnd)
        # extra redirect_to coverage (string with placeholders / callable)
        specs = [(r, dict(kw)) for r, kw in specs]
        for r, kw in specs:
            if "redirect_to" not in kw and rnd.random() < 0.06:
                kw["redirect_to"] = callable_redirect
            elif "redirect_to" not in kw and "<int:v0>" in r and rnd.random() < 0.3:
                kw["redirect_to"] = rnd.choice(["/r/<v0>", "r/<v0>/x", "http://o.example/<v0>"])
        try:
            m = build_map(specs, map_kwargs)
        except Exception:  # noqa: BLE001
            continue
        bind = gen_bind(rnd, map_kwargs)
        bind["url_scheme"] = rnd.choice(["http", "https", "ws", ""])
        bind["default_method"] = rnd.choice(["GET", "GET", "post"])
        bound_paths = gen_paths(rnd, specs, 1)
        if rnd.random() < 0.5:
            bind["path_info"] = bound_paths[0]
        if rnd.random() < 0.3:
            bind["query_args"] = rnd.choice(["a=b", {"k": "v"}, {}])
        ad = m.bind(**bind)
        if rnd.random() < 0.1:
            ad.websocket = True
        if rnd.random() < 0.2:
            # states bind() itself never produces, reachable by constructing a
            # MapAdapter directly: subdomain None without host matching, or a
            # subdomain together with host matching
            ad.subdomain = rnd.choice([None, None, "api", "www", ""])
        for path in gen_paths(rnd, specs, 12):
            kwargs = {}
            r = rnd.random()
            if r < 0.08:
                pi = None
            elif r < 0.16:
                pi = path.lstrip("/")  # no leading slash
            elif r < 0.2:
                pi = "//" + path
            elif r < 0.22:
                pi = ""
            else:
                pi = path
            method = rnd.choice(REQ_METHODS + [None, None])
            if rnd.random() < 0.4:
                kwargs["return_rule"] = rnd.random() < 0.7
            if rnd.random() < 0.4:
                kwargs["query_args"] = rnd.choice([None, "q=1", {"q": "1", "z": "ü"}, {}, ""])
            if rnd.random() < 0.3:
                kwargs["websocket"] = rnd.choice([None, True, False, False])
            a = observe_full(lambda: ad.match(pi, method, **kwargs))
            b = observe_full(lambda: orig_match(ad, pi, method, **kwargs))
            total += 1
            outcomes[a[0]] = outcomes.get(a[0], 0) + 1
            if a != b:
                mismatches += 1
                print("MISMATCH", specs, map_kwargs, bind, pi, method, kwargs, a, b)
    print("comparisons:", total, "outcome histogram:", dict(sorted(outcomes.items())))
    if mismatches == 0 and total >= 3000:
        print("PASS")
    else:
        print("FAIL", mismatches)
        sys.exit(1)


if __name__ == "__main__":
    main()
