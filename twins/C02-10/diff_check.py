"""Differential check for refactoring 1 (MultipartEncoder.send_event).

Compares the worktree's MultipartEncoder against a pasted copy of the
original implementation on random event sequences (valid and invalid).
"""
import random
import sys
import typing as t

from werkzeug.datastructures import Headers
from werkzeug.sansio.multipart import Data
from werkzeug.sansio.multipart import Epilogue
from werkzeug.sansio.multipart import Event
from werkzeug.sansio.multipart import Field
from werkzeug.sansio.multipart import File
from werkzeug.sansio.multipart import MultipartDecoder
from werkzeug.sansio.multipart import MultipartEncoder
from werkzeug.sansio.multipart import NeedData
from werkzeug.sansio.multipart import Preamble
from werkzeug.sansio.multipart import State


class OrigMultipartEncoder:
    def __init__(self, boundary: bytes) -> None:
        self.boundary = boundary
        self.state = State.PREAMBLE

    def send_event(self, event: Event) -> bytes:
        if isinstance(event, Preamble) and self.state == State.PREAMBLE:
            self.state = State.PART
            return event.data
        elif isinstance(event, (Field, File)) and self.state in {
            State.PREAMBLE,
            State.PART,
            State.DATA,
        }:
            data = b"\r\n--" + self.boundary + b"\r\n"
            data += b'Content-Disposition: form-data; name="%s"' % event.name.encode()
            if isinstance(event, File):
                data += b'; filename="%s"' % event.filename.encode()
            data += b"\r\n"
            for name, value in t.cast(Field, event).headers:
                if name.lower() != "content-disposition":
                    data += f"{name}: {value}\r\n".encode()
            self.state = State.DATA_START
            return data
        elif isinstance(event, Data) and self.state == State.DATA_START:
            self.state = State.DATA
            if len(event.data) > 0:
                return b"\r\n" + event.data
            else:
                return event.data
        elif isinstance(event, Data) and self.state == State.DATA:
            return event.data
        elif isinstance(event, Epilogue):
            self.state = State.COMPLETE
            return b"\r\n--" + self.boundary + b"--\r\n" + event.data
        else:
            raise ValueError(f"Cannot generate {event} in state: {self.state}")


rng = random.Random(20261003)
ALPHABET = (
    "abcXYZ019 -_.;=:%'&+/<>\téßЖ中文\U0001f600​\x7f\x00"
)


def rand_text(maxlen=8, allow_bad=False):
    chars = ALPHABET + ('"\\\r\n\ud800' if allow_bad else "")
    return "".join(rng.choice(chars) for _ in range(rng.randint(0, maxlen)))


def rand_bytes(boundary):
    pieces = [
        b"\r\n", b"\r", b"\n", b"--", b"-", boundary, b"--" + boundary,
        b"\r\n--" + boundary[:-1], b"\r\n--" + boundary + b"-", b"\x00", b"\xff",
        bytes(rng.randrange(256) for _ in range(rng.randint(0, 6))), b"",
    ]
    return b"".join(rng.choice(pieces) for _ in range(rng.randint(0, 6)))


def rand_headers(allow_bad):
    hs = Headers()
    for _ in range(rng.randint(0, 3)):
        name = rng.choice(
            ["Content-Type", "content-disposition", "Content-Disposition",
             "X-Custom", "Content-Length", "CONTENT-TYPE", "X-" + rand_text(3).replace("\x00", "")]
        )
        value = rng.choice(["text/plain", "text/plain; charset=utf-8", "5", rand_text(6)])
        try:
            hs.add(name, value)
        except Exception:
            pass
    if allow_bad and rng.random() < 0.1:
        return None  # .headers iteration raises TypeError
    return hs


def rand_event(boundary, allow_bad):
    k = rng.random()
    if k < 0.12:
        return Preamble(data=rand_bytes(boundary))
    if k < 0.37:
        name = rand_text(allow_bad=allow_bad)
        if allow_bad and rng.random() < 0.05:
            name = None
        return Field(name=name, headers=rand_headers(allow_bad))
    if k < 0.62:
        filename = rand_text(allow_bad=allow_bad)
        if allow_bad and rng.random() < 0.05:
            filename = None
        return File(name=rand_text(allow_bad=allow_bad), filename=filename,
                    headers=rand_headers(allow_bad))
    if k < 0.9:
        return Data(data=rand_bytes(boundary), more_data=rng.random() < 0.5)
    if k < 0.97:
        return Epilogue(data=rand_bytes(boundary))
    return rng.choice([NeedData(), Event(), None, "x"])


def run(enc, events):
    out = []
    for ev in events:
        try:
            r = enc.send_event(ev)
            out.append(("ok", type(r), r, enc.state))
        except Exception as e:  # noqa: BLE001
            out.append(("exc", type(e), str(e) if isinstance(e, ValueError) else None, enc.state))
    return out


def decode_all(boundary, body):
    dec = MultipartDecoder(boundary)
    dec.receive_data(body)
    dec.receive_data(None)
    evs = []
    try:
        while True:
            ev = dec.next_event()
            evs.append(ev)
            if isinstance(ev, Epilogue):
                break
    except Exception as e:  # noqa: BLE001
        evs.append(type(e))
    return evs


def main():
    n = 0
    # 1. random (mostly arbitrary) event sequences
    for i in range(6000):
        blen = rng.choice([1, 2, 5, 16, 40, 70])
        boundary = "".join(rng.choice("abcXYZ0189-_'") for _ in range(blen)).encode()
        allow_bad = i % 3 == 0
        events = [rand_event(boundary, allow_bad) for _ in range(rng.randint(1, 10))]
        a = run(OrigMultipartEncoder(boundary), events)
        b = run(MultipartEncoder(boundary), events)
        if a != b:
            print("FAIL (random sequence)", boundary, events, a, b, sep="\n")
            return 1
        n += 1
    # 2. well-formed forms: encode with both, compare bytes and decoded events
    for i in range(4000):
        blen = rng.choice([1, 3, 16, 40, 70])
        boundary = "".join(rng.choice("abcXYZ0189-_'") for _ in range(blen)).encode()
        events = [Preamble(data=b"")] if rng.random() < 0.8 else []
        for _ in range(rng.randint(0, 5)):
            if rng.random() < 0.5:
                events.append(Field(name=rand_text(), headers=rand_headers(False)))
            else:
                events.append(File(name=rand_text(), filename=rand_text(),
                                   headers=rand_headers(False)))
            chunks = [rand_bytes(boundary) for _ in range(rng.randint(0, 3))]
            for c in chunks:
                events.append(Data(data=c, more_data=True))
            events.append(Data(data=rand_bytes(boundary) if rng.random() < 0.5 else b"",
                               more_data=False))
        events.append(Epilogue(data=b""))
        a = run(OrigMultipartEncoder(boundary), events)
        b = run(MultipartEncoder(boundary), events)
        if a != b:
            print("FAIL (form)", boundary, events, a, b, sep="\n")
            return 1
        body_a = b"".join(x[2] for x in a if x[0] == "ok")
        body_b = b"".join(x[2] for x in b if x[0] == "ok")
        if decode_all(boundary, body_a) != decode_all(boundary, body_b):
            print("FAIL (decode)")
            return 1
        n += 1
    # 3. odd boundary types
    for boundary in [bytearray(b"abc"), "abc", None, memoryview(b"abc")]:
        for events in (
            [Field(name="a", headers=Headers()), Data(data=b"x", more_data=False), Epilogue(data=b"")],
            [Field(name=None, headers=Headers())],
            [File(name="a", filename=None, headers=None)],
            [Epilogue(data=b"")],
        ):
            a = run(OrigMultipartEncoder(boundary), events)
            b = run(MultipartEncoder(boundary), events)
            if a != b:
                print("FAIL (odd boundary)", boundary, events, a, b, sep="\n")
                return 1
            n += 1
    print(f"PASS ({n} cases)")
    return 0


if __name__ == "__main__":
    sys.exit(main())
