"""Differential check for refactoring 2 (check_pin_trust / _fail_pin_auth).

Run: cd /tmp/wt3-C20 && PYTHONPATH=/tmp/wt3-C20/src /venv/bin/python /tmp/twin-C20/2/diff_check.py
"""
from __future__ import annotations

import random

import werkzeug.debug as wd
from werkzeug.debug import DebuggedApplication
from werkzeug.debug import hash_pin
from werkzeug.debug import PIN_TIME
from werkzeug.http import parse_cookie
from werkzeug.test import Client


class Clock:
    """Deterministic stand-in for the ``time`` module used by werkzeug.debug."""

    def __init__(self):
        self.now = 1_700_000_000.25
        self.sleeps = []

    def time(self):
        return self.now

    def sleep(self, s):
        self.sleeps.append(s)


clock_new = Clock()
clock_old = Clock()
wd.time = clock_new  # refactored code in the worktree reads werkzeug.debug.time
time = clock_old  # pasted original code below reads this module's ``time``


# ---------------------------------------------------------------- ORIGINAL
class OrigApp(DebuggedApplication):
    def check_pin_trust(self, environ):
        if self.pin is None:
            return True
        val = parse_cookie(environ).get(self.pin_cookie_name)
        if not val or "|" not in val:
            return False
        ts_str, pin_hash = val.split("|", 1)

        try:
            ts = int(ts_str)
        except ValueError:
            return False

        if pin_hash != hash_pin(self.pin):
            return None
        return (time.time() - PIN_TIME) < ts

    def _fail_pin_auth(self):
        with self._failed_pin_auth.get_lock():
            count = self._failed_pin_auth.value
            self._failed_pin_auth.value = count + 1

        time.sleep(5.0 if count > 5 else 0.5)


# ---------------------------------------------------------------- helpers
class FakeFrame:
    def eval(self, code):
        return f"EVAL<{code}>"


def inner_app(environ, start_response):
    start_response("200 OK", [("Content-Type", "text/plain")])
    return [b"inner"]


def make(cls, pin, secret="S3CRET"):
    app = cls(inner_app, evalex=True, pin_security=True, pin_logging=False)
    app._pin = pin
    app._pin_cookie = "__wzdtest"
    app.secret = secret
    app.frames[7] = FakeFrame()
    return app


def run(fn, *a, **kw):
    try:
        rv = fn(*a, **kw)
        return ("ok", type(rv).__name__, rv)
    except BaseException as e:  # noqa: B036
        return ("exc", type(e).__name__, str(e))


def gen_cookie_values(rng, pin):
    now = int(clock_new.now)
    good = hash_pin(pin) if pin is not None else "0" * 12
    edge = now - PIN_TIME
    ts_choices = [
        str(now), str(now - 1), str(edge), str(edge + 1), str(edge - 1), str(edge + 2),
        "0", "-1", "+5", " 12 ", "1_0", "１２３", str(10**30), "9" * 5000, "", "abc", "1.5",
        "0x10", "1e9", str(now) + " ", "\t" + str(now), "٣", "--1", "1|2",
    ]
    hash_choices = [
        good, good.upper(), good[:-1], good + "x", "", "|" + good, good + "|", "x" * 12,
        hash_pin("other"), " " + good, good + "|" + good,
    ]
    vals = ["", "|", "||", "nopipe", good, str(now), "|" + good, str(now) + "|"]
    for ts in ts_choices:
        for h in hash_choices:
            vals.append(f"{ts}|{h}")
    alphabet = list("0123456789|-+ _abcdef") + [good, str(now), str(edge)]
    for _ in range(1500):
        vals.append("".join(rng.choice(alphabet) for _ in range(rng.randint(0, 6))))
    return vals


def cookie_header(name, val):
    # quote so that parse_cookie gives back exactly ``val`` where possible; also try raw
    return f'{name}={val}'


def main():
    rng = random.Random(202)
    n = 0
    mism = []

    def cmp(label, a, b):
        nonlocal n
        n += 1
        if a != b:
            mism.append((label, a, b))

    # ---- 1. check_pin_trust on generated cookies, several pins and clocks
    for pin in ("123-456-789", "000-000-000", "pïn", "", None):
        new, old = make(DebuggedApplication, pin), make(OrigApp, pin)
        for val in gen_cookie_values(rng, pin):
            for shift in (0.0, 0.75, -0.25, 1.0):
                clock_new.now = clock_old.now = 1_700_000_000.25 + shift
                envs = [
                    {"HTTP_COOKIE": cookie_header("__wzdtest", val)},
                    {"HTTP_COOKIE": f'__wzdtest="{val}"'},
                    {"HTTP_COOKIE": f"a=b; __wzdtest={val}; __wzdtest=x|y"},
                ]
                for env in envs:
                    cmp(("cpt", pin, val, shift), run(old.check_pin_trust, dict(env)), run(new.check_pin_trust, dict(env)))
                if shift:
                    continue
        for env in ({}, {"HTTP_COOKIE": ""}, {"HTTP_COOKIE": "other=1|2"}, {"HTTP_COOKIE": "__wzdtest"}):
            cmp(("cpt-e", pin, env), run(old.check_pin_trust, dict(env)), run(new.check_pin_trust, dict(env)))
        # extreme clocks
        for now in (float("nan"), float("inf"), -float("inf"), 0.0, 1e30):
            clock_new.now = clock_old.now = now
            for ts in ("0", "-1", str(10**40), str(-PIN_TIME), str(-PIN_TIME + 1)):
                val = f"{ts}|{hash_pin(pin) if pin is not None else 'x'}"
                env = {"HTTP_COOKIE": f"__wzdtest={val}"}
                cmp(("cpt-x", pin, now, ts), repr(run(old.check_pin_trust, dict(env))), repr(run(new.check_pin_trust, dict(env))))
        clock_new.now = clock_old.now = 1_700_000_000.25

    # ---- 2. _fail_pin_auth: counter + sleep sequence (incl. wrap of the "B" counter)
    new, old = make(DebuggedApplication, "123-456-789"), make(OrigApp, "123-456-789")
    for i in range(600):
        old._fail_pin_auth()
        new._fail_pin_auth()
        cmp(("fpa", i), (old._failed_pin_auth.value, clock_old.sleeps[-1], len(clock_old.sleeps)),
            (new._failed_pin_auth.value, clock_new.sleeps[-1], len(clock_new.sleeps)))
        if rng.random() < 0.02:
            v = rng.randint(0, 255)
            old._failed_pin_auth.value = new._failed_pin_auth.value = v

    # ---- 3. end to end request sequences through __call__ (pinauth / eval / console)
    def snapshot(resp, app, clock):
        return (resp.status, sorted(resp.headers.to_wsgi_list()), resp.get_data(), app._failed_pin_auth.value, tuple(clock.sleeps[-3:]), len(clock.sleeps))

    for seed in range(12):
        r = random.Random(seed)
        pin = "123-456-789"
        new, old = make(DebuggedApplication, pin), make(OrigApp, pin)
        cn, co = Client(new), Client(old)
        good_cookie = lambda off=0: f"{int(clock_new.now) - off}|{hash_pin(pin)}"  # noqa: E731
        for step in range(220):
            host = r.choice(["localhost", "localhost", "localhost:5000", "127.0.0.1", "evil.com", "evillocalhost", "a.localhost"])
            kind = r.choice(["pinauth", "pinauth", "pinauth", "eval", "console", "printpin", "plain"])
            secret = r.choice(["S3CRET", "S3CRET", "S3CRET", "bad", None])
            cookie = r.choice([None, None, good_cookie(), good_cookie(PIN_TIME + 5), good_cookie(PIN_TIME), f"{int(clock_new.now)}|deadbeef0000", "junk", "5|", "|"])
            entered = r.choice([pin, "123456789", " 123-456-789 ", "000", "wrong", "", None])
            qs = {}
            path = "/"
            if kind == "pinauth":
                qs = {"__debugger__": "yes", "cmd": "pinauth", "s": secret, "pin": entered}
            elif kind == "printpin":
                qs = {"__debugger__": "yes", "cmd": "printpin", "s": secret}
            elif kind == "eval":
                qs = {"__debugger__": "yes", "cmd": "1+1", "frm": r.choice(["7", "8", "x"]), "s": secret}
            elif kind == "console":
                path = "/console"
            qs = {k: v for k, v in qs.items() if v is not None}
            headers = {"Host": host}
            if cookie is not None:
                headers["Cookie"] = f"__wzdtest={cookie}"
            # Client keeps its own cookie jar; disable by fresh clients w/o cookies
            cn_, co_ = Client(new, use_cookies=False), Client(old, use_cookies=False)
            def req(client, app, clock):
                try:
                    resp = client.get(path, query_string=qs, headers=headers)
                except Exception as e:
                    return ("exc", type(e).__name__, str(e), app._failed_pin_auth.value, len(clock.sleeps))
                return snapshot(resp, app, clock)

            cmp(("e2e", seed, step, kind, host, secret, cookie, entered), req(co_, old, clock_old), req(cn_, new, clock_new))
            if r.random() < 0.1:
                clock_new.now += 1000.5
                clock_old.now += 1000.5
        clock_new.now = clock_old.now = 1_700_000_000.25

    print(f"compared {n} cases, {len(mism)} mismatches")
    for m in mism[:10]:
        print("MISMATCH", m)
    print("PASS" if not mism and n > 3000 else "FAIL")


if __name__ == "__main__":
    main()
