"""Differential check for refactoring 2 (sansio.http.parse_cookie loop restructure,
_cookie_unslash_replace rewrite). Compares the worktree implementation against a
pasted copy of the ORIGINAL.

Run: cd /tmp/wt6-C13 && PYTHONPATH=/tmp/wt6-C13/src /venv/bin/python /tmp/twin4-C13/2/diff_check.py
"""
from __future__ import annotations

import random
import re
import sys
import warnings

import werkzeug.sansio.http as S
from werkzeug import datastructures as ds
from werkzeug.http import dump_cookie
from werkzeug.http import parse_cookie as wsgi_parse_cookie

assert S.__file__.startswith("/tmp/wt6-C13/"), S.__file__

# ---------------------------------------------------------------- ORIGINAL
_cookie_re = re.compile(
    r"""
    ([^=;]*)
    (?:\s*=\s*
      (
        "(?:[^\\"]|\\.)*"
      |
        .*?
      )
    )?
    \s*;\s*
    """,
    flags=re.ASCII | re.VERBOSE,
)
_cookie_unslash_re = re.compile(rb"\\([0-3][0-7]{2}|.)")


def orig_unslash_replace(m):
    v = m.group(1)

    if len(v) == 1:
        return v

    return int(v, 8).to_bytes(1, "big")


def orig_parse_cookie(cookie=None, cls=None):
    if cls is None:
        cls = ds.MultiDict

    if not cookie:
        return cls()

    cookie = f"{cookie};"
    out = []

    for ck, cv in _cookie_re.findall(cookie):
        ck = ck.strip()
        cv = cv.strip()

        if not ck:
            continue

        if len(cv) >= 2 and cv[0] == cv[-1] == '"':
            cv = _cookie_unslash_re.sub(
                orig_unslash_replace, cv[1:-1].encode()
            ).decode(errors="replace")

        out.append((ck, cv))

    return cls(out)


# ---------------------------------------------------------------- generators
rnd = random.Random(0xC13 + 2)
TOKENS = [
    '"', '""', '\\', '\\\\', '\\"', ";", "; ", " ;", "=", " = ", ",", " ", "\t", "\n",
    "\r\n", "\x00", "\x1f", "\x7f", "\x80", "\xff", "\x85", "\xa0", " ", "　",
    "é", "€", "\U0001f600", "\ud800", "\\073", "\\054", "\\377", "\\400", "\\08", "\\12",
    "\\303\\251", "\\303", "\\n", "a", "b", "key", "val", "0", "7", "a=b", 'a="b"',
    'a="b;c"', 'a="b\\"c"', 'x="', '"="', "=v", "k=", "k", ";;", "\x1c", "\x0b", "\x0c",
]


def rand_header():
    n = rnd.randint(0, 10)
    return "".join(rnd.choice(TOKENS) for _ in range(n))


def rand_text(maxlen=10):
    out = []
    for _ in range(rnd.randint(0, maxlen)):
        r = rnd.random()
        if r < 0.5:
            out.append(rnd.choice(TOKENS))
        elif r < 0.9:
            out.append(chr(rnd.randint(0, 0x2FF)))
        else:
            c = rnd.randint(0, 0x10FFFF)
            if 0xD800 <= c < 0xE000:
                c = 0x41
            out.append(chr(c))
    return "".join(out)


def norm(res):
    if isinstance(res, ds.MultiDict):
        return (type(res), list(res.items(multi=True)))
    if isinstance(res, dict):
        return (type(res), list(res.items()))
    return (type(res), res)


def call(fn, *a, **kw):
    try:
        return ("ok", norm(fn(*a, **kw)))
    except BaseException as e:  # noqa: BLE001
        return ("exc", type(e), str(e))


def main():
    bad = 0
    n = 0

    # 1. unslash callback on every possible match of _cookie_unslash_re
    blobs = [b"\\" + bytes([c]) for c in range(256)]
    blobs += [b"\\%03o" % c for c in range(512)]
    blobs += [b"\\%d%d%d" % (a, b, c) for a in range(10) for b in range(10) for c in range(10)]
    for blob in blobs:
        n += 1
        a = _cookie_unslash_re.sub(orig_unslash_replace, blob + b"x" + blob)
        b = S._cookie_unslash_re.sub(S._cookie_unslash_replace, blob + b"x" + blob)
        if a != b:
            bad += 1
            print("UNSLASH MISMATCH", blob, a, b)

    cases = []
    # 2. fixed edge cases
    cases += [None, "", ";", "=", '"', '""', 'a=""', 'a="', 'a=" "', 'a= "x" ', 'a="x"y',
              'a="\\"', 'a="\\\\"', 'a = "b" ; c = d', "a;b;c", "a=1;a=2", " =x", b"a=b", 5,
              'a="\\303\\251"', 'a="\\303"', 'a="\\777"', 'a="\n"', 'a="\\\n"', 'a="é"']
    # 3. every single char as quoted / unquoted value and as key
    for c in list(range(0, 0x500)) + [0x2028, 0x2029, 0x3000, 0xFEFF, 0xD800, 0x1F600]:
        ch = chr(c)
        cases += [f"k={ch}", f'k="{ch}"', f"{ch}=v", f'k="\\{ch}"', f"k= {ch} ;x=y"]
    # 4. dump_cookie output for random values (the property's round trip)
    for _ in range(6000):
        v = rand_text()
        try:
            with warnings.catch_warnings():
                warnings.simplefilter("ignore")
                h = dump_cookie("k", v, path=None)
        except UnicodeEncodeError:
            continue
        cases.append(h)
        cases.append(h + "; other=" + rand_header())
    # 5. random junk
    for _ in range(15000):
        cases.append(rand_header())

    for c in cases:
        for cls in (None, dict, ds.MultiDict, ds.ImmutableMultiDict):
            n += 1
            r1 = call(orig_parse_cookie, c, cls)
            r2 = call(S.parse_cookie, c, cls)
            if r1 != r2:
                bad += 1
                if bad < 10:
                    print("MISMATCH", repr(c), cls, r1, r2)
        # also via the WSGI wrapper (default cls), which first re-decodes the
        # latin1-tunnelled header as UTF-8 and then delegates to sansio parse_cookie
        if isinstance(c, str):
            n += 1
            try:
                tunnelled = c.encode("latin1").decode(errors="replace") if c else c
            except UnicodeEncodeError:
                continue
            r1 = call(orig_parse_cookie, tunnelled)
            r2 = call(wsgi_parse_cookie, c)
            if r1 != r2:
                bad += 1
                if bad < 10:
                    print("WSGI MISMATCH", repr(c), r1, r2)

    print(f"{n} cases, {bad} mismatches")
    print("PASS" if bad == 0 else "FAIL")
    return 0 if bad == 0 else 1


if __name__ == "__main__":
    sys.exit(main())
