"""Differential check: refactored sansio Response._clean_status vs. original."""
import random
from http import HTTPStatus

from werkzeug.http import HTTP_STATUS_CODES
from werkzeug.sansio.response import Response as SansResponse
from werkzeug.wrappers import Response


def orig_clean_status(self, value):
    if isinstance(value, (int, HTTPStatus)):
        status_code = int(value)
    else:
        value = value.strip()

        if not value:
            raise ValueError("Empty status argument")

        code_str, sep, _ = value.partition(" ")

        try:
            status_code = int(code_str)
        except ValueError:
            # only message
            return f"0 {value}", 0

        if sep:
            # code and message
            return value, status_code

    # only code, look up message
    try:
        status = f"{status_code} {HTTP_STATUS_CODES[status_code].upper()}"
    except KeyError:
        status = f"{status_code} UNKNOWN"

    return status, status_code


def run(fn, value):
    try:
        r = fn(value)
        return ("ok", r, [type(x) for x in r])
    except BaseException as e:  # noqa: B036
        return ("exc", type(e), str(e))


class MyInt(int):
    pass


def gen(rng):
    k = rng.randrange(12)
    if k == 0:
        return rng.randrange(-50, 1000)
    if k == 1:
        return rng.choice(list(HTTPStatus))
    if k == 2:
        return str(rng.randrange(0, 1000))
    if k == 3:
        return f"{rng.randrange(0, 700)} {rng.choice(['OK', 'wat', '', ' x ', 'Not Found'])}"
    if k == 4:
        return rng.choice(["", " ", "\t", "\n", "  \r\n "])
    if k == 5:
        return rng.choice(["wtf", "unknown status", "OK 200", "²00", "٢٠٠", "٢٠٠ OK", "+200", "-1", "2_0_0", "2_0_0 OK", " 200 ", "200\tOK", "200 OK", "1e2", "0x10"])
    if k == 6:
        return rng.choice([True, False, MyInt(200), MyInt(299), 10**30, -10**30])
    if k == 7:
        return rng.choice([None, 2.5, 200.0, b"200 OK", b"", (200,), [200], object()])
    if k == 8:
        alphabet = "0123456789 \t\nOKab-+_٠²"
        return "".join(rng.choice(alphabet) for _ in range(rng.randrange(0, 8)))
    if k == 9:
        return rng.choice(list(HTTP_STATUS_CODES))
    if k == 10:
        return " " * rng.randrange(3) + str(rng.choice(list(HTTP_STATUS_CODES))) + " " * rng.randrange(3)
    return str(rng.choice(list(HTTP_STATUS_CODES))) + " " + rng.choice(["X", "custom reason", "é"])


def main():
    rng = random.Random(505)
    sans = SansResponse()
    n = 0
    bad = 0
    for _ in range(20000):
        v = gen(rng)
        a = run(lambda x: orig_clean_status(sans, x), v)
        b = run(sans._clean_status, v)
        n += 1
        if a != b:
            bad += 1
            print("MISMATCH", repr(v), a, b)
    # through the public API (constructor, status and status_code setters)
    for _ in range(4000):
        v = gen(rng)
        exp = run(lambda x: orig_clean_status(sans, x), v)

        def via_ctor(x):
            r = Response(status=x)
            return r.status, r.status_code

        def via_status(x):
            r = Response()
            r.status = x
            return r.status, r.status_code

        def via_code(x):
            r = Response()
            r.status_code = x
            return r.status, r.status_code

        fns = [via_status, via_code]
        if v is not None:
            fns.append(via_ctor)
        for fn in fns:
            got = run(fn, v)
            n += 1
            if got != exp:
                bad += 1
                print("MISMATCH(api)", fn.__name__, repr(v), exp, got)
    # a mutated status table must be honoured identically
    HTTP_STATUS_CODES[799] = "Custom"
    try:
        for v in (799, "799", MyInt(799)):
            a = run(lambda x: orig_clean_status(sans, x), v)
            b = run(sans._clean_status, v)
            n += 1
            if a != b:
                bad += 1
                print("MISMATCH(table)", v, a, b)
    finally:
        del HTTP_STATUS_CODES[799]
    print(f"{n} cases, {bad} mismatches")
    print("PASS" if bad == 0 else "FAIL")


if __name__ == "__main__":
    main()
