"""Differential check for refactoring 1 (DechunkedInput.readinto).

Compares werkzeug.serving.DechunkedInput from the worktree against a pasted
copy of the original class on generated chunked streams (well-formed and
malformed) under many read patterns. Compared: returned data / counts, buffer
contents and length, exception type and message, the sequence of calls made on
the underlying rfile, the final rfile position and the final _len/_done state.
"""

from __future__ import annotations

import io
import random
import sys
import typing as t

from werkzeug.serving import DechunkedInput as NewDechunkedInput


class OrigDechunkedInput(io.RawIOBase):
    """An input stream that handles Transfer-Encoding 'chunked'"""

    def __init__(self, rfile: t.IO[bytes]) -> None:
        self._rfile = rfile
        self._done = False
        self._len = 0

    def readable(self) -> bool:
        return True

    def read_chunk_len(self) -> int:
        try:
            line = self._rfile.readline().decode("latin1")
            _len = int(line.strip(), 16)
        except ValueError as e:
            raise OSError("Invalid chunk header") from e
        if _len < 0:
            raise OSError("Negative chunk length not allowed")
        return _len

    def readinto(self, buf: bytearray) -> int:  # type: ignore
        read = 0
        while not self._done and read < len(buf):
            if self._len == 0:
                # This is the first chunk or we fully consumed the previous
                # one. Read the next length of the next chunk
                self._len = self.read_chunk_len()

            if self._len == 0:
                # Found the final chunk of size 0. The stream is now exhausted,
                # but there is still a final newline that should be consumed
                self._done = True

            if self._len > 0:
                # There is data (left) in this chunk, so append it to the
                # buffer. If this operation fully consumes the chunk, this will
                # reset self._len to 0.
                n = min(len(buf), self._len)

                # If (read + chunk size) becomes more than len(buf), buf will
                # grow beyond the original size and read more data than
                # required. So only read as much data as can fit in buf.
                if read + n > len(buf):
                    n = len(buf) - read

                data = self._rfile.read(n)

                # A short read means the stream ended inside the chunk. Don't
                # splice it into buf, that would resize the caller's buffer.
                if len(data) != n:
                    raise OSError("Unexpected end of chunked data")

                buf[read : read + n] = data
                self._len -= n
                read += n

            if self._len == 0:
                # Skip the terminating newline of a chunk that has been fully
                # consumed. This also applies to the 0-sized final chunk
                terminator = self._rfile.readline()
                if terminator not in (b"\n", b"\r\n", b"\r"):
                    raise OSError("Missing chunk terminating newline")

        return read


class TracingFile:
    """BytesIO wrapper recording every call; optionally gives short reads."""

    def __init__(self, data: bytes, short_every: int = 0, close_at: int = -1):
        self._io = io.BytesIO(data)
        self.calls: list[tuple[t.Any, ...]] = []
        self._short_every = short_every
        self._close_at = close_at

    def _tick(self) -> None:
        if self._close_at >= 0 and len(self.calls) == self._close_at:
            self._io.close()

    def readline(self, *a: t.Any) -> bytes:
        self._tick()
        self.calls.append(("readline", a))
        return self._io.readline(*a)

    def read(self, n: int = -1) -> bytes:
        self._tick()
        self.calls.append(("read", n))
        if self._short_every and len(self.calls) % self._short_every == 0 and n > 1:
            n = n - 1
        return self._io.read(n)

    def tell(self) -> int:
        try:
            return self._io.tell()
        except ValueError:
            return -1


TERMS = [b"\r\n", b"\r\n", b"\r\n", b"\n", b"\r"]
BAD_TERMS = [b"", b"x\r\n", b" \r\n", b"\n\n", b"\r\r\n", b"ab"]
BAD_HEADERS = [
    b"\r\n",
    b"zz\r\n",
    b"-5\r\n",
    b"-0\r\n",
    b"0x\r\n",
    b"5;ext=1\r\n",
    b"\xff\r\n",
    b"1 2\r\n",
    b"",
    b"+\r\n",
    b"1_0\r\n",
]


def gen_header(rng: random.Random, size: int) -> bytes:
    r = rng.random()
    if r < 0.55:
        h = f"{size:x}".encode()
    elif r < 0.65:
        h = f"{size:X}".encode()
    elif r < 0.75:
        h = b"0x" + f"{size:x}".encode()
    elif r < 0.82:
        h = b"+" + f"{size:x}".encode()
    elif r < 0.9:
        h = b"000" + f"{size:x}".encode()
    elif r < 0.95:
        h = b" \t" + f"{size:x}".encode() + b"  "
    else:
        h = b"\xa0" + f"{size:x}".encode() + b"\x85"
    return h + rng.choice(TERMS[:4])


def gen_stream(rng: random.Random) -> bytes:
    out = bytearray()
    nchunks = rng.randint(0, 6)
    for _ in range(nchunks):
        size = rng.choice([1, 1, 2, 3, 5, 8, 15, 16, 17, 31, 64, 100, 300])
        payload = bytes(rng.choice(b"abc\r\n0123\xff") for _ in range(size))
        r = rng.random()
        if r < 0.06:
            out += rng.choice(BAD_HEADERS)
        else:
            out += gen_header(rng, size)
        if r > 0.94:
            payload = payload[: rng.randint(0, size)]  # declared longer than sent
        out += payload
        if 0.06 <= r < 0.12:
            out += rng.choice(BAD_TERMS)
        else:
            out += rng.choice(TERMS)
    r = rng.random()
    if r < 0.8:
        out += gen_header(rng, 0)
        out += rng.choice(TERMS) if rng.random() < 0.85 else rng.choice(BAD_TERMS)
        if rng.random() < 0.3:
            out += b"trailing garbage\r\n"
    elif r < 0.9:
        cut = rng.randint(0, len(out))
        del out[cut:]
    return bytes(out)


def gen_ops(rng: random.Random) -> list[tuple[str, t.Any]]:
    mode = rng.choice(["readinto", "readinto_mv", "read", "readall", "buffered", "mix"])
    ops: list[tuple[str, t.Any]] = []
    if mode == "readall":
        return [("readall", None), ("read", 5)]
    if mode == "buffered":
        bs = rng.choice([1, 2, 7, 16, 8192])
        kind = rng.choice(["read", "readline", "read1", "iter"])
        return [("buffered", (bs, kind, rng.choice([1, 3, 10, 50, -1])))]
    for _ in range(rng.randint(1, 25)):
        size = rng.choice([0, 1, 1, 2, 3, 4, 7, 8, 16, 33, 100, 1000])
        if mode == "mix":
            ops.append((rng.choice(["readinto", "readinto_mv", "read"]), size))
        else:
            ops.append((mode, size))
    return ops


def state(d: t.Any, f: TracingFile) -> tuple[t.Any, ...]:
    return (d._len, d._done, f.tell(), tuple(f.calls))


def run(cls: t.Any, data: bytes, ops: list[tuple[str, t.Any]], short: int, close_at: int):
    f = TracingFile(data, short, close_at)
    d = cls(f)
    log: list[t.Any] = []
    for op, arg in ops:
        try:
            if op == "readinto":
                buf = bytearray(b"\xaa" * arg)
                n = d.readinto(buf)
                log.append((op, n, bytes(buf), len(buf)))
            elif op == "readinto_mv":
                buf = bytearray(b"\xbb" * arg)
                n = d.readinto(memoryview(buf))
                log.append((op, n, bytes(buf), len(buf)))
            elif op == "read":
                log.append((op, d.read(arg)))
            elif op == "readall":
                log.append((op, d.readall()))
            elif op == "buffered":
                bs, kind, size = arg
                br = io.BufferedReader(d, buffer_size=bs)
                res = []
                if kind == "iter":
                    res = list(br)
                else:
                    for _ in range(400):
                        chunk = getattr(br, kind)(size)
                        res.append(chunk)
                        if not chunk:
                            break
                log.append((op, res))
        except Exception as e:  # noqa: BLE001
            log.append(
                (op, "raised", type(e), str(e), type(e.__cause__), str(e.__cause__))
            )
        log.append(state(d, f))
    return log


def main() -> int:
    rng = random.Random(1907)
    n = 0
    errors = 0
    for i in range(12000):
        data = gen_stream(rng)
        ops = gen_ops(rng)
        short = rng.choice([0] * 8 + [2, 3])
        close_at = rng.choice([-1] * 12 + [0, 1, 2, 4])
        a = run(OrigDechunkedInput, data, ops, short, close_at)
        b = run(NewDechunkedInput, data, ops, short, close_at)
        n += 1
        if a != b:
            errors += 1
            if errors < 5:
                print("MISMATCH", i, data, ops, short, close_at)
                print("  orig:", a)
                print("  new: ", b)
    raised = 0
    # exhaustive small framing: every split of a payload into chunks, every
    # fixed read size
    payload = b"0123456789abcdefXYZ"
    for mask in range(1 << 9):
        cuts = [0] + [j + 1 for j in range(9) if mask >> j & 1] + [len(payload)]
        body = b"".join(
            f"{len(payload[x:y]):x}\r\n".encode() + payload[x:y] + b"\r\n"
            for x, y in zip(cuts, cuts[1:])
            if y > x
        )
        body += b"0\r\n\r\n"
        for size in (1, 2, 3, 5, 8, 19, 20, 64):
            ops = [("readinto", size)] * (len(payload) // size + 3)
            a = run(OrigDechunkedInput, body, ops, 0, -1)
            b = run(NewDechunkedInput, body, ops, 0, -1)
            n += 1
            got = b"".join(x[2][: x[1]] for x in b if x[0] == "readinto")
            if a != b or got != payload:
                errors += 1
                print("MISMATCH exhaustive", mask, size)
    print(f"cases={n} mismatches={errors}")
    print("PASS" if errors == 0 else "FAIL")
    return 0 if errors == 0 else 1


if __name__ == "__main__":
    sys.exit(main())
