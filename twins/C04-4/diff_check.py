"""Differential check for refactoring 1 (Rule._compile_builder).

Compares the refactored ``werkzeug.routing.rules.Rule._compile_builder`` from the
worktree against a copy of the ORIGINAL implementation pasted below:

  A. synthetic traces (several "|" entries, no "|" at all, defaults for values in
     the rule, converters returning non-str, empty domain / path parts): the
     generated code objects, and the results / exception types of calling the
     compiled builders, must be identical;
  B. end-to-end: the same randomly generated maps are built once with ``Rule``
     (refactored) and once with ``OrigRule`` (original builder compiler); every
     MapAdapter.build / MapAdapter.match outcome (value or exception type and
     details) must be identical, as must the code objects of all rule builders;
  C. optionally, the outcomes are compared with ``baseline.json`` recorded from
     the unmodified tree (``diff_check.py --record`` on the clean tree).

Run: cd /tmp/wt9-C04 && PYTHONPATH=/tmp/wt9-C04/src /venv/bin/python \
         /tmp/twin5-C04/1/diff_check.py
"""
from __future__ import annotations


# ---------------------------------------------------------------------------
# Shared scenario generator / runner (identical in all three diff_check.py).
#
# Everything below is pure data generation plus a runner that is parameterised
# by two factories so that the same scenarios can be executed against the
# refactored code and against the pasted ORIGINAL implementation:
#   make_map(rule_factories_builder, map_kwargs) -> Map
#   make_adapter(map, bind_kwargs)               -> MapAdapter
# ---------------------------------------------------------------------------
import json
import os
import random
import sys
import uuid
from urllib.parse import unquote
from urllib.parse import urlsplit

from werkzeug.datastructures import MultiDict
from werkzeug.routing import EndpointPrefix
from werkzeug.routing import Map
from werkzeug.routing import Rule
from werkzeug.routing import Subdomain
from werkzeug.routing import Submount

HERE = os.path.dirname(os.path.abspath(__file__))

TEXT_ALPHABET = list("abcXYZ019 ;?#%&=+@:,!$'()*~-._|<>\"\\^`{}[]") + [
    "ä",
    "ü",
    "€",
    "日本",
    "\U0001f600",
    "%20",
    "%2F",
    "\t",
]
LITERAL_ALPHABET = list("abcxyz019-._~;,=@:!$'()*+& %") + ["ä", "日", "|"]

CONVS = [
    ("default", ""),
    ("string", ""),
    ("string", "(length=3)"),
    ("string", "(minlength=2, maxlength=5)"),
    ("int", ""),
    ("int", "(signed=True)"),
    ("int", "(fixed_digits=4)"),
    ("int", "(fixed_digits=3, signed=True)"),
    ("int", "(min=5, max=500)"),
    ("float", ""),
    ("float", "(signed=True)"),
    ("float", "(min=1.5, max=99.5)"),
    ("any", "(foo, bar, 'b z', \"x;y\", ü)"),
    ("uuid", ""),
    ("path", ""),
]
ANY_ITEMS = ["foo", "bar", "b z", "x;y", "ü"]


def gen_text(rng, lo=1, hi=6, alphabet=TEXT_ALPHABET):
    return "".join(rng.choice(alphabet) for _ in range(rng.randint(lo, hi)))


def gen_value(rng, conv, args):
    """A value for converter ``conv``; mostly canonical, sometimes odd/invalid."""
    odd = rng.random() < 0.15
    if odd:
        return rng.choice(
            [None, "", "a/b", [], ["x"], ["x", "y"], 0, -1, 1.5, "abc", True, "007"]
        )
    if conv in ("default", "string"):
        if "length=3" in args and rng.random() < 0.8:
            return gen_text(rng, 3, 3)
        if "minlength" in args and rng.random() < 0.8:
            return gen_text(rng, 2, 5)
        return gen_text(rng)
    if conv == "int":
        v = rng.randint(0, 10 ** rng.randint(0, 7))
        if "signed" in args and rng.random() < 0.5:
            v = -v
        elif rng.random() < 0.05:
            v = -v
        r = rng.random()
        if r < 0.1:
            return str(v)
        if r < 0.15:
            return float(v)
        return v
    if conv == "float":
        v = round(rng.uniform(0, 10 ** rng.randint(0, 5)), rng.randint(0, 6))
        if "signed" in args and rng.random() < 0.5:
            v = -v
        r = rng.random()
        if r < 0.05:
            return rng.choice([1e-7, 1e22, float("inf"), float("nan"), -0.0])
        if r < 0.15:
            return int(v)
        if r < 0.2:
            return str(v)
        return v
    if conv == "any":
        if rng.random() < 0.85:
            return rng.choice(ANY_ITEMS)
        return gen_text(rng)
    if conv == "uuid":
        u = uuid.UUID(int=rng.getrandbits(128))
        r = rng.random()
        if r < 0.15:
            return str(u)
        if r < 0.25:
            return str(u).upper()
        if r < 0.3:
            return "not-a-uuid"
        return u
    if conv == "path":
        segs = [gen_text(rng, 1, 4) for _ in range(rng.randint(1, 4))]
        p = "/".join(segs)
        r = rng.random()
        if r < 0.05:
            p = "/" + p
        elif r < 0.1:
            p = p + "/"
        elif r < 0.15:
            p = p.replace("/", "//", 1)
        return p
    raise AssertionError(conv)


def gen_rule_spec(rng, idx, host_matching):
    """Pure-data description of one endpoint (one or two Rule objects)."""
    first = f"r{idx}"
    names = ["a", "b", "c", "d"]
    rng.shuffle(names)
    nparts = rng.randint(0, 3)
    variables = []  # (name, conv, args)
    text = "/" + first
    used_path = False
    for _ in range(nparts):
        sep = rng.choice(["/", "/", "/", "-", ".", ""]) if variables else "/"
        kind = rng.random()
        if kind < 0.25:
            text += "/" + gen_text(rng, 1, 4, LITERAL_ALPHABET)
        else:
            conv, args = rng.choice(CONVS)
            if conv == "path":
                if used_path:
                    conv, args = "int", ""
                used_path = True
            name = names.pop()
            variables.append((name, conv, args))
            if conv == "default":
                text += f"{sep or '/'}<{name}>"
            else:
                text += f"{sep or '/'}<{conv}{args}:{name}>"
    r = rng.random()
    if r < 0.3:
        text += "/"
    elif r < 0.4:
        text += "/" + gen_text(rng, 1, 3, LITERAL_ALPHABET)
    elif r < 0.45:
        text += "//x"

    spec = {
        "endpoint": f"e{idx}",
        "rule": text,
        "vars": variables,
        "kwargs": {},
        "extra_rules": [],
        "wrap": None,
    }
    kw = spec["kwargs"]
    r = rng.random()
    if r < 0.2:
        kw["methods"] = rng.choice([["GET"], ["POST"], ["GET", "POST"], ["DELETE"]])
    if rng.random() < 0.08:
        kw["websocket"] = True
        kw.pop("methods", None)
    if rng.random() < 0.1:
        kw["strict_slashes"] = rng.choice([True, False])
    if rng.random() < 0.1:
        kw["merge_slashes"] = rng.choice([True, False])
    if rng.random() < 0.05:
        kw["build_only"] = True

    # domain part
    if host_matching:
        r = rng.random()
        if r < 0.4:
            kw["host"] = "example.org"
        elif r < 0.6:
            kw["host"] = "api.example.org"
        elif r < 0.75:
            kw["host"] = "<dv>.example.org"
            variables.append(("dv", "default", ""))
        elif r < 0.85:
            kw["host"] = "<any(foo, bar):dv>.ex|am.org"
            variables.append(("dv", "any", "(foo, bar)"))
    else:
        r = rng.random()
        if r < 0.15:
            kw["subdomain"] = rng.choice(["sd", "api", "äb", "a|b"])
        elif r < 0.25:
            kw["subdomain"] = "<dv>"
            variables.append(("dv", "default", ""))
        elif r < 0.3:
            kw["subdomain"] = "<dv>|<int:dn>"
            variables.append(("dv", "default", ""))
            variables.append(("dn", "int", ""))

    # defaults
    r = rng.random()
    if variables and r < 0.25:
        # classic pair: a rule without the last path variable + defaults, and the
        # full rule.
        name, conv, args = variables[0]
        if name not in ("dv", "dn"):
            dval = gen_default(rng, conv)
            short = "/" + first + "/dflt"
            skw = dict(kw)
            # only valid when the short rule has the same argument set
            if len([v for v in variables]) == 1:
                skw["defaults"] = {name: dval}
                spec["extra_rules"].append((short, skw, True))
    elif variables and r < 0.35:
        # the "silly case": default for a value that appears in the rule
        name, conv, args = variables[0]
        kw["defaults"] = {name: gen_default(rng, conv)}
    elif r < 0.45:
        kw["defaults"] = {"extra": rng.choice([1, "x", None, "ä"])}
    if rng.random() < 0.08:
        # alias rule for the same endpoint
        akw = dict(kw)
        akw["alias"] = True
        akw.pop("defaults", None)
        spec["extra_rules"].append(
            (text.replace("/" + first, "/" + first + "/alias", 1), akw, False)
        )

    r = rng.random()
    if r < 0.12:
        spec["wrap"] = ("submount", rng.choice(["/sm", "/s m/ä", "/sm/"]))
    elif r < 0.2 and not host_matching:
        spec["wrap"] = ("subdomain", rng.choice(["wrapped", "<dv2>"]))
        if spec["wrap"][1] == "<dv2>":
            # replaces the rule's own subdomain variables
            spec["vars"] = [v for v in variables if v[0] not in ("dv", "dn")]
            spec["vars"].append(("dv2", "default", ""))
    elif r < 0.25:
        spec["wrap"] = ("prefix", "pre.")
        spec["endpoint_built"] = "pre." + spec["endpoint"]
    return spec


def gen_default(rng, conv):
    if conv == "int":
        return rng.choice([1, 7, 42])
    if conv == "float":
        return rng.choice([1.5, 2.0, 42.25])
    if conv == "any":
        return rng.choice(ANY_ITEMS)
    if conv == "uuid":
        return uuid.UUID(int=rng.getrandbits(128))
    if conv == "path":
        return rng.choice(["x/y", "dä f/;z"])
    return rng.choice(["dfl", "d f", "d;ä?", "abc"])


def gen_map_spec(rng):
    host_matching = rng.random() < 0.25
    spec = {
        "kwargs": {
            "host_matching": host_matching,
            "sort_parameters": rng.random() < 0.3,
            "strict_slashes": rng.random() < 0.8,
            "merge_slashes": rng.random() < 0.8,
            "redirect_defaults": rng.random() < 0.8,
        },
        "rules": [],
    }
    if not host_matching and rng.random() < 0.2:
        spec["kwargs"]["default_subdomain"] = "www"
    for i in range(rng.randint(2, 7)):
        spec["rules"].append(gen_rule_spec(rng, i, host_matching))
    # fixed edge cases that stress the builder compilation
    spec["rules"].append(
        {
            "endpoint": "edge1",
            "rule": "/edge1/x|y/<a>|<b>/ä ;/<int:c>",
            "vars": [("a", "default", ""), ("b", "default", ""), ("c", "int", "")],
            "kwargs": {"defaults": {"c": 5}},
            "extra_rules": [],
            "wrap": None,
        }
    )
    spec["rules"].append(
        {
            "endpoint": "edge2",
            "rule": "/edge2",
            "vars": [],
            "kwargs": {},
            "extra_rules": [("/edge2/<int:n>", {"defaults": None}, False)],
            "wrap": None,
        }
    )
    return spec


def rule_factories(spec, rule_cls):
    out = []
    for rs in spec["rules"]:
        rules = []
        for text, kw, _ in rs["extra_rules"]:
            rules.append(rule_cls(text, endpoint=rs["endpoint"], **kw))
        rules.append(rule_cls(rs["rule"], endpoint=rs["endpoint"], **rs["kwargs"]))
        wrap = rs["wrap"]
        if wrap is None:
            out.extend(rules)
        elif wrap[0] == "submount":
            out.append(Submount(wrap[1], rules))
        elif wrap[0] == "subdomain":
            out.append(Subdomain(wrap[1], rules))
        else:
            out.append(EndpointPrefix(wrap[1], rules))
    return out


def gen_bind(rng, host_matching):
    kw = {
        "server_name": rng.choice(
            ["example.org", "example.org", "api.example.org", "foo.example.org"]
            if host_matching
            else ["example.org", "example.org:8080"]
        ),
        "script_name": rng.choice(["/", "/app", "/app/", None, "/a b/ä"]),
        "url_scheme": rng.choice(
            ["http"] * 6 + ["https"] * 3 + ["ws", "wss", ""]
        ),
        "default_method": rng.choice(["GET", "GET", "GET", "POST"]),
    }
    if not host_matching:
        kw["subdomain"] = rng.choice([None, None, "", "sd", "www", "api", "foo"])
    if rng.random() < 0.2:
        kw["query_args"] = rng.choice([{"z": "1"}, "z=1&y=%C3%A4", {}])
    return kw


def gen_query(rng):
    out = {}
    for _ in range(rng.randint(0, 3)):
        key = rng.choice(["q", "page", "ü k", "a", "z;", "b&c", "extra"])
        out[key] = rng.choice(
            [
                "v",
                gen_text(rng),
                7,
                1.5,
                None,
                "",
                ["x", "y"],
                ("t", 2),
                [],
                [None, "n"],
                True,
                b"by\xc3\xa4",
            ]
        )
    return out


def gen_build_op(rng, spec):
    r = rng.random()
    if r < 0.03:
        return {"endpoint": "nope", "values": {"a": 1}, "kw": {}}
    rs = rng.choice(spec["rules"])
    values = {}
    for name, conv, args in rs["vars"]:
        if rng.random() < 0.04:
            continue  # missing value
        values[name] = gen_value(rng, conv, args)
    # rules with defaults: sometimes give the default value explicitly,
    # sometimes a different one
    for text, kw, _ in [*rs["extra_rules"], (None, rs["kwargs"], None)]:
        for k, v in (kw.get("defaults") or {}).items():
            r = rng.random()
            if r < 0.35:
                values[k] = v
            elif r < 0.5:
                values.pop(k, None)
    if rs["endpoint"] == "edge2" and rng.random() < 0.6:
        values["n"] = rng.choice([0, 3, "4", -1, None])
    if rng.random() < 0.45:
        values.update(gen_query(rng))
    container = rng.random()
    if container < 0.1:
        md = MultiDict()
        for k, v in values.items():
            if isinstance(v, (list, tuple)):
                md.setlist(k, list(v))
            else:
                md.add(k, v)
        if rng.random() < 0.3:
            md.add("q", "second")
        values = md
    elif container < 0.13:
        values = None
    kw = {}
    if rng.random() < 0.4:
        kw["force_external"] = rng.random() < 0.8
    if rng.random() < 0.25:
        kw["append_unknown"] = rng.random() < 0.3
    if rng.random() < 0.3:
        kw["method"] = rng.choice(["GET", "POST", "DELETE", "HEAD", None])
    if rng.random() < 0.15:
        kw["url_scheme"] = rng.choice(["https", "http", "ws", "wss", "", "ftp", None])
    return {
        "endpoint": rs.get("endpoint_built", rs["endpoint"]),
        "values": values,
        "kw": kw,
    }


def freeze(obj):
    """Deterministic, comparable representation of results."""
    if isinstance(obj, dict):
        return {"__dict__": [[freeze(k), freeze(v)] for k, v in obj.items()]}
    if isinstance(obj, (list, tuple)):
        return [type(obj).__name__, [freeze(x) for x in obj]]
    if isinstance(obj, float):
        return ["float", repr(obj)]
    if isinstance(obj, (str, int, bool)) or obj is None:
        return [type(obj).__name__, obj]
    if isinstance(obj, uuid.UUID):
        return ["uuid", str(obj)]
    return [type(obj).__name__, repr(obj)]


def outcome(fn):
    try:
        return ["ok", freeze(fn())]
    except RecursionError:
        raise
    except Exception as e:  # noqa: B902
        info = [type(e).__name__]
        for attr in ("new_url", "code", "valid_methods", "endpoint", "method"):
            if hasattr(e, attr):
                val = getattr(e, attr)
                if attr == "valid_methods" and val is not None:
                    val = sorted(val)
                info.append([attr, freeze(val)])
        if type(e).__name__ == "BuildError":
            info.append(["values", freeze(dict(e.values))])
            info.append(["suggested", freeze(getattr(e.suggested, "rule", None))])
        elif not hasattr(e, "code"):
            info.append(["str", str(e)])
        return ["exc", info]


def split_built_url(url, bind_kw, host_matching):
    """Turn a built URL into bind kwargs + path_info as a server would see it."""
    parts = urlsplit(url if "//" in url[:8] else url)
    new_kw = dict(bind_kw)
    server_name = bind_kw["server_name"]
    if parts.netloc:
        host = parts.netloc
        if host_matching:
            new_kw["server_name"] = host
        elif host == server_name:
            new_kw["subdomain"] = ""
        elif host.endswith("." + server_name):
            new_kw["subdomain"] = host[: -len(server_name) - 1]
    script = (bind_kw.get("script_name") or "/").rstrip("/")
    path = parts.path
    if script and path.startswith(script):
        path = path[len(script) :]
    new_kw["path_info"] = unquote(path)
    new_kw["query_args"] = parts.query
    return new_kw


def run_scenarios(make_map, make_adapter, seed, n_maps, n_ops, collect_rules=None):
    """Run all scenarios; returns a JSON-able list of results.

    Generation of specs/ops uses its own RNG streams that never depend on the
    implementation under test.
    """
    results = []
    n_build = n_match = 0
    for mi in range(n_maps):
        rng = random.Random(f"{seed}-map-{mi}")
        spec = gen_map_spec(rng)
        host_matching = spec["kwargs"]["host_matching"]
        try:
            the_map = make_map(spec)
        except RecursionError:
            raise
        except Exception as e:  # noqa: B902
            results.append(["map-exc", mi, type(e).__name__, str(e)])
            continue
        if collect_rules is not None:
            collect_rules(mi, the_map)
        results.append(
            [
                "map",
                mi,
                [
                    [r.rule, freeze(r.endpoint), sorted(r.methods or ()), freeze(r._trace)]
                    for r in the_map.iter_rules()
                ],
            ]
        )
        binds = [gen_bind(rng, host_matching) for _ in range(3)]
        for oi in range(n_ops):
            bind_kw = rng.choice(binds)
            op = gen_build_op(rng, spec)
            adapter = make_adapter(the_map, bind_kw)
            values = op["values"]
            res = outcome(
                lambda: adapter.build(
                    op["endpoint"],
                    values.copy() if values is not None else None,
                    **op["kw"],
                )
            )
            n_build += 1
            results.append(["build", mi, oi, res])
            paths = []
            if res[0] == "ok":
                url = res[1][1]
                paths.append(split_built_url(url, bind_kw, host_matching))
            if rng.random() < 0.4:
                # random / mutated paths, to exercise redirects that build URLs
                mkw = dict(bind_kw)
                base = paths[0]["path_info"] if paths else "/" + gen_text(rng)
                mut = rng.random()
                if mut < 0.3:
                    base = base.rstrip("/") if base.endswith("/") else base + "/"
                elif mut < 0.5:
                    base = base.replace("/", "//", 1)
                elif mut < 0.7:
                    base = base.replace("/alias", "", 1) + "/alias"
                mkw["path_info"] = base
                if paths:
                    for k in ("server_name", "subdomain"):
                        if k in paths[0]:
                            mkw[k] = paths[0][k]
                paths.append(mkw)
            for pi, mkw in enumerate(paths):
                try:
                    madapter = make_adapter(the_map, mkw)
                except RecursionError:
                    raise
                except Exception as e:  # noqa: B902
                    # e.g. BadHost for a built host that is not valid IDNA
                    results.append(["bind-exc", mi, oi, pi, type(e).__name__])
                    continue
                method = rng.choice([None, None, "GET", "POST", "DELETE"])
                websocket = rng.choice([None] * 8 + [True, False])
                mres = outcome(
                    lambda: madapter.match(method=method, websocket=websocket)
                )
                n_match += 1
                results.append(["match", mi, oi, pi, mres])
                if mres[0] == "ok":
                    # converse direction: rebuild from the match result
                    try:
                        ep, mvalues = madapter.match(method=method, websocket=websocket)
                    except Exception:  # noqa: B902
                        continue
                    rres = outcome(
                        lambda: madapter.build(
                            ep, mvalues, method=method, force_external=True
                        )
                    )
                    n_build += 1
                    results.append(["rebuild", mi, oi, pi, rres])
    return results, n_build, n_match


def default_make_map(spec, rule_cls=Rule, converters=None):
    return Map(rule_factories(spec, rule_cls), converters=converters, **spec["kwargs"])


def default_make_adapter(the_map, bind_kw):
    return the_map.bind(**bind_kw)


def compare_results(name, ref, new):
    if len(ref) != len(new):
        print(f"FAIL [{name}]: result count differs {len(ref)} != {len(new)}")
        return False
    for i, (a, b) in enumerate(zip(ref, new)):
        if a != b:
            print(f"FAIL [{name}]: first difference at result #{i}")
            print("  original  :", json.dumps(a, ensure_ascii=True)[:600])
            print("  refactored:", json.dumps(b, ensure_ascii=True)[:600])
            return False
    return True


def baseline_check(results, argv):
    """Optional extra: compare with results recorded on the unmodified tree."""
    path = os.path.join(HERE, "baseline.json")
    blob = json.dumps(results, ensure_ascii=True, sort_keys=True)
    if "--record" in argv:
        with open(path, "w") as f:
            f.write(blob)
        print(f"recorded baseline with {len(results)} results -> {path}")
        return None
    if not os.path.exists(path):
        print("(no baseline.json recorded; skipping baseline comparison)")
        return True
    with open(path) as f:
        recorded = f.read()
    if recorded != blob:
        print("FAIL [baseline]: results differ from those recorded on unmodified tree")
        return False
    print(f"baseline: {len(results)} results identical to the unmodified tree")
    return True

# ---------------------------------------------------------------------------
# ORIGINAL implementation (pasted verbatim from the unmodified tree)
# ---------------------------------------------------------------------------
import ast  # noqa: E402
import typing as t  # noqa: E402
from urllib.parse import quote  # noqa: E402

from werkzeug.routing import rules as _rules_mod  # noqa: E402
from werkzeug.routing.converters import BaseConverter  # noqa: E402
from werkzeug.routing.converters import ValidationError  # noqa: E402
from werkzeug.routing.rules import _CALL_CONVERTER_CODE_FMT  # noqa: E402
from werkzeug.routing.rules import _IF_KWARGS_URL_ENCODE_AST  # noqa: E402
from werkzeug.routing.rules import _prefix_names  # noqa: E402
from werkzeug.routing.rules import _URL_ENCODE_AST_NAMES  # noqa: E402


class OrigRule(Rule):
    def _compile_builder(
        self, append_unknown: bool = True
    ) -> t.Callable[..., tuple[str, str]]:
        defaults = self.defaults or {}
        dom_ops: list[tuple[bool, str]] = []
        url_ops: list[tuple[bool, str]] = []

        opl = dom_ops
        for is_dynamic, data in self._trace:
            if data == "|" and opl is dom_ops:
                opl = url_ops
                continue
            # this seems like a silly case to ever come up but:
            # if a default is given for a value that appears in the rule,
            # resolve it to a constant ahead of time
            if is_dynamic and data in defaults:
                data = self._converters[data].to_url(defaults[data])
                opl.append((False, data))
            elif not is_dynamic:
                # safe = https://url.spec.whatwg.org/#url-path-segment-string
                opl.append((False, quote(data, safe="!$&'()*+,/:;=@")))
            else:
                opl.append((True, data))

        def _convert(elem: str) -> ast.Call:
            ret = _prefix_names(_CALL_CONVERTER_CODE_FMT.format(elem=elem), ast.Call)
            ret.args = [ast.Name(elem, ast.Load())]
            return ret

        def _parts(ops: list[tuple[bool, str]]) -> list[ast.expr]:
            parts: list[ast.expr] = [
                _convert(elem) if is_dynamic else ast.Constant(elem)
                for is_dynamic, elem in ops
            ]
            parts = parts or [ast.Constant("")]
            # constant fold
            ret = [parts[0]]
            for p in parts[1:]:
                if isinstance(p, ast.Constant) and isinstance(ret[-1], ast.Constant):
                    ret[-1] = ast.Constant(ret[-1].value + p.value)
                else:
                    ret.append(p)
            return ret

        dom_parts = _parts(dom_ops)
        url_parts = _parts(url_ops)
        body: list[ast.stmt]
        if not append_unknown:
            body = []
        else:
            body = [_IF_KWARGS_URL_ENCODE_AST]
            url_parts.extend(_URL_ENCODE_AST_NAMES)

        def _join(parts: list[ast.expr]) -> ast.expr:
            if len(parts) == 1:  # shortcut
                return parts[0]
            return ast.JoinedStr(parts)

        body.append(
            ast.Return(ast.Tuple([_join(dom_parts), _join(url_parts)], ast.Load()))
        )

        pargs = [
            elem
            for is_dynamic, elem in dom_ops + url_ops
            if is_dynamic and elem not in defaults
        ]
        kargs = [str(k) for k in defaults]

        func_ast = _prefix_names("def _(): pass", ast.FunctionDef)
        func_ast.name = f"<builder:{self.rule!r}>"
        func_ast.args.args.append(ast.arg(".self", None))
        for arg in pargs + kargs:
            func_ast.args.args.append(ast.arg(arg, None))
        func_ast.args.kwarg = ast.arg(".kwargs", None)
        for _ in kargs:
            func_ast.args.defaults.append(ast.Constant(""))
        func_ast.body = body

        # Use `ast.parse` instead of `ast.Module` for better portability, since the
        # signature of `ast.Module` can change.
        module = ast.parse("")
        module.body = [func_ast]

        # mark everything as on line 1, offset 0
        # less error-prone than `ast.fix_missing_locations`
        # bad line numbers cause an assert to fail in debug builds
        for node in ast.walk(module):
            if "lineno" in node._attributes:
                node.lineno = 1  # type: ignore[attr-defined]
            if "end_lineno" in node._attributes:
                node.end_lineno = node.lineno  # type: ignore[attr-defined]
            if "col_offset" in node._attributes:
                node.col_offset = 0  # type: ignore[attr-defined]
            if "end_col_offset" in node._attributes:
                node.end_col_offset = node.col_offset  # type: ignore[attr-defined]

        code = compile(module, "<werkzeug routing>", "exec")
        return self._get_func_code(code, func_ast.name)


# ---------------------------------------------------------------------------
# helpers
# ---------------------------------------------------------------------------
CODE_FIELDS = (
    "co_code",
    "co_consts",
    "co_names",
    "co_varnames",
    "co_argcount",
    "co_kwonlyargcount",
    "co_posonlyargcount",
    "co_flags",
    "co_name",
    "co_filename",
    "co_firstlineno",
    "co_stacksize",
    "co_nlocals",
)


def code_sig(func):
    func = getattr(func, "__func__", func)
    code = func.__code__
    return [repr(getattr(code, f)) for f in CODE_FIELDS] + [repr(func.__defaults__)]


class WeirdConverter(BaseConverter):
    """to_url results that are not plain quoted strings."""

    def __init__(self, map, mode="int"):
        super().__init__(map)
        self.mode = mode

    def to_url(self, value):
        if self.mode == "int":
            return 5
        if self.mode == "none":
            return None
        if self.mode == "raise":
            raise ValidationError()
        if self.mode == "boom":
            raise KeyError(value)
        return f"<{value}>"


def part_a(n_cases):
    """Synthetic traces fed directly into both builder compilers."""
    rng = random.Random("C04-1-A")
    checked = 0
    statics = ["", "/", "|", "a", "ä b", "x|y", "/p;q", "%", "{", "}", "{x}", "'", '"']
    names = ["a", "b", "c", "d", "|", "kwargs", "self", "q", "params"]
    the_map = Map([], converters={"weird": WeirdConverter})
    for case in range(n_cases):
        trace = []
        for _ in range(rng.randint(0, 7)):
            if rng.random() < 0.45:
                trace.append((True, rng.choice(names[:6])))
            else:
                trace.append((False, rng.choice(statics)))
        r = rng.random()
        if r < 0.75:
            trace.insert(rng.randint(0, len(trace)), (False, "|"))
        elif r < 0.8:
            trace.insert(rng.randint(0, len(trace)), (True, "|"))
        dyn = [d for is_dyn, d in trace if is_dyn]
        defaults = None
        r = rng.random()
        if r < 0.5:
            defaults = {}
            for d in dyn:
                if rng.random() < 0.4:
                    defaults[d] = rng.choice([1, "x y", "ä", None, 2.5])
            if rng.random() < 0.4:
                defaults[rng.choice(["extra", "zz"])] = rng.choice([1, "s"])
        convs = {}
        for d in sorted(set(dyn) | {"a", "b"}):
            r = rng.random()
            if r < 0.6:
                convs[d] = BaseConverter(the_map)
            else:
                convs[d] = WeirdConverter(
                    the_map, rng.choice(["int", "none", "raise", "boom", "str"])
                )
        outs = []
        for cls in (OrigRule, Rule):
            rule = cls("/synthetic", endpoint="x")
            rule.map = the_map
            rule.defaults = defaults
            rule._trace = list(trace)
            rule._converters = dict(convs)
            out = []
            for flag in (False, True):
                try:
                    fn = rule._compile_builder(flag)
                except RecursionError:
                    raise
                except Exception as e:  # noqa: B902
                    out.append(["compile-exc", type(e).__name__, str(e)])
                    continue
                out.append(["code", code_sig(fn)])
                # call the compiled builder with a few argument sets
                crng = random.Random(f"call-{case}-{flag}")
                for _ in range(4):
                    kwargs = {}
                    for d in sorted(set(dyn) | set(defaults or ())):
                        if crng.random() < 0.85:
                            kwargs[d] = crng.choice(["v", "ä/ö", 3, None, "a b;c"])
                    if crng.random() < 0.4:
                        kwargs["unknown"] = crng.choice(["u", ["l", "m"], None])
                    out.append(outcome(lambda: fn(rule, **kwargs)))
            outs.append(out)
            checked += len(out)
        if outs[0] != outs[1]:
            print("FAIL [A]: synthetic trace differs", trace, defaults)
            print("  original  :", json.dumps(outs[0])[:500])
            print("  refactored:", json.dumps(outs[1])[:500])
            return False, checked
    return True, checked // 2


def main(argv):
    ok = True

    a_ok, a_n = part_a(3000)
    print(f"A: {a_n} synthetic compile/call outcomes compared -> {a_ok}")
    ok &= a_ok

    codes = {"orig": [], "new": []}

    def collector(key):
        def collect(mi, the_map):
            for r in the_map.iter_rules():
                codes[key].append(
                    [mi, r.rule, code_sig(r._build), code_sig(r._build_unknown)]
                )

        return collect

    ref, nb, nm = run_scenarios(
        lambda spec: default_make_map(spec, rule_cls=OrigRule),
        default_make_adapter,
        "C04-1",
        120,
        60,
        collector("orig"),
    )
    new, nb2, nm2 = run_scenarios(
        lambda spec: default_make_map(spec, rule_cls=Rule),
        default_make_adapter,
        "C04-1",
        120,
        60,
        collector("new"),
    )
    b_ok = compare_results("B/end-to-end", ref, new) and (nb, nm) == (nb2, nm2)
    print(f"B: {nb} build calls and {nm} match calls compared -> {b_ok}")
    ok &= b_ok
    c_ok = codes["orig"] == codes["new"] and len(codes["new"]) > 0
    print(f"B: {len(codes['new'])} rules: builder code objects identical -> {c_ok}")
    ok &= c_ok

    base = baseline_check(new, argv)
    if base is None:
        return 0
    ok &= base

    print("PASS" if ok else "FAIL")
    return 0 if ok else 1


if __name__ == "__main__":
    sys.exit(main(sys.argv[1:]))
