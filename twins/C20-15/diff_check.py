"""Differential check for refactoring 3 (DebuggedApplication.__call__ dispatch
and display_console).

Run: cd /tmp/wt12-C20 && PYTHONPATH=/tmp/wt12-C20/src /venv/bin/python /tmp/twin7-C20/3/diff_check.py

The ORIGINAL methods are pasted below into a subclass; the refactored ones are
the methods of werkzeug.debug.DebuggedApplication from the worktree.  For every
generated request we compare the WSGI status / headers / body, the sequence of
debugger handler methods that were invoked (with their results), the state of
the failure counter and any exception type raised.
"""

from __future__ import annotations

import itertools
import random
import re
import time
import typing as t
from unittest import mock
from urllib.parse import urlencode

from werkzeug.debug import _ConsoleFrame
from werkzeug.debug import DebuggedApplication
from werkzeug.debug import hash_pin
from werkzeug.debug import PIN_TIME
from werkzeug.debug.tbtools import render_console_html
from werkzeug.exceptions import SecurityError
from werkzeug.test import EnvironBuilder
from werkzeug.wrappers import Request
from werkzeug.wrappers import Response


# ---------------------------------------------------------------- ORIGINAL
class OrigDebuggedApplication(DebuggedApplication):
    def display_console(self, request: Request) -> Response:
        """Display a standalone shell."""
        if not self.check_host_trust(request.environ):
            return SecurityError()  # type: ignore[return-value]

        if 0 not in self.frames:
            if self.console_init_func is None:
                ns = {}
            else:
                ns = dict(self.console_init_func())
            ns.setdefault("app", self.app)
            self.frames[0] = _ConsoleFrame(ns)
        is_trusted = bool(self.check_pin_trust(request.environ))
        return Response(
            render_console_html(secret=self.secret, evalex_trusted=is_trusted),
            mimetype="text/html",
        )

    def __call__(self, environ, start_response):
        """Dispatch the requests."""
        request = Request(environ)
        response = self.debug_application
        if request.args.get("__debugger__") == "yes":
            cmd = request.args.get("cmd")
            arg = request.args.get("f")
            secret = request.args.get("s")
            frame = self.frames.get(request.args.get("frm", type=int))  # type: ignore
            if cmd == "resource" and arg:
                response = self.get_resource(request, arg)  # type: ignore
            elif cmd == "pinauth" and secret == self.secret:
                response = self.pin_auth(request)  # type: ignore
            elif cmd == "printpin" and secret == self.secret:
                response = self.log_pin_request(request)  # type: ignore
            elif (
                self.evalex
                and cmd is not None
                and frame is not None
                and self.secret == secret
                and self.check_pin_trust(environ)
            ):
                response = self.execute_command(request, cmd, frame)  # type: ignore
        elif (
            self.evalex
            and self.console_path is not None
            and request.path == self.console_path
        ):
            response = self.display_console(request)  # type: ignore
        return response(environ, start_response)


assert "__call__" in DebuggedApplication.__dict__
assert "display_console" in DebuggedApplication.__dict__

NOW = 1_800_000_000.25
PIN = "123-456-789"
SECRET = "s3cr3t"
COOKIE_NAME = "__wzdtest"
SPIED = [
    "get_resource",
    "pin_auth",
    "log_pin_request",
    "execute_command",
    "display_console",
    "check_pin_trust",
    "check_host_trust",
]


def inner_app(environ, start_response):
    start_response("200 OK", [("Content-Type", "text/plain")])
    return [b"inner:" + environ.get("PATH_INFO", "").encode()]


def init_ns():
    return {"marker": 42}


def make(cls, *, pin, failed, evalex, console_path, init_func, preframe):
    app = cls(
        inner_app,
        evalex=evalex,
        pin_security=True,
        console_path=console_path,
        console_init_func=init_func,
    )
    app.secret = SECRET
    app._pin = pin
    app._pin_cookie = COOKIE_NAME
    app._failed_pin_auth.value = failed
    app.pin_logging = False
    app.trusted_hosts = [".localhost", "127.0.0.1", "debug.example"]
    if preframe:
        app.frames[0] = _ConsoleFrame({"pre": 7})
        app.frames[12345] = _ConsoleFrame({"pre": 8})

    calls: list[t.Any] = []
    for name in SPIED:
        bound = getattr(app, name)

        def spy(*a, __bound=bound, __name=name, **kw):
            try:
                rv = __bound(*a, **kw)
            except BaseException as e:  # noqa: B036
                calls.append((__name, "raised", type(e)))
                raise
            if isinstance(rv, Response):
                calls.append((__name, "response", rv.status))
            elif isinstance(rv, Exception):
                calls.append((__name, "excobj", type(rv)))
            else:
                calls.append((__name, rv))
            return rv

        setattr(app, name, spy)
    return app, calls


def build_environ(host, cookie, path, params):
    b = EnvironBuilder(
        path=path, query_string=urlencode(params), base_url="http://localhost/"
    )
    env = b.get_environ()
    env.pop("HTTP_HOST", None)
    if host is not None:
        env["HTTP_HOST"] = host
    if cookie is not None:
        env["HTTP_COOKIE"] = f"{COOKIE_NAME}={cookie}"
    return env


def run(app, calls, env):
    captured: list[t.Any] = []

    def start_response(status, headers, exc_info=None):
        captured.append((status, sorted(headers)))

    sleeps: list[float] = []
    with (
        mock.patch.object(time, "sleep", sleeps.append),
        mock.patch.object(time, "time", lambda: NOW),
    ):
        try:
            body = b"".join(app(env, start_response))
            # rendered tracebacks embed id() of frame objects / reprs with
            # memory addresses, which differ from run to run
            body = re.sub(rb"frame-\d+", b"frame-N", body)
            body = re.sub(rb" at 0x[0-9a-f]+", b" at 0xN", body)
            out = ("ok", tuple(captured), body)
        except BaseException as e:  # noqa: B036
            out = ("raised", type(e), str(e))
    ns0 = None
    if 0 in app.frames:
        ns0 = sorted(k for k in app.frames[0].console._ipy.locals if not k.startswith("_"))
    return (
        out,
        tuple(calls),
        tuple(sleeps),
        app._failed_pin_auth.value,
        sorted(app.frames),
        ns0,
    )


GOOD_COOKIE = f"{int(NOW)}|{hash_pin(PIN)}"
COOKIES = [
    None,
    GOOD_COOKIE,
    f"{int(NOW - PIN_TIME) - 1}|{hash_pin(PIN)}",  # expired
    f"{int(NOW)}|{hash_pin('other')}",  # wrong hash
    "garbage",
]
HOSTS = ["localhost:5000", "a.localhost", "evil.example", "xlocalhost", None]
DEBUGGER = ["yes", "no", None, "YES", ""]
CMDS = [None, "resource", "pinauth", "printpin", "1+1", "", "pre", "marker", "app"]
FS = [None, "", "style.css", "../__init__.py", "nope.bin"]
SECRETS = [SECRET, "wrong", None, "", SECRET.upper(), SECRET + " "]
FRMS = [None, "0", "12345", "999", "abc", "", "-0", " 0"]
PATHS = ["/", "/console", "/console/", "/Console", "/other"]


def main() -> None:
    rnd = random.Random(33)
    n = bad = nondet = 0
    seen_calls: set[t.Any] = set()

    def compare(cfg, env_args):
        nonlocal n, bad, nondet
        results = []
        for cls in (OrigDebuggedApplication, OrigDebuggedApplication, DebuggedApplication):
            app, calls = make(cls, **cfg)
            results.append(run(app, calls, build_environ(*env_args)))
        if results[0] != results[1]:
            # the original disagrees with itself -> input is not deterministic
            nondet += 1
            return
        n += 1
        seen_calls.add(tuple(c[0] for c in results[0][1]))
        if results[0] != results[2]:
            bad += 1
            if bad < 15:
                print("MISMATCH", cfg, env_args)
                print("   orig:", results[0][1:], results[0][0][:2])
                print("   new: ", results[2][1:], results[2][0][:2])

    def cfg(pin=PIN, failed=0, evalex=True, console_path="/console", init_func=None, preframe=True):
        return dict(
            pin=pin,
            failed=failed,
            evalex=evalex,
            console_path=console_path,
            init_func=init_func,
            preframe=preframe,
        )

    def params(dbg, cmd, f, s, frm, pin=None):
        p = {}
        for k, v in (("__debugger__", dbg), ("cmd", cmd), ("f", f), ("s", s), ("frm", frm), ("pin", pin)):
            if v is not None:
                p[k] = v
        return p

    # 1. exhaustive over the dispatch inputs (trusted host, good cookie)
    for dbg, cmd, f, s, frm in itertools.product(DEBUGGER[:3], CMDS, FS[:3], SECRETS, FRMS[:5]):
        compare(cfg(), ("localhost:5000", GOOD_COOKIE, "/", params(dbg, cmd, f, s, frm)))

    # 2. the gates: evalex x cookie x host x secret x cmd x frame
    for evalex, cookie, host, s, cmd, frm, pin in itertools.product(
        [True, False], COOKIES, HOSTS, SECRETS[:3], ["1+1", "pinauth", "printpin", None], ["0", "999", None], [PIN, None]
    ):
        compare(
            cfg(pin=pin, evalex=evalex),
            (host, cookie, "/", params("yes", cmd, None, s, frm, pin=PIN)),
        )

    # 3. lock-out counter with pinauth through the dispatcher
    for failed, entered, cookie, s in itertools.product(
        [0, 5, 6, 10, 11, 12], [PIN, "000-000-000", None], COOKIES, SECRETS[:3]
    ):
        compare(
            cfg(failed=failed),
            ("localhost", cookie, "/", params("yes", "pinauth", None, s, None, pin=entered)),
        )

    # 4. console page
    for evalex, cpath, path, host, cookie, init_func, preframe, dbg in itertools.product(
        [True, False],
        ["/console", None, "/"],
        PATHS,
        HOSTS,
        COOKIES[:3],
        [None, init_ns],
        [True, False],
        [None, "no"],
    ):
        compare(
            cfg(evalex=evalex, console_path=cpath, init_func=init_func, preframe=preframe),
            (host, cookie, path, params(dbg, None, None, None, None)),
        )

    # 5. random mixtures
    for _ in range(4000):
        compare(
            cfg(
                pin=rnd.choice([PIN, PIN, None]),
                failed=rnd.randint(0, 13),
                evalex=rnd.random() < 0.8,
                console_path=rnd.choice(["/console", None]),
                init_func=rnd.choice([None, init_ns]),
                preframe=rnd.random() < 0.7,
            ),
            (
                rnd.choice(HOSTS),
                rnd.choice(COOKIES),
                rnd.choice(PATHS),
                params(
                    rnd.choice(DEBUGGER),
                    rnd.choice(CMDS),
                    rnd.choice(FS),
                    rnd.choice(SECRETS),
                    rnd.choice(FRMS),
                    pin=rnd.choice([None, PIN, "bad"]),
                ),
            ),
        )

    handlers = {name for trace in seen_calls for name in trace}
    print("handlers exercised:", sorted(handlers))
    print(f"{n} comparisons, {bad} mismatches, {nondet} skipped as non-deterministic")
    ok = bad == 0 and n > 5000 and nondet < n // 100 and handlers == set(SPIED)
    print("PASS" if ok else "FAIL")


if __name__ == "__main__":
    main()
