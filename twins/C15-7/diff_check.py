"""Differential check for refactoring 1 (werkzeug.wsgi.get_current_url).

Run: cd /tmp/wt9-C15 && PYTHONPATH=/tmp/wt9-C15/src /venv/bin/python /tmp/twin5-C15/1/diff_check.py
"""

from __future__ import annotations

import itertools
import random
import typing as t

from werkzeug import wsgi
from werkzeug.sansio import utils as _sansio_utils
from werkzeug.test import EnvironBuilder
from werkzeug.wsgi import get_host


# --- ORIGINAL implementation (copied verbatim from the unmodified tree) ---
def orig_get_current_url(
    environ,
    root_only: bool = False,
    strip_querystring: bool = False,
    host_only: bool = False,
    trusted_hosts: t.Iterable[str] | None = None,
) -> str:
    parts = {
        "scheme": environ["wsgi.url_scheme"],
        "host": get_host(environ, trusted_hosts),
    }

    if not host_only:
        parts["root_path"] = environ.get("SCRIPT_NAME", "")

        if not root_only:
            parts["path"] = environ.get("PATH_INFO", "")

            if not strip_querystring:
                parts["query_string"] = environ.get("QUERY_STRING", "").encode("latin1")

    return _sansio_utils.get_current_url(**parts)


class RecordingEnviron(dict):
    """dict that records every read, to compare access order too."""

    def __init__(self, *a, **kw):
        super().__init__(*a, **kw)
        self.log = []

    def __getitem__(self, k):
        self.log.append(("getitem", k))
        return super().__getitem__(k)

    def get(self, k, d=None):
        self.log.append(("get", k))
        return super().get(k, d)

    def __contains__(self, k):
        self.log.append(("in", k))
        return super().__contains__(k)


def run(fn, env, kwargs):
    e = RecordingEnviron(env)
    try:
        r = ("ok", fn(e, **kwargs))
    except Exception as exc:  # noqa: BLE001
        r = ("exc", type(exc), str(exc))
    return r, e.log


rng = random.Random(15015)

ALPHABETS = [
    "abcXYZ019",
    "/-._~!$&'()*+,;=:@",
    "%25%2F%C3%A9%FF%zz%",
    " \t\n\x00\x7f#?[]",
    "\xe9\xff\xc3\xa9\x80",  # latin-1 range (tunnelled bytes)
    "☃中\U0001f600ı",  # not latin-1 encodable
    "\ud800",  # lone surrogate
]


def rand_text(maxlen=10):
    n = rng.randint(0, maxlen)
    alph = "".join(rng.sample(ALPHABETS, rng.randint(1, 4)))
    return "".join(rng.choice(alph) for _ in range(n))


def tunnelled(s):
    try:
        return s.encode("utf-8").decode("latin1")
    except UnicodeError:
        return s


HOSTS = [
    "localhost",
    "example.org",
    "example.org:80",
    "example.org:443",
    "example.org:8080",
    "[::1]",
    "[::1]:80",
    "::1",
    "xn--n3h.net",
    "☃.net",
    "b\xfccher.example",
    "xn--zz-.invalid",
    "user:pw@host",
    "",
    "EXAMPLE.org",
    "a b",
    "host:notaport",
]
SCHEMES = ["http", "https", "ws", "wss", "ftp", "", "HTTP"]
TRUSTED = [None, None, None, [], ["example.org"], [".example.org", "localhost"], ["[::1]"]]


def rand_environ():
    env: dict[str, t.Any] = {}
    if rng.random() < 0.97:
        env["wsgi.url_scheme"] = rng.choice(SCHEMES)
    if rng.random() < 0.7:
        env["HTTP_HOST"] = rng.choice(HOSTS)
    if rng.random() < 0.8:
        env["SERVER_NAME"] = rng.choice(HOSTS)
        if rng.random() < 0.85:
            env["SERVER_PORT"] = rng.choice(["80", "443", "8080", "x", "", None, 80])
    for key in ("SCRIPT_NAME", "PATH_INFO", "QUERY_STRING"):
        r = rng.random()
        if r < 0.12:
            continue  # missing
        if r < 0.15:
            env[key] = None
            continue
        if r < 0.17:
            env[key] = b"bytes"
            continue
        v = rand_text()
        if key != "QUERY_STRING" and rng.random() < 0.6:
            v = "/" + v
        if rng.random() < 0.7:
            v = tunnelled(v)
        env[key] = v
    return env


def main():
    n = 0
    mismatches = 0
    flag_sets = list(itertools.product([False, True], repeat=3))

    def check(env, kwargs):
        nonlocal n, mismatches
        a = run(orig_get_current_url, env, kwargs)
        b = run(wsgi.get_current_url, env, kwargs)
        n += 1
        if a != b:
            mismatches += 1
            if mismatches < 10:
                print("MISMATCH", env, kwargs, a, b)

    for _ in range(4000):
        env = rand_environ()
        trusted = rng.choice(TRUSTED)
        for root_only, strip_qs, host_only in flag_sets:
            check(
                env,
                dict(
                    root_only=root_only,
                    strip_querystring=strip_qs,
                    host_only=host_only,
                    trusted_hosts=trusted,
                ),
            )

    # environs produced by the environ builder (the property's round trip)
    for _ in range(1500):
        path = "/" + rand_text()
        base = rng.choice(
            [None, "http://localhost/", "https://example.org:8443/app/", "http://☃.net/r\xe9/"]
        )
        qs = rng.choice([None, rand_text(), "a=1&b=☃", "x=%FF&y=%C3%A9"])
        try:
            env = EnvironBuilder(path=path, base_url=base, query_string=qs).get_environ()
        except Exception:  # noqa: BLE001
            continue
        env.pop("wsgi.input", None)
        env.pop("wsgi.errors", None)
        for root_only, strip_qs, host_only in flag_sets:
            check(env, dict(root_only=root_only, strip_querystring=strip_qs, host_only=host_only))

    # positional-call / default-argument forms
    for _ in range(500):
        env = rand_environ()
        for args in [(), (True,), (False, True), (False, False, True), (True, True, True)]:
            a = run(lambda e, a=args: orig_get_current_url(e, *a), env, {})
            b = run(lambda e, a=args: wsgi.get_current_url(e, *a), env, {})
            n += 1
            if a != b:
                mismatches += 1
                print("MISMATCH(pos)", env, args, a, b)

    print(f"checked {n} cases, {mismatches} mismatches")
    print("PASS" if mismatches == 0 else "FAIL")


if __name__ == "__main__":
    main()
