"""Differential check for refactoring 1 (dump_header / dump_options_header share a
private ``_dump_key_value`` helper).

Run: cd /tmp/wt10-C06 && PYTHONPATH=/tmp/wt10-C06/src /venv/bin/python /tmp/twin6-C06/1/diff_check.py
"""

from __future__ import annotations

import random
import typing as t

from werkzeug import http
from werkzeug.datastructures import HeaderSet
from werkzeug.datastructures import ImmutableDict
from werkzeug.datastructures import MultiDict
from werkzeug.http import quote_header_value


# ---------------------------------------------------------------- ORIGINALS
def orig_dump_options_header(header, options):
    segments = []

    if header is not None:
        segments.append(header)

    for key, value in options.items():
        if value is None:
            continue

        if key[-1] == "*":
            segments.append(f"{key}={value}")
        else:
            segments.append(f"{key}={quote_header_value(value)}")

    return "; ".join(segments)


def orig_dump_header(iterable):
    if isinstance(iterable, dict):
        items = []

        for key, value in iterable.items():
            if value is None:
                items.append(key)
            elif key[-1] == "*":
                items.append(f"{key}={value}")
            else:
                items.append(f"{key}={quote_header_value(value)}")
    else:
        items = [quote_header_value(x) for x in iterable]

    return ", ".join(items)


# ---------------------------------------------------------------- GENERATORS
ALPHABET = list("abcXYZ019 \t\"\\,;=*'%/-_.~!#$&+^`|()<>@[]{}?:") + ["é", "ü", "\u2603", ""]
rnd = random.Random(0xC06)


def rand_str(maxlen=8):
    return "".join(rnd.choice(ALPHABET) for _ in range(rnd.randint(0, maxlen)))


def rand_key():
    r = rnd.random()
    if r < 0.05:
        return ""
    if r < 0.08:
        return rnd.choice([1, 2.5, None, b"k", ("a",)])  # non-str keys
    k = rand_str(6)
    if rnd.random() < 0.3:
        k += "*"
    return k


class Weird:
    def __init__(self, s):
        self.s = s

    def __str__(self):
        return self.s

    def __format__(self, spec):
        return f"<F:{self.s}>"


class Exploding:
    def __str__(self):
        raise RuntimeError("boom")


def rand_value():
    r = rnd.random()
    if r < 0.15:
        return None
    if r < 0.25:
        return rnd.choice([0, 1, -5, 3.5, True, False, 10**20])
    if r < 0.30:
        return Weird(rand_str())
    if r < 0.32:
        return Exploding()
    if r < 0.36:
        return "UTF-8''" + rand_str().replace(" ", "%20")
    if r < 0.40:
        return ""
    return rand_str(10)


def rand_dict():
    return {rand_key(): rand_value() for _ in range(rnd.randint(0, 5))}


def rand_list():
    kind = rnd.randint(0, 5)
    items = [rand_value() for _ in range(rnd.randint(0, 5))]
    if kind == 0:
        return tuple(items)
    if kind == 1:
        return iter(items), iter(list(items))  # paired one-shot iterators
    if kind == 2:
        try:
            return HeaderSet([str(i) for i in items if not isinstance(i, Exploding)])
        except Exception:
            return items
    if kind == 3:
        try:
            return set(str(i) for i in items if not isinstance(i, Exploding))
        except Exception:
            return items
    if kind == 4:
        return rnd.choice([None, 5, "plain string", b"bytes", 1.5])
    return items


def outcome(fn: t.Callable[..., t.Any], *args: t.Any) -> tuple[str, t.Any]:
    try:
        return ("ok", fn(*args))
    except BaseException as e:  # noqa: B036
        return ("exc", type(e), str(e))


def main() -> None:
    n = 0
    bad = 0

    def cmp(a, b, what):
        nonlocal n, bad
        n += 1
        if a != b:
            bad += 1
            if bad < 10:
                print("MISMATCH", what, a, b)

    # dump_header: dicts
    for _ in range(6000):
        d = rand_dict()
        cmp(outcome(orig_dump_header, d), outcome(http.dump_header, d), ("dh-dict", d))
        # dict subclasses take the dict path, other mappings the iterable path
        for wrap in (ImmutableDict,):
            try:
                w = wrap(d)
            except Exception:
                continue
            cmp(outcome(orig_dump_header, w), outcome(http.dump_header, w), ("dh-sub", d))

    # dump_header: non-dict iterables
    for _ in range(6000):
        it = rand_list()
        if isinstance(it, tuple) and len(it) == 2 and hasattr(it[0], "__next__"):
            a, b = it
        else:
            a = b = it
        cmp(outcome(orig_dump_header, a), outcome(http.dump_header, b), ("dh-iter", it))

    # dump_options_header
    for _ in range(8000):
        d = rand_dict()
        header = rnd.choice([None, "", "text/html", "form-data", rand_str()])
        cmp(
            outcome(orig_dump_options_header, header, d),
            outcome(http.dump_options_header, header, d),
            ("doh", header, d),
        )
        if rnd.random() < 0.2:
            try:
                md = MultiDict(d)
            except Exception:
                continue
            cmp(
                outcome(orig_dump_options_header, header, md),
                outcome(http.dump_options_header, header, md),
                ("doh-md", header, d),
            )

    # non-mapping options
    for opts in (None, [], [("a", "b")], "abc", 5):
        cmp(
            outcome(orig_dump_options_header, "x", opts),
            outcome(http.dump_options_header, "x", opts),
            ("doh-bad", opts),
        )

    # round trip sanity with the refactored dumpers (property C06)
    for _ in range(3000):
        d = {}
        for _ in range(rnd.randint(0, 4)):
            k = "".join(rnd.choice("abcdefXYZ-_") for _ in range(rnd.randint(1, 5)))
            d[k.lower()] = rand_str(8).strip()
        dumped = http.dump_options_header("v", d)
        cmp(dumped, orig_dump_options_header("v", d), ("rt-doh", d))
        cmp(
            http.parse_options_header(dumped),
            http.parse_options_header(orig_dump_options_header("v", d)),
            ("rt-opt", d),
        )
        dumped = http.dump_header(d)
        cmp(dumped, orig_dump_header(d), ("rt-dh", d))

    print(f"{n} comparisons, {bad} mismatches")
    print("PASS" if bad == 0 else "FAIL")


if __name__ == "__main__":
    main()
