"""Differential check: refactored werkzeug.wsgi.get_input_stream and
werkzeug.sansio.utils.get_content_length (from the worktree) vs pasted copies of the ORIGINAL
implementations, over generated header values / environs / bodies.

Run: cd /tmp/wt9-C09 && PYTHONPATH=/tmp/wt9-C09/src /venv/bin/python /tmp/twin5-C09/3/diff_check.py
"""
from __future__ import annotations

import io
import random
import sys
import typing as t

import werkzeug.sansio.request as sansio_request
import werkzeug.wrappers.request as wrappers_request
from werkzeug._internal import _plain_int
from werkzeug.exceptions import RequestEntityTooLarge
from werkzeug.sansio.utils import get_content_length as new_sansio_get_content_length
from werkzeug.wrappers import Request
from werkzeug.wsgi import get_content_length as new_wsgi_get_content_length
from werkzeug.wsgi import get_input_stream as new_get_input_stream
from werkzeug.wsgi import LimitedStream  # not touched by this refactoring


# --------------------------------------------------------------------------- ORIGINAL
def orig_sansio_get_content_length(
    http_content_length: str | None = None,
    http_transfer_encoding: str | None = None,
) -> int | None:
    if http_transfer_encoding == "chunked" or http_content_length is None:
        return None

    try:
        return max(0, _plain_int(http_content_length))
    except ValueError:
        return 0


def orig_wsgi_get_content_length(environ) -> int | None:
    return orig_sansio_get_content_length(
        http_content_length=environ.get("CONTENT_LENGTH"),
        http_transfer_encoding=environ.get("HTTP_TRANSFER_ENCODING"),
    )


def orig_get_input_stream(
    environ,
    safe_fallback: bool = True,
    max_content_length: int | None = None,
) -> t.IO[bytes]:
    stream = t.cast(t.IO[bytes], environ["wsgi.input"])
    content_length = orig_wsgi_get_content_length(environ)

    if content_length is not None and max_content_length is not None:
        if content_length > max_content_length:
            raise RequestEntityTooLarge()

    if "wsgi.input_terminated" in environ:
        if max_content_length is not None:
            return t.cast(
                t.IO[bytes], LimitedStream(stream, max_content_length, is_max=True)
            )

        return stream

    if content_length is None:
        return io.BytesIO() if safe_fallback else stream

    return t.cast(t.IO[bytes], LimitedStream(stream, content_length))


# ------------------------------------------------------------------------ generators
CL_FIXED = [None, "", " ", "0", "-0", "1", "5", "10", " 7 ", "\t12\n", "007", "-1", "-17",
            "+3", "1_0", "1.0", "1e3", "abc", "0x10", "١٢", "１２", "12abc", "- 3", "--3",
            "4294967296", "9" * 30, "9" * 4300, "9" * 4301, "9" * 5000, "-" + "9" * 5000,
            "3,4", "3;", "\x003", "３", "²", b"5", 5, 5.0, True, ["5"]]
TE_FIXED = [None, None, None, "", "chunked", "Chunked", "CHUNKED", " chunked", "gzip",
            "gzip, chunked", "identity", b"chunked", 0]


def gen_cl(rng: random.Random):
    r = rng.random()
    if r < 0.45:
        return rng.choice(CL_FIXED)
    if r < 0.8:
        return str(rng.randint(-20, 400))
    alphabet = "0123456789-+ _.\tx\n٣"
    return "".join(rng.choice(alphabet) for _ in range(rng.randint(0, 6)))


def outcome(fn, *a, **kw):
    try:
        r = fn(*a, **kw)
        return ("ok", type(r).__name__, r)
    except BaseException as e:  # noqa: BLE001
        if isinstance(e, (KeyboardInterrupt, SystemExit)):
            raise
        return ("exc", type(e).__name__)


class FragStream:
    """Underlying wsgi.input that fragments reads and records consumption."""

    def __init__(self, data: bytes, seed: int, with_readinto: bool):
        self.data = data
        self.pos = 0
        self.rng = random.Random(seed)
        self.log: list[tuple[str, int]] = []
        if with_readinto:
            self.readinto = self._readinto  # instance attribute -> hasattr() is True

    def _take(self, n):
        if n is None or n < 0:
            n = len(self.data) - self.pos
        if n > 1:
            n = self.rng.randint(1, n)
        out = self.data[self.pos:self.pos + n]
        self.pos += len(out)
        return out

    def read(self, n=-1):
        self.log.append(("read", n))
        return self._take(n)

    def readline(self, n=-1):
        self.log.append(("readline", n))
        rest = self.data[self.pos:]
        i = rest.find(b"\n")
        line = rest if i < 0 else rest[: i + 1]
        if n is not None and n >= 0:
            line = line[:n]
        self.pos += len(line)
        return line

    def _readinto(self, b):
        self.log.append(("readinto", len(b)))
        out = self._take(len(b))
        b[: len(out)] = out
        return len(out)


def gen_env(rng: random.Random):
    body_len = rng.choice([0, 1, 3, 10, 50, 200]) if rng.random() < 0.5 else rng.randint(0, 120)
    body = bytes(rng.choice(b"ab\ncd xyz") for _ in range(body_len))
    env_spec: dict[str, t.Any] = {}
    r = rng.random()
    if r < 0.35:
        env_spec["CONTENT_LENGTH"] = str(body_len)
    elif r < 0.55:
        env_spec["CONTENT_LENGTH"] = str(max(0, body_len + rng.randint(-10, 10)))
    elif r < 0.85:
        cl = gen_cl(rng)
        if cl is not None:
            env_spec["CONTENT_LENGTH"] = cl
    te = rng.choice(TE_FIXED)
    if te is not None:
        env_spec["HTTP_TRANSFER_ENCODING"] = te
    if rng.random() < 0.45:
        env_spec["wsgi.input_terminated"] = rng.choice([True, False, None, 1])
    kind = rng.choice(["bytesio", "frag", "frag_ri", "missing"]) if rng.random() < 0.1 \
        else rng.choice(["bytesio", "frag", "frag_ri"])
    r = rng.random()
    if r < 0.4:
        mcl = None
    elif r < 0.7:
        mcl = rng.randint(0, body_len + 10)
    else:
        mcl = rng.choice([0, 1, body_len, body_len - 1, body_len + 1, 10**6, -1])
    return dict(body=body, env=env_spec, kind=kind, seed=rng.randint(0, 10**9), mcl=mcl,
                safe_fallback=rng.random() < 0.7,
                call_style=rng.choice(["kw", "pos", "default"]),
                reads=[(rng.choice(["read", "readn", "readline", "readlines", "iter", "readinto"]),
                        rng.choice([0, 1, 2, 5, 16, 100, 70000])) for _ in range(rng.randint(1, 5))])


def build_env(case):
    env = {"REQUEST_METHOD": "POST", "wsgi.url_scheme": "http", "SERVER_NAME": "localhost",
           "SERVER_PORT": "80", "PATH_INFO": "/", "SCRIPT_NAME": "", "QUERY_STRING": "",
           "CONTENT_TYPE": "application/octet-stream"}
    env.update(case["env"])
    if case["kind"] == "bytesio":
        src = io.BytesIO(case["body"])
    elif case["kind"] == "missing":
        src = None
    else:
        src = FragStream(case["body"], case["seed"], case["kind"] == "frag_ri")
    if src is not None:
        env["wsgi.input"] = src
    return env, src


def describe(res, src):
    if res is src:
        return ("raw-stream",)
    if type(res) is io.BytesIO:
        return ("BytesIO", res.getvalue(), res.tell())
    if type(res) is LimitedStream:
        return ("LimitedStream", res.limit, type(res.limit).__name__, res._limit_is_max,
                type(res._limit_is_max).__name__, res._stream is src, res._pos)
    return ("other", type(res).__name__)


def drive(stream, reads, src):
    trace = []
    for op, arg in reads:
        try:
            if op == "read":
                # never do an unbounded read on an unterminated raw stream? It is finite
                # here (BytesIO / FragStream), so it is safe.
                r = stream.read()
            elif op == "readn":
                r = stream.read(arg)
            elif op == "readline":
                r = stream.readline()
            elif op == "readlines":
                r = stream.readlines() if hasattr(stream, "readlines") else "n/a"
            elif op == "iter":
                r = list(stream) if hasattr(stream, "__iter__") else "n/a"
            else:
                if hasattr(stream, "readinto"):
                    buf = bytearray(min(arg, 70000))
                    n = stream.readinto(buf)
                    r = (n, bytes(buf))
                else:
                    r = "n/a"
            trace.append((op, arg, "ok", r))
        except BaseException as e:  # noqa: BLE001
            if isinstance(e, (KeyboardInterrupt, SystemExit)):
                raise
            trace.append((op, arg, "exc", type(e).__name__))
        consumed = None if src is None else (src.tell() if isinstance(src, io.BytesIO) else src.pos)
        trace.append(("consumed", consumed))
    if isinstance(src, FragStream):
        trace.append(("srclog", tuple(src.log)))
    return trace


def run_direct(case, fn):
    env, src = build_env(case)
    try:
        if case["call_style"] == "kw":
            res = fn(env, safe_fallback=case["safe_fallback"], max_content_length=case["mcl"])
        elif case["call_style"] == "pos":
            res = fn(env, case["safe_fallback"], case["mcl"])
        else:
            res = fn(env)
    except BaseException as e:  # noqa: BLE001
        if isinstance(e, (KeyboardInterrupt, SystemExit)):
            raise
        consumed = None if src is None else (src.tell() if isinstance(src, io.BytesIO) else src.pos)
        return [("exc", type(e).__name__, consumed)]
    return [describe(res, src)] + drive(res, case["reads"], src)


def run_request(case, fn, how):
    """Through werkzeug.wrappers.Request (request.stream / get_data), with the module-level
    get_input_stream reference switched between original and refactored."""
    env, src = build_env(case)
    saved = wrappers_request.get_input_stream
    saved_cl = sansio_request.get_content_length
    wrappers_request.get_input_stream = fn
    sansio_request.get_content_length = (
        orig_sansio_get_content_length if fn is orig_get_input_stream
        else new_sansio_get_content_length
    )
    try:
        req = Request(env)
        if case["mcl"] is not None:
            req.max_content_length = case["mcl"]
        out = []
        try:
            if how == "get_data":
                out.append(("data", req.get_data()))
            elif how == "stream":
                s = req.stream
                out.append(describe(s, src))
                out.extend(drive(s, case["reads"], src))
            else:
                out.append(("content_length", req.content_length))
        except BaseException as e:  # noqa: BLE001
            if isinstance(e, (KeyboardInterrupt, SystemExit)):
                raise
            out.append(("exc", type(e).__name__))
        consumed = None if src is None else (src.tell() if isinstance(src, io.BytesIO) else src.pos)
        out.append(("consumed", consumed))
        return out
    finally:
        wrappers_request.get_input_stream = saved
        sansio_request.get_content_length = saved_cl


def main() -> int:
    bad = 0
    total = 0
    rng = random.Random(30303)

    # 1. sansio get_content_length: exhaustive over fixed lists + random
    pairs = [(cl, te) for cl in CL_FIXED for te in TE_FIXED]
    pairs += [(gen_cl(rng), rng.choice(TE_FIXED)) for _ in range(6000)]
    for cl, te in pairs:
        total += 1
        variants = [((cl, te), {}), ((), {"http_content_length": cl, "http_transfer_encoding": te})]
        if te is None:
            variants.append(((cl,), {}))
        for a, kw in variants:
            x = outcome(orig_sansio_get_content_length, *a, **kw)
            y = outcome(new_sansio_get_content_length, *a, **kw)
            if x != y:
                bad += 1
                if bad <= 5:
                    print("MISMATCH sansio", repr(cl)[:60], repr(te), x[:2], y[:2])
        env = {}
        if cl is not None:
            env["CONTENT_LENGTH"] = cl
        if te is not None:
            env["HTTP_TRANSFER_ENCODING"] = te
        x = outcome(orig_wsgi_get_content_length, env)
        y = outcome(new_wsgi_get_content_length, env)
        if x != y:
            bad += 1
            if bad <= 5:
                print("MISMATCH wsgi.get_content_length", repr(cl)[:60], repr(te), x[:2], y[:2])
    n1 = total

    # 2. get_input_stream directly and through Request
    stats: dict[str, int] = {}
    for i in range(8000):
        case = gen_env(rng)
        total += 1
        a = run_direct(case, orig_get_input_stream)
        b = run_direct(case, new_get_input_stream)
        stats[a[0][0] if a[0][0] != "exc" else "exc:" + a[0][1]] = \
            stats.get(a[0][0] if a[0][0] != "exc" else "exc:" + a[0][1], 0) + 1
        if a != b:
            bad += 1
            if bad <= 5:
                print("MISMATCH direct", i, {k: v for k, v in case.items() if k != "body"})
                print("  orig:", repr(a)[:400])
                print("  new :", repr(b)[:400])
        how = ("get_data", "stream", "content_length")[i % 3]
        a = run_request(case, orig_get_input_stream, how)
        b = run_request(case, new_get_input_stream, how)
        if a != b:
            bad += 1
            if bad <= 5:
                print("MISMATCH request", how, i, {k: v for k, v in case.items() if k != "body"})
                print("  orig:", repr(a)[:400])
                print("  new :", repr(b)[:400])

    print(f"content-length inputs={n1} environ cases={total - n1} outcome kinds={stats} mismatches={bad}")
    if bad == 0:
        print("PASS")
        return 0
    print("FAIL")
    return 1


if __name__ == "__main__":
    sys.exit(main())
