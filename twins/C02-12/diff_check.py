"""Differential check for refactoring 3 (formparser.MultiPartParser.parse).

The original ``parse`` body is pasted into a subclass and compared with the
worktree's implementation on generated multipart bodies (well-formed ones
from encode_multipart / EnvironBuilder and damaged ones), with varying
buffer sizes and limits.
"""
import io
import random
import sys
import typing as t

import werkzeug.formparser as formparser
from werkzeug.datastructures import FileStorage
from werkzeug.datastructures import Headers
from werkzeug.datastructures import MultiDict
from werkzeug.exceptions import RequestEntityTooLarge
from werkzeug.formparser import _chunk_iter
from werkzeug.formparser import MultiPartParser
from werkzeug.sansio.multipart import Data
from werkzeug.sansio.multipart import Epilogue
from werkzeug.sansio.multipart import Field
from werkzeug.sansio.multipart import File
from werkzeug.sansio.multipart import MultipartDecoder
from werkzeug.sansio.multipart import NeedData
from werkzeug.test import encode_multipart
from werkzeug.test import EnvironBuilder
from werkzeug.wrappers import Request


class OrigMultiPartParser(MultiPartParser):
    def parse(self, stream, boundary, content_length):
        current_part: Field | File
        field_size: int | None = None
        container: t.IO[bytes] | list[bytes]
        _write: t.Callable[[bytes], t.Any]

        parser = MultipartDecoder(
            boundary,
            max_form_memory_size=self.max_form_memory_size,
            max_parts=self.max_form_parts,
        )

        fields = []
        files = []

        for data in _chunk_iter(stream.read, self.buffer_size):
            parser.receive_data(data)
            event = parser.next_event()
            while not isinstance(event, (Epilogue, NeedData)):
                if isinstance(event, Field):
                    current_part = event
                    field_size = 0
                    container = []
                    _write = container.append
                elif isinstance(event, File):
                    current_part = event
                    field_size = None
                    container = self.start_file_streaming(event, content_length)
                    _write = container.write
                elif isinstance(event, Data):
                    if self.max_form_memory_size is not None and field_size is not None:
                        field_size += len(event.data)

                        if field_size > self.max_form_memory_size:
                            raise RequestEntityTooLarge()

                    _write(event.data)
                    if not event.more_data:
                        if isinstance(current_part, Field):
                            value = b"".join(container).decode(
                                self.get_part_charset(current_part.headers), "replace"
                            )
                            fields.append((current_part.name, value))
                        else:
                            container = t.cast(t.IO[bytes], container)
                            container.seek(0)
                            files.append(
                                (
                                    current_part.name,
                                    FileStorage(
                                        container,
                                        current_part.filename,
                                        current_part.name,
                                        headers=current_part.headers,
                                    ),
                                )
                            )

                event = parser.next_event()

        return self.cls(fields), self.cls(files)


rng = random.Random(3020261003)
NAME_ALPHABET = "abcXYZ019 -_.;=:'&+/<>\téßЖ中文\U0001f600%2"
TEXT_ALPHABET = NAME_ALPHABET + '"\\\r\n\x00\x7f'


def rand_name(maxlen=8):
    s = "".join(rng.choice(NAME_ALPHABET) for _ in range(rng.randint(0, maxlen)))
    return s.replace("%22", "%2")


def rand_value(maxlen=12):
    return "".join(rng.choice(TEXT_ALPHABET) for _ in range(rng.randint(0, maxlen)))


def rand_payload(boundary):
    pieces = [
        b"\r\n", b"\r", b"\n", b"--", b"-", boundary, b"--" + boundary,
        b"\r\n--" + boundary[:-1], b"\r\n--" + boundary + b"x", b"\x00", b"\xff",
        b"a" * rng.randint(0, 200), bytes(rng.randrange(256) for _ in range(rng.randint(0, 8))), b"",
    ]
    return b"".join(rng.choice(pieces) for _ in range(rng.randint(0, 7)))


def rand_boundary():
    blen = rng.choice([1, 2, 5, 16, 40, 70])
    return "".join(rng.choice("abcXYZ0189-_'().+") for _ in range(blen))


def rand_form(boundary):
    """MultiDict of text values and file tuples, in random order, with repeats."""
    md = MultiDict()
    names = [rand_name() for _ in range(3)]
    for _ in range(rng.randint(0, 6)):
        name = rng.choice(names) if rng.random() < 0.5 else rand_name()
        if rng.random() < 0.5:
            md.add(name, rand_value())
        else:
            content = rand_payload(boundary.encode())
            ctype = rng.choice([None, "text/plain", "application/octet-stream",
                                "text/plain; charset=iso-8859-1"])
            md.add(name, FileStorage(io.BytesIO(content), filename=rand_name(),
                                     content_type=ctype))
    return md


def mutate(body, boundary):
    b = boundary.encode()
    k = rng.random()
    if k < 0.25:
        return body.replace(b"\r\n", rng.choice([b"\n", b"\r"]))
    if k < 0.5 and body:
        return body[: rng.randrange(len(body))]
    if k < 0.65:
        return body.replace(b"Content-Disposition", b"X-Nothing", 1)
    if k < 0.8:
        return body.replace(b'Content-Type: text/plain', b'Content-Type: text/plain; charset=' +
                            rng.choice([b"ascii", b"utf-16", b"iso-8859-1"]))
    if body:
        i = rng.randrange(len(body))
        return body[:i] + bytes([rng.randrange(256)]) + body[i + 1:]
    return body


def snapshot(result):
    form, files = result
    out_files = []
    for name, fs in files.items(multi=True):
        out_files.append((name, type(fs), fs.name, fs.filename, fs.content_type,
                          list(fs.headers), type(fs.stream).__name__, fs.stream.tell(),
                          fs.stream.read()))
    return (type(form), list(form.items(multi=True)), type(files), out_files)


def run(cls, body, boundary, kwargs, content_length):
    try:
        p = cls(**kwargs)
        return ("ok", snapshot(p.parse(io.BytesIO(body), boundary.encode(), content_length)))
    except Exception as e:  # noqa: BLE001
        return ("exc", type(e), str(e) if type(e) is ValueError else None)


def run_request(body, boundary, parser_cls):
    saved = formparser.MultiPartParser
    formparser.MultiPartParser = parser_cls
    try:
        builder = EnvironBuilder(
            method="POST", input_stream=io.BytesIO(body), content_length=len(body),
            content_type=f'multipart/form-data; boundary="{boundary}"',
            query_string={"q": "é 1", "r": ""},
        )
        req = Request(builder.get_environ())
        try:
            return ("ok", list(req.args.items(multi=True)), snapshot((req.form, req.files)))
        except Exception as e:  # noqa: BLE001
            return ("exc", type(e))
    finally:
        formparser.MultiPartParser = saved


def main():
    n = 0
    stats = {"ok": 0, "exc": 0}
    for i in range(7000):
        boundary = rand_boundary()
        md = rand_form(boundary)
        _, body = encode_multipart(md, boundary=boundary)
        if i % 3 == 2:
            body = mutate(body, boundary)
        kwargs = {"buffer_size": rng.choice([1, 2, 7, 16, 100, 1024, 64 * 1024])}
        if rng.random() < 0.15:
            kwargs["max_form_memory_size"] = rng.randint(0, 300)
        if rng.random() < 0.15:
            kwargs["max_form_parts"] = rng.randint(0, 4)
        content_length = rng.choice([None, len(body), 600 * 1024])
        a = run(OrigMultiPartParser, body, boundary, kwargs, content_length)
        b = run(MultiPartParser, body, boundary, kwargs, content_length)
        if a != b:
            print("FAIL (parse)", boundary, body, kwargs, a, b, sep="\n")
            return 1
        stats[a[0]] += 1
        n += 1
    # through EnvironBuilder -> Request.form/files/args
    for i in range(1500):
        boundary = rand_boundary()
        md = rand_form(boundary)
        _, body = encode_multipart(md, boundary=boundary)
        if i % 4 == 3:
            body = mutate(body, boundary)
        a = run_request(body, boundary, OrigMultiPartParser)
        b = run_request(body, boundary, MultiPartParser)
        if a != b:
            print("FAIL (request)", boundary, body, a, b, sep="\n")
            return 1
        n += 1
    print(f"PASS ({n} cases; direct parse outcomes: {stats})")
    return 0


if __name__ == "__main__":
    sys.exit(main())
