"""Differential check for refactoring 3
(sansio.response.Response._clean_status and datastructures.headers._str_header_value).

Run as:
  cd /tmp/wt6-C05 && PYTHONPATH=/tmp/wt6-C05/src /venv/bin/python /tmp/twin4-C05/3/diff_check.py

The ORIGINAL implementations are pasted below and compared with the worktree's
on many thousand generated inputs; return values (incl. their types) and raised
exception types/messages must be identical.
"""
from __future__ import annotations

import random
import re
import sys
from http import HTTPStatus

from werkzeug.datastructures import Headers
from werkzeug.datastructures.headers import _str_header_value
from werkzeug.http import HTTP_STATUS_CODES
from werkzeug.sansio.response import Response as SansIOResponse
from werkzeug.wrappers import Response

# ---------------------------------------------------------------- originals
_newline_re = re.compile(r"[\r\n]")


def original_str_header_value(value):
    if not isinstance(value, str):
        value = str(value)

    if _newline_re.search(value) is not None:
        raise ValueError("Header values must not contain newline characters.")

    return value


def original_clean_status(self, value):
    if isinstance(value, (int, HTTPStatus)):
        status_code = int(value)
    else:
        value = value.strip()

        if not value:
            raise ValueError("Empty status argument")

        code_str, sep, _ = value.partition(" ")

        try:
            status_code = int(code_str)
        except ValueError:
            # only message
            return f"0 {value}", 0

        if sep:
            # code and message
            return value, status_code

    # only code, look up message
    try:
        status = f"{status_code} {HTTP_STATUS_CODES[status_code].upper()}"
    except KeyError:
        status = f"{status_code} UNKNOWN"

    return status, status_code


# ---------------------------------------------------------------- helpers
class StrSub(str):
    pass


class Weird:
    def __init__(self, s):
        self.s = s

    def __str__(self):
        return self.s


class BadStr:
    def __str__(self):
        raise RuntimeError("cannot stringify")


class IntSub(int):
    pass


def call(fn, *args):
    try:
        r = fn(*args)
    except Exception as e:
        return ("exc", type(e).__name__, str(e))
    if isinstance(r, tuple):
        return ("ok", tuple((type(x).__name__, x) for x in r))
    return ("ok", type(r).__name__, r)


ALPHABET = list("0123456789") * 3 + list(" \t\r\n\x0b\x0c  _-+.abOKé☃x") + ["  ", "١٢٣", "²"]


def rand_text(rng, maxlen=8):
    return "".join(rng.choice(ALPHABET) for _ in range(rng.randrange(maxlen)))


def rand_status(rng):
    k = rng.randrange(16)
    if k == 0:
        return rng.choice(list(HTTP_STATUS_CODES))
    if k == 1:
        return rng.randrange(-5, 1200)
    if k == 2:
        return rng.choice(list(HTTPStatus))
    if k == 3:
        return rng.choice([True, False, IntSub(200), IntSub(799), 10**30, -1])
    if k == 4:
        return str(rng.choice(list(HTTP_STATUS_CODES)))
    if k == 5:
        return f"{rng.randrange(1000)} {rand_text(rng)}"
    if k == 6:
        return rand_text(rng, 12)
    if k == 7:
        return rng.choice([" ", "", "\t\n", " 200 ", " 200 OK ", "200  OK", "200\tOK", "200\nOK",
                           "+200", "-200 x", "2_00", "2_00 ok", "0x10", "1e3", "200.0", "٢٠٠ arabic",
                           "²", "200 ", "OK 200", "200OK", "200 OK", "200 OK", " 200", "000200",
                           "9" * 5000, "9" * 5000 + " big", "404 Not Found", "wat is this"])
    if k == 8:
        return rng.choice([b"200 OK", b"200", b"", b"  ", bytearray(b"404"), None, 200.0, 3.7,
                           [200], ("200",), {"a": 1}, object(), 2 + 0j])
    if k == 9:
        return StrSub(rng.choice(["200", "200 OK", "nope", "", " 301 moved "]))
    if k == 10:
        return rand_text(rng, 4) + " " + rand_text(rng, 6)
    if k == 11:
        return str(rng.randrange(100, 600)) + rng.choice(["", " ", "  ", " X", "\t", "\tX", " X"])
    if k == 12:
        return rng.choice([" ", "\t", "\n", ""]) + str(rng.randrange(1000)) + rng.choice([" ", " msg ", ""])
    if k == 13:
        return 10 ** 5000  # int too large to format -> ValueError in both
    if k == 14:
        return rng.choice(["١٢٣", "١٢٣ msg", "１２３", "１２３ fullwidth"])
    return rng.choice([100, 101, 199, 200, 204, 304, 999, 0])


def rand_header_value(rng):
    k = rng.randrange(12)
    if k == 0:
        return rand_text(rng, 20)
    if k == 1:
        return rng.randrange(-10, 10**6)
    if k == 2:
        return rng.choice([None, True, 3.5, b"bytes", b"by\ntes", b"real\nnewline".decode(), [1, 2], ("a", "b\n")])
    if k == 3:
        return Weird(rand_text(rng, 10))
    if k == 4:
        return StrSub(rand_text(rng, 10))
    if k == 5:
        return rng.choice(["", "\r", "\n", "\r\n", "a\rb", "a\nb", "ok", "  spaced  ", "tab\tok",
                           "vt\x0bok", "ff\x0cok", "nel\x85ok", "ls ok", "ps ok", "nul\x00ok",
                           "trailing\n", "\nleading", "é☃", "x" * 5000, "x" * 5000 + "\n"])
    if k == 6:
        return BadStr()
    if k == 7:
        return Weird(rng.choice(["fine", "evil\r\nSet-Cookie: a=b", "\n"]))
    if k == 8:
        return "text/html; charset=" + rand_text(rng, 5)
    if k == 9:
        return rng.choice(list(HTTPStatus))
    if k == 10:
        return rand_text(rng, 3) + rng.choice(["\r", "\n", "", "", ""]) + rand_text(rng, 3)
    return bytearray(b"ba")


def main():
    assert SansIOResponse._clean_status is not original_clean_status
    assert _str_header_value is not original_str_header_value
    rng = random.Random(30503)
    mismatches = 0
    stats = {}
    n = 0

    def check(tag, a, b, what):
        nonlocal mismatches, n
        n += 1
        stats[(tag, a[0])] = stats.get((tag, a[0]), 0) + 1
        if a != b:
            mismatches += 1
            if mismatches <= 8:
                print("MISMATCH", tag, repr(what)[:200], "\n  orig:", repr(a)[:300], "\n  new: ", repr(b)[:300])

    dummy = SansIOResponse()
    # _clean_status directly
    for _ in range(12000):
        v = rand_status(rng)
        check("clean_status", call(original_clean_status, dummy, v), call(dummy._clean_status, v), v)
    # exhaustive small ints and every known code, as int and as str
    for code in list(range(-10, 1100)):
        for v in (code, str(code), f"{code} custom message", f" {code}\t"):
            check("clean_status", call(original_clean_status, dummy, v), call(dummy._clean_status, v), v)

    # through the public API: constructor and status / status_code setters
    class OrigResp(Response):
        _clean_status = original_clean_status

    def via_api(cls, v):
        r = cls(status=v)
        first = (r.status, r.status_code)
        r.status = v
        second = (r.status, r.status_code)
        if isinstance(v, int):
            r.status_code = v
        return first + second + (r.status, r.status_code)

    for _ in range(3000):
        v = rand_status(rng)
        check("api_status", call(via_api, OrigResp, v), call(via_api, Response, v), v)

    # _str_header_value directly
    for _ in range(12000):
        v = rand_header_value(rng)
        a = call(original_str_header_value, v)
        b = call(_str_header_value, v)
        check("str_header_value", a, b, v)
        # identity: a str input must be returned as the very same object
        if isinstance(v, str) and a[0] == "ok":
            n += 1
            if _str_header_value(v) is not v or original_str_header_value(v) is not v:
                mismatches += 1
                print("IDENTITY MISMATCH", repr(v))

    # through Headers mutators (they all call _str_header_value from the module)
    def via_headers(v):
        out = []
        for op in ("add", "set", "setitem", "ctor", "extend", "setdefault", "setlist", "add_header_kw"):
            h = Headers([("X-A", "1")])
            try:
                if op == "add":
                    h.add("X-B", v)
                elif op == "set":
                    h.set("X-A", v)
                elif op == "setitem":
                    h["X-B"] = v
                elif op == "ctor":
                    h = Headers([("X-B", v)])
                elif op == "extend":
                    h.extend({"X-B": v})
                elif op == "setdefault":
                    h.setdefault("X-B", v)
                elif op == "setlist":
                    h.setlist("X-B", [v, "z"])
                else:
                    h.add("X-B", "base", param=v)
                out.append((op, "ok", h.to_wsgi_list()))
            except Exception as e:
                out.append((op, "exc", type(e).__name__, str(e), h.to_wsgi_list()))
        return ("ok", out)

    # differential: run the same mutators with the ORIGINAL function patched into
    # the headers module, then with the refactored one restored.
    import copy

    import werkzeug.datastructures.headers as hmod

    refactored = hmod._str_header_value
    for _ in range(2500):
        v = rand_header_value(rng)
        v2 = copy.deepcopy(v) if not isinstance(v, (BadStr,)) else v
        hmod._str_header_value = original_str_header_value
        try:
            a = via_headers(v)
        finally:
            hmod._str_header_value = refactored
        b = via_headers(v2)
        n += 1
        key = ("headers_api", "exc" if any(e[1] == "exc" for e in a[1]) else "ok")
        stats[key] = stats.get(key, 0) + 1
        if a != b:
            mismatches += 1
            if mismatches <= 8:
                print("HEADERS API MISMATCH", repr(v)[:100], "\n  orig:", a, "\n  new: ", b)

    print(f"cases={n} stats={stats} mismatches={mismatches}")
    if mismatches or n < 5000:
        print("FAIL")
        sys.exit(1)
    print("PASS")


if __name__ == "__main__":
    main()
