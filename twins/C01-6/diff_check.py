"""Differential check for refactoring 3 (C01): MultiPartParser.parse / _chunk_iter.

Run: cd /tmp/wt6-C01 && PYTHONPATH=/tmp/wt6-C01/src /venv/bin/python /tmp/twin4-C01/3/diff_check.py
"""
from __future__ import annotations

import io
import random
import typing as t

from werkzeug import formparser as FP
from werkzeug.datastructures import FileStorage
from werkzeug.datastructures import MultiDict
from werkzeug.exceptions import RequestEntityTooLarge
from werkzeug.formparser import MultiPartParser
from werkzeug.sansio.multipart import Data
from werkzeug.sansio.multipart import Epilogue
from werkzeug.sansio.multipart import Field
from werkzeug.sansio.multipart import File
from werkzeug.sansio.multipart import MultipartDecoder
from werkzeug.sansio.multipart import NeedData


# ---- ORIGINAL implementation, pasted verbatim from the unmodified tree ----
def _chunk_iter(read: t.Callable[[int], bytes], size: int) -> t.Iterator[bytes | None]:
    """Read data in chunks for multipart/form-data parsing. Stop if no data is read.
    Yield ``None`` at the end to signal end of parsing.
    """
    while True:
        data = read(size)

        if not data:
            break

        yield data

    yield None


class OrigParser(MultiPartParser):
    def parse(
        self, stream: t.IO[bytes], boundary: bytes, content_length: int | None
    ) -> tuple[MultiDict[str, str], MultiDict[str, FileStorage]]:
        current_part: Field | File
        field_size: int | None = None
        container: t.IO[bytes] | list[bytes]
        _write: t.Callable[[bytes], t.Any]

        parser = MultipartDecoder(
            boundary,
            max_form_memory_size=self.max_form_memory_size,
            max_parts=self.max_form_parts,
        )

        fields = []
        files = []

        for data in _chunk_iter(stream.read, self.buffer_size):
            parser.receive_data(data)
            event = parser.next_event()
            while not isinstance(event, (Epilogue, NeedData)):
                if isinstance(event, Field):
                    current_part = event
                    field_size = 0
                    container = []
                    _write = container.append
                elif isinstance(event, File):
                    current_part = event
                    field_size = None
                    container = self.start_file_streaming(event, content_length)
                    _write = container.write
                elif isinstance(event, Data):
                    if self.max_form_memory_size is not None and field_size is not None:
                        # Ensure that accumulated data events do not exceed limit.
                        # Also checked within single event in MultipartDecoder.
                        field_size += len(event.data)

                        if field_size > self.max_form_memory_size:
                            raise RequestEntityTooLarge()

                    _write(event.data)
                    if not event.more_data:
                        if isinstance(current_part, Field):
                            value = b"".join(container).decode(
                                self.get_part_charset(current_part.headers), "replace"
                            )
                            fields.append((current_part.name, value))
                        else:
                            container = t.cast(t.IO[bytes], container)
                            container.seek(0)
                            files.append(
                                (
                                    current_part.name,
                                    FileStorage(
                                        container,
                                        current_part.filename,
                                        current_part.name,
                                        headers=current_part.headers,
                                    ),
                                )
                            )

                event = parser.next_event()

        return self.cls(fields), self.cls(files)



# ---- end of ORIGINAL implementation ----

assert "parse" in MultiPartParser.__dict__ and "parse" in OrigParser.__dict__
assert FP._chunk_iter is not _chunk_iter

BOUNDARIES = [b"b", b"bound", b"----WebKitFormBoundaryABC", b"a-b", b"--x--", b"\r\nq", b"x.y(z)"]
NLS = [b"\r\n", b"\n", b"\r"]


def rand_fragment(rng: random.Random, boundary: bytes) -> bytes:
    kind = rng.randrange(12)
    if kind == 0:
        return rng.choice(NLS)
    if kind == 1:
        return b"--"
    if kind == 2:
        return boundary
    if kind == 3:
        return b"--" + boundary
    if kind == 4:
        cut = rng.randrange(len(boundary) + 3)
        return (b"--" + boundary)[:cut]
    if kind == 5:
        return rng.choice(NLS) + b"--" + boundary + rng.choice([b"", b"--", b" ", b"\t ", b"-- "])
    if kind == 6:
        return rng.choice([b" ", b"\t", b"-", b"\r", b"\n"])
    if kind == 7:
        return bytes(rng.randrange(256) for _ in range(rng.randrange(1, 8)))
    if kind == 8:
        return b"x" * rng.randrange(1, 40)
    if kind == 9:
        return rng.choice([b"\r\r", b"\n\n", b"\r\n\r\n", b"\n\r"])
    if kind == 10:
        return b'Content-Disposition: form-data; name="n%d"' % rng.randrange(5)
    return b'Content-Disposition: form-data; name="f"; filename="a.txt"' + rng.choice(NLS) + b"Content-Type: text/plain"


def rand_payload(rng: random.Random, boundary: bytes) -> bytes:
    return b"".join(rand_fragment(rng, boundary) for _ in range(rng.randrange(0, 8)))


def rand_body(rng: random.Random, boundary: bytes) -> bytes:
    """Mostly well-formed multipart body with adversarial payloads."""
    nl = rng.choice(NLS) if rng.random() < 0.8 else None
    out = bytearray()
    if rng.random() < 0.3:
        out += rand_payload(rng, b"zz")
    for i in range(rng.randrange(0, 4)):
        n = nl or rng.choice(NLS)
        out += (n if (i or rng.random() < 0.5) else b"") + b"--" + boundary
        out += rng.choice([b"", b"", b" ", b"\t"]) + n
        if rng.random() < 0.5:
            out += b'Content-Disposition: form-data; name="f%d"' % i
        else:
            out += b'Content-Disposition: form-data; name="u%d"; filename="x%d.bin"' % (i, i)
            if rng.random() < 0.5:
                out += n + b"Content-Type: text/plain;\r\n charset=utf-8"
        if rng.random() < 0.05:
            out = out.replace(b"Content-Disposition", b"X-Other")
        out += n + n
        out += rand_payload(rng, boundary)
    n = nl or rng.choice(NLS)
    if rng.random() < 0.9:
        out += n + b"--" + boundary + b"--" + rng.choice([b"", n, b" " + n])
    if rng.random() < 0.3:
        out += rand_payload(rng, boundary)
    return bytes(out)


def rand_chunks(rng: random.Random, body: bytes) -> list[bytes]:
    mode = rng.randrange(4)
    if mode == 0:
        return [body]
    if mode == 1:
        return [body[i : i + 1] for i in range(len(body))]
    size = rng.choice([1, 2, 3, 5, 7, 16, 64])
    chunks = []
    i = 0
    while i < len(body):
        step = size if mode == 2 else rng.randrange(0, size + 1)
        chunks.append(body[i : i + step])
        i += step
    return chunks



class ShortReadStream:
    """Input stream whose read(n) returns a scripted number of bytes (<= n)."""

    def __init__(self, body: bytes, plan: list[int], early_eof: int | None):
        self.body = body
        self.pos = 0
        self.plan = list(plan)
        self.calls: list[int] = []
        self.early_eof = early_eof

    def read(self, n: int = -1) -> bytes:
        self.calls.append(n)
        if self.early_eof is not None and len(self.calls) > self.early_eof:
            return b""
        want = len(self.body) if n is None or n < 0 else n
        if self.plan:
            want = max(1, min(want, self.plan.pop(0)))
        out = self.body[self.pos : self.pos + want]
        self.pos += len(out)
        return out


def _items(d):
    return list(d.items(multi=True)) if isinstance(d, MultiDict) else list(d.items())


def run_parser(cls, body, boundary, buffer_size, plan, early_eof, kwargs, content_length):
    factory_calls = []

    def stream_factory(total_content_length, content_type, filename, content_length=None):
        factory_calls.append((total_content_length, content_type, filename, content_length))
        return io.BytesIO()

    stream = ShortReadStream(body, plan, early_eof)
    try:
        parser = cls(stream_factory=stream_factory, buffer_size=buffer_size, **kwargs)
        form, files = parser.parse(stream, boundary, content_length)
    except Exception as e:
        return ("exc", type(e), str(e), tuple(stream.calls), stream.pos, tuple(factory_calls))
    out_files = []
    for key, fs in _items(files):
        assert isinstance(fs, FileStorage)
        out_files.append(
            (key, fs.name, fs.filename, fs.content_type, list(fs.headers), fs.stream.tell(), fs.stream.getvalue())
        )
    return (
        "ok",
        type(form),
        type(files),
        _items(form),
        out_files,
        tuple(stream.calls),
        stream.pos,
        tuple(factory_calls),
    )


def drain_chunk_iter(fn, script, size):
    script = list(script)
    calls = []

    def read(n):
        calls.append(n)
        if not script:
            raise EOFError("script exhausted")
        item = script.pop(0)
        if isinstance(item, type) and issubclass(item, Exception):
            raise item("boom")
        return item

    out = []
    try:
        for item in fn(read, size):
            out.append((type(item), item))
            if len(out) > 50:
                break
    except Exception as e:
        out.append(("exc", type(e), str(e)))
    return out, calls


def main() -> None:
    rng = random.Random(20260303)
    total = 0
    mismatches = 0

    # 1. _chunk_iter directly, including odd falsy/truthy return values
    values = [b"a", b"", b"xyz", bytearray(b"q"), bytearray(), None, 0, 1, "", "s", OSError, b"\r\n"]
    for _ in range(4000):
        script = [rng.choice(values) for _ in range(rng.randrange(0, 6))]
        size = rng.choice([1, 2, 64, 65536])
        total += 1
        a = drain_chunk_iter(FP._chunk_iter, script, size)
        b = drain_chunk_iter(_chunk_iter, script, size)
        if a != b:
            mismatches += 1
            print("_chunk_iter mismatch", script, a, b)

    # 2. MultiPartParser.parse on generated bodies with varying buffer sizes
    #    and short reads
    for _ in range(14000):
        boundary = rng.choice(BOUNDARIES)
        body = rand_body(rng, boundary) if rng.random() < 0.85 else rand_payload(rng, boundary)
        buffer_size = rng.choice([1, 2, 3, 5, 7, 16, 64, 1024, 64 * 1024])
        plan = (
            [rng.randrange(1, buffer_size + 1) for _ in range(rng.randrange(0, 40))]
            if rng.random() < 0.5
            else []
        )
        early_eof = rng.randrange(0, 6) if rng.random() < 0.1 else None
        kwargs: dict[str, t.Any] = {}
        if rng.random() < 0.3:
            kwargs["max_form_memory_size"] = rng.randrange(1, 120)
        if rng.random() < 0.15:
            kwargs["max_form_parts"] = rng.randrange(0, 3)
        if rng.random() < 0.1:
            kwargs["cls"] = dict if rng.random() < 0.3 else MultiDict
        content_length = rng.choice([None, len(body), 0])
        total += 1
        a = run_parser(MultiPartParser, body, boundary, buffer_size, plan, early_eof, kwargs, content_length)
        b = run_parser(OrigParser, body, boundary, buffer_size, plan, early_eof, kwargs, content_length)
        if a != b:
            mismatches += 1
            print("parse mismatch", boundary, body, buffer_size, plan, kwargs)
            print("  new:", a)
            print("  old:", b)

    print(f"cases={total} mismatches={mismatches}")
    print("PASS" if mismatches == 0 else "FAIL")


if __name__ == "__main__":
    main()
