"""Differential check for refactoring 3 (C16):
  * _DictAccessorProperty.__set__/__delete__ (read-only guard extracted into
    _check_writable), and
  * Response.content_range / content_security_policy /
    content_security_policy_report_only setters (early return + single store).

Part A drives the worktree _DictAccessorProperty against a pasted copy of the
ORIGINAL class (side-effect order and exception types included).
Part B drives the worktree Response against OrigResponse, whose three setters
are the ORIGINAL bodies, through random mutation sequences.
"""
import random

from werkzeug._internal import _DictAccessorProperty as New
from werkzeug.datastructures import ContentRange, ContentSecurityPolicy, Headers
from werkzeug.sansio.response import Response
from werkzeug.utils import environ_property, header_property


class Orig:
    read_only = False

    def __init__(self, name, default=None, load_func=None, dump_func=None,
                 read_only=None, doc=None):
        self.name = name
        self.default = default
        self.load_func = load_func
        self.dump_func = dump_func
        if read_only is not None:
            self.read_only = read_only
        self.__doc__ = doc

    def lookup(self, instance):
        raise NotImplementedError

    def __get__(self, instance, owner):
        if instance is None:
            return self

        storage = self.lookup(instance)

        if self.name not in storage:
            return self.default  # type: ignore

        value = storage[self.name]

        if self.load_func is not None:
            try:
                return self.load_func(value)
            except (ValueError, TypeError):
                return self.default  # type: ignore

        return value  # type: ignore

    def __set__(self, instance, value):
        if self.read_only:
            raise AttributeError("read only property")

        if self.dump_func is not None:
            self.lookup(instance)[self.name] = self.dump_func(value)
        else:
            self.lookup(instance)[self.name] = value

    def __delete__(self, instance):
        if self.read_only:
            raise AttributeError("read only property")

        self.lookup(instance).pop(self.name, None)


class Boom(Exception):
    pass


class Truthy:
    """read_only flag object with observable truthiness checks."""

    def __init__(self, val, log):
        self.val = val
        self.log = log

    def __bool__(self):
        self.log.append(("bool",))
        return self.val


class LoggedDict(dict):
    def __setitem__(self, k, v):
        self.log.append(("setitem", k, repr(v)))
        dict.__setitem__(self, k, v)

    def pop(self, *a):
        self.log.append(("pop",) + tuple(map(repr, a)))
        return dict.pop(self, *a)


NAMES = ["Age", "age", "X-Thing", "Content-Length", "wsgi.thing"]
VALUES = [0, 1, "", "abc", "12", None, True, 3.5, ["a"], b"b", "x\ny", "é", ("t",)]


def run_generic(base, rng):
    out = []
    log = []

    def dump_ok(v):
        log.append(("dump", repr(v)))
        return str(v)

    def dump_bad(v):
        log.append(("dump", repr(v)))
        raise rng2.choice([ValueError, TypeError, Boom])("d")

    rng2 = random.Random(rng.random())
    name = rng.choice(NAMES)
    dump = rng.choice([None, dump_ok, dump_bad])
    load = rng.choice([None, int])
    ro_kind = rng.choice(["none", "none", "false", "true", "class_true", "obj_t", "obj_f"])
    read_only = {"none": None, "false": False, "true": True, "class_true": None,
                 "obj_t": Truthy(True, log), "obj_f": Truthy(False, log)}[ro_kind]
    broken = rng.random() < 0.08
    kind = rng.choice(["dict", "headers"])

    class Prop(base):
        if ro_kind == "class_true":
            read_only = True

        def lookup(self, inst):
            log.append(("lookup",))
            if broken:
                raise Boom("lookup")
            return inst.storage

    class Holder:
        prop = Prop(name, rng.choice([None, "dflt"]), load, dump, read_only)

    h = Holder()
    if kind == "dict":
        h.storage = LoggedDict()
        h.storage.log = log
    else:
        h.storage = Headers()
    for _ in range(rng.randrange(3)):
        k = rng.choice(NAMES + [name.upper()])
        v = rng.choice(["1", "zz", "5"])
        if kind == "dict":
            dict.__setitem__(h.storage, k, v)
        else:
            h.storage.add(k, v)
    out.append((kind, name, ro_kind, broken, bool(Holder.prop.read_only)))
    del log[:]
    for _ in range(rng.randrange(1, 8)):
        op = rng.choice(["get", "set", "set", "del", "del"])
        del log[:]
        try:
            if op == "get":
                res = ("ok", repr(h.prop))
            elif op == "set":
                v = rng.choice(VALUES)
                h.prop = v
                res = ("ok", repr(v))
            else:
                del h.prop
                res = ("ok",)
        except BaseException as e:  # noqa: B036
            res = ("exc", type(e).__name__, str(e))
        snap = list(h.storage) if kind == "headers" else sorted(
            (k, repr(v)) for k, v in dict.items(h.storage))
        out.append((op, res, list(log), snap))
    return out


# ---------------------------------------------------------------- part B


class OrigResponse(Response):
    def _cr_set(self, value):
        if not value:
            del self.headers["content-range"]
        elif isinstance(value, str):
            self.headers["Content-Range"] = value
        else:
            self.headers["Content-Range"] = value.to_header()

    content_range = property(Response.content_range.fget, _cr_set, None,
                             Response.content_range.__doc__)

    def _csp_set(self, value):
        if not value:
            del self.headers["content-security-policy"]
        elif isinstance(value, str):
            self.headers["Content-Security-Policy"] = value
        else:
            self.headers["Content-Security-Policy"] = value.to_header()

    content_security_policy = property(Response.content_security_policy.fget, _csp_set,
                                       None, Response.content_security_policy.__doc__)

    def _cspro_set(self, value):
        if not value:
            del self.headers["content-security-policy-report-only"]
        elif isinstance(value, str):
            self.headers["Content-Security-policy-report-only"] = value
        else:
            self.headers["Content-Security-policy-report-only"] = value.to_header()

    content_security_policy_report_only = property(
        Response.content_security_policy_report_only.fget, _cspro_set, None,
        Response.content_security_policy_report_only.__doc__)


class Str(str):
    def to_header(self):
        return "should-not-be-used"


class LoggedBool:
    def __init__(self, val, log):
        self.val, self.log = val, log

    def __bool__(self):
        self.log.append("bool")
        return self.val

    def to_header(self):
        self.log.append("to_header")
        return "logged"


def make_cr(rng):
    c = rng.random()
    if c < 0.15:
        return ContentRange(None, None, None)
    if c < 0.3:
        return ContentRange(rng.choice(["bytes", "items"]), None, None,
                            rng.choice([None, 0, 100]))
    start = rng.randrange(0, 50)
    stop = start + rng.randrange(1, 50)
    length = rng.choice([None, stop, stop + rng.randrange(100)])
    return ContentRange(rng.choice(["bytes", "items", ""]), start, stop, length)


def make_csp(rng):
    d = {}
    for k in rng.sample(["default-src", "script-src", "img-src", "report-uri", "x"],
                        rng.randrange(4)):
        d[k] = rng.choice(["'self'", "*", "https://a.example 'unsafe-inline'", ""])
    return ContentSecurityPolicy(d)


def other_values(rng, log):
    return rng.choice([
        None, "", Str(""), Str("bytes 1-2/3"), "bytes 0-9/10", "bytes */5", "garbage",
        "default-src 'self'; img-src *", "a b; c", "x\ny", "é", 0, 5, [], ["a"], {}, {"a": "b"},
        b"", b"bytes", (), LoggedBool(True, log), LoggedBool(False, log), object,
    ])


def cr_view(v):
    return (type(v).__name__, v.units, v.start, v.stop, v.length, bool(v), v.to_header())


def csp_view(v):
    return (type(v).__name__, dict(v), v.to_header())


def run_response(cls, rng):
    out = []
    r = cls()
    log = []
    live_cr, live_csp = [], []
    attrs = ["content_range", "content_security_policy", "content_security_policy_report_only"]
    for _ in range(rng.randrange(1, 12)):
        op = rng.choice(["set_obj", "set_obj", "set_other", "set_other", "get", "mut", "mut", "raw"])
        attr = rng.choice(attrs)
        del log[:]
        try:
            if op == "set_obj":
                if attr == "content_range":
                    v = make_cr(rng)
                    live_cr.append(v)
                else:
                    v = make_csp(rng)
                    live_csp.append(v)
                setattr(r, attr, v)
                res = "ok"
            elif op == "set_other":
                setattr(r, attr, other_values(rng, log))
                res = "ok"
            elif op == "get":
                v = getattr(r, attr)
                if attr == "content_range":
                    live_cr.append(v)
                    res = cr_view(v)
                else:
                    live_csp.append(v)
                    res = csp_view(v)
            elif op == "mut":
                if attr == "content_range":
                    if not live_cr:
                        live_cr.append(r.content_range)
                    v = rng.choice(live_cr)
                    m = rng.randrange(5)
                    if m == 0:
                        v.unset()
                    elif m == 1:
                        s = rng.randrange(10)
                        v.set(s, s + rng.randrange(1, 9), rng.choice([None, 100]))
                    elif m == 2:
                        v.units = rng.choice(["bytes", None, "rows"])
                    elif m == 3:
                        v.length = rng.choice([None, 1000])
                    else:
                        v.set(5, 2)  # invalid -> AssertionError
                    res = cr_view(v)
                else:
                    if not live_csp:
                        live_csp.append(getattr(r, attr))
                    v = rng.choice(live_csp)
                    m = rng.randrange(5)
                    if m == 0:
                        v.default_src = rng.choice(["'self'", "'none'"])
                    elif m == 1:
                        v["img-src"] = "*"
                    elif m == 2:
                        v.clear()
                    elif m == 3:
                        v.pop("img-src", None)
                    else:
                        v.script_src = None
                    res = csp_view(v)
            else:
                hname = {"content_range": "Content-Range",
                         "content_security_policy": "Content-Security-Policy",
                         "content_security_policy_report_only":
                             "Content-Security-Policy-Report-Only"}[attr]
                if rng.random() < 0.6:
                    r.headers.add(hname, rng.choice(["bytes 0-0/1", "img-src *", "zz"]))
                else:
                    r.headers.remove(hname.upper())
                res = "ok"
        except BaseException as e:  # noqa: B036
            res = ("exc", type(e).__name__)
        out.append((op, attr, res, list(log), list(r.headers),
                    cr_view(r.content_range), csp_view(r.content_security_policy),
                    csp_view(r.content_security_policy_report_only)))
    return out


def report(tag, seed, a, b):
    print("FAIL", tag, "seed", seed)
    for x, y in zip(a, b):
        if x != y:
            print(" orig", x)
            print(" new ", y)


def main():
    n = 0
    for seed in range(6000):
        a = run_generic(Orig, random.Random(seed))
        b = run_generic(New, random.Random(seed))
        if a != b:
            return report("generic", seed, a, b)
        n += len(a)

    # real read-only subclasses still refuse writes, writable ones still write
    class Req:
        environ = {"K": "v"}
        headers = Headers()
        e = environ_property("K")
        e_rw = environ_property("K", read_only=False)
        h = header_property("K")
        h_ro = header_property("K", read_only=True)

    q = Req()
    for attr, writable in [("e", False), ("e_rw", True), ("h", True), ("h_ro", False)]:
        for action in ("set", "del"):
            try:
                setattr(q, attr, "n") if action == "set" else delattr(q, attr)
                ok = True
            except AttributeError as e:
                assert str(e) == "read only property"
                ok = False
            assert ok is writable, (attr, action)

    for seed in range(8000):
        a = run_response(OrigResponse, random.Random(seed))
        b = run_response(Response, random.Random(seed))
        if a != b:
            return report("response", seed, a, b)
        n += len(a)
    print(f"PASS ({n} compared steps)")


if __name__ == "__main__":
    main()
