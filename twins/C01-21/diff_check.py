"""Differential check (property C01): refactored formparser.MultiPartParser.parse
and formparser._chunk_iter in the worktree vs. pasted copies of the ORIGINAL code.

Run: cd /tmp/wt15-C01 && PYTHONPATH=/tmp/wt15-C01/src /venv/bin/python diff_check.py
"""
from __future__ import annotations

import random
import typing as t

from werkzeug import formparser as FP
from werkzeug.datastructures import FileStorage, MultiDict
from werkzeug.exceptions import RequestEntityTooLarge
from werkzeug.formparser import MultiPartParser, _chunk_iter
from werkzeug.sansio.multipart import (
    Data, Epilogue, Field, File, MultipartDecoder, NeedData,
)

assert FP.__file__.startswith("/tmp/wt15-C01/"), FP.__file__


# ---------------------------------------------------------------- ORIGINAL --
def _orig_chunk_iter(read: t.Callable[[int], bytes], size: int) -> t.Iterator[bytes | None]:
    """Read data in chunks for multipart/form-data parsing. Stop if no data is read.
    Yield ``None`` at the end to signal end of parsing.
    """
    while True:
        data = read(size)

        if not data:
            break

        yield data

    yield None


class OrigMultiPartParser(MultiPartParser):
    def parse(
        self, stream: t.IO[bytes], boundary: bytes, content_length: int | None
    ) -> tuple[MultiDict[str, str], MultiDict[str, FileStorage]]:
        current_part: Field | File
        field_size: int | None = None
        container: t.IO[bytes] | list[bytes]
        _write: t.Callable[[bytes], t.Any]

        parser = MultipartDecoder(
            boundary,
            max_form_memory_size=self.max_form_memory_size,
            max_parts=self.max_form_parts,
        )

        fields = []
        files = []

        for data in _orig_chunk_iter(stream.read, self.buffer_size):
            parser.receive_data(data)
            event = parser.next_event()
            while not isinstance(event, (Epilogue, NeedData)):
                if isinstance(event, Field):
                    current_part = event
                    field_size = 0
                    container = []
                    _write = container.append
                elif isinstance(event, File):
                    current_part = event
                    field_size = None
                    container = self.start_file_streaming(event, content_length)
                    _write = container.write
                elif isinstance(event, Data):
                    if self.max_form_memory_size is not None and field_size is not None:
                        # Ensure that accumulated data events do not exceed limit.
                        # Also checked within single event in MultipartDecoder.
                        field_size += len(event.data)

                        if field_size > self.max_form_memory_size:
                            raise RequestEntityTooLarge()

                    _write(event.data)
                    if not event.more_data:
                        if isinstance(current_part, Field):
                            value = b"".join(container).decode(
                                self.get_part_charset(current_part.headers), "replace"
                            )
                            fields.append((current_part.name, value))
                        else:
                            container = t.cast(t.IO[bytes], container)
                            container.seek(0)
                            files.append(
                                (
                                    current_part.name,
                                    FileStorage(
                                        container,
                                        current_part.filename,
                                        current_part.name,
                                        headers=current_part.headers,
                                    ),
                                )
                            )

                event = parser.next_event()

        return self.cls(fields), self.cls(files)


# ------------------------------------------------------------------ HARNESS --
NLS = [b"\r\n", b"\n", b"\r"]


def rand_payload(rng, boundary):
    pieces = []
    for _ in range(rng.randint(0, 6)):
        k = rng.random()
        if k < 0.25:
            pieces.append(bytes(rng.choice(b"ab \t-") for _ in range(rng.randint(0, 30))))
        elif k < 0.45:
            pieces.append(rng.choice(NLS))
        elif k < 0.6:
            # partial / near boundary
            full = rng.choice(NLS) + b"--" + boundary
            pieces.append(full[: rng.randint(0, len(full) - 1)])
        elif k < 0.7:
            pieces.append(b"--" + boundary[: rng.randint(0, len(boundary))] + b"x")
        elif k < 0.8:
            pieces.append(bytes(rng.randrange(256) for _ in range(rng.randint(0, 40))))
        elif k < 0.9:
            pieces.append(b"x" * rng.randint(30, 120))
        else:
            pieces.append(rng.choice([b"\r\r", b"\n\n", b"\r\n\r\n", b"--", b"\r\n--"]))
    return b"".join(pieces)


def rand_body(rng):
    boundary = rng.choice([b"b", b"bound", b"----WebKitFormBoundaryX7", b"a.b+c", b"--", b"0123456789" * 4])
    nl = rng.choice(NLS) if rng.random() < 0.3 else b"\r\n"
    out = []
    if rng.random() < 0.3:
        out.append(rand_payload(rng, boundary) if rng.random() < 0.5 else b"preamble text")
        out.append(nl)
    nparts = rng.randint(0, 4)
    for i in range(nparts):
        out.append(b"--" + boundary + rng.choice([b"", b" ", b"\t "]) + nl)
        r = rng.random()
        if r < 0.08:
            out.append(b"Content-Type: text/plain" + nl)
        elif r < 0.55:
            out.append(b'Content-Disposition: form-data; name="f%d"' % i + nl)
        else:
            out.append(b'Content-Disposition: form-data; name="f%d"; filename="n%d.txt"' % (i, i) + nl)
            out.append(b"Content-Type: text/plain;" + nl + b"\t charset=utf-8" + nl)
        if rng.random() < 0.2:
            out.append(b"X-Long: " + b"h" * rng.randint(0, 80) + nl)
        out.append(nl)
        out.append(rand_payload(rng, boundary))
        out.append(nl)
    out.append(b"--" + boundary + b"--" + rng.choice([b"", nl, b" " + nl]))
    if rng.random() < 0.3:
        out.append(rng.choice([b"epilogue", rand_payload(rng, boundary)]))
    body = b"".join(out)
    r = rng.random()
    if r < 0.15:  # truncate
        body = body[: rng.randint(0, len(body))]
    elif r < 0.25 and body:  # mutate a byte
        i = rng.randrange(len(body))
        body = body[:i] + bytes([rng.randrange(256)]) + body[i + 1 :]
    elif r < 0.3:
        body = bytes(rng.choice(b"\r\n-b x") for _ in range(rng.randint(0, 80)))
    return boundary, body


def chunkings(rng, body):
    yield [body]
    yield [body[i : i + 1] for i in range(len(body))]
    for _ in range(3):
        chunks, i = [], 0
        hi = rng.choice([2, 5, 17, 64])
        while i < len(body):
            n = rng.randint(1, hi)
            chunks.append(body[i : i + n])
            i += n
        yield chunks



class Stream:
    """Input stream with short reads; records every read() call."""

    def __init__(self, body, seed, mode):
        self.body, self.pos, self.rng, self.mode = body, 0, random.Random(seed), mode
        self.calls = []

    def read(self, size=-1):
        self.calls.append(size)
        if self.mode == "full" or size is None or size < 0:
            n = size if size is not None and size >= 0 else len(self.body)
        elif self.mode == "one":
            n = 1
        else:
            n = self.rng.randint(1, max(1, size))
        if self.mode == "boom" and self.pos > len(self.body) // 2:
            raise OSError("boom")
        chunk = self.body[self.pos : self.pos + n]
        self.pos += len(chunk)
        return chunk


def run(cls, boundary, body, bufsize, seed, mode, kw):
    stream = Stream(body, seed, mode)
    parser = cls(buffer_size=bufsize, **kw)
    try:
        fields, files = parser.parse(stream, boundary, len(body))
        res = (
            type(fields).__name__,
            list(fields.items(multi=True)),
            [
                (k, type(v).__name__, v.name, v.filename, v.content_type, list(v.headers), v.stream.read())
                for k, v in files.items(multi=True)
            ],
        )
    except Exception as e:  # noqa: B902
        res = ("EXC", type(e).__name__, str(e))
    return res, stream.calls, stream.pos


def chunk_iter_checks(rng):
    n = 0
    for _ in range(2000):
        items = [rng.choice([b"a", b"bc", bytearray(b"x"), b"\x00", "s", 1]) for _ in range(rng.randint(0, 5))]
        items.append(rng.choice([b"", None, bytearray(), 0, "", OSError("r")]))
        items += [b"after", b""]
        size = rng.choice([1, 7, 65536])
        res = []
        for fn in (_orig_chunk_iter, _chunk_iter):
            it = iter(items)
            log = []

            def read(n, it=it, log=log):
                log.append(("read", n))
                v = next(it)
                if isinstance(v, Exception):
                    raise v
                return v

            try:
                for v in fn(read, size):
                    log.append(("yield", v))
            except Exception as e:  # noqa: B902
                log.append(("EXC", type(e).__name__))
            res.append(log)
        assert res[0] == res[1], (items, res)
        n += 1
    return n


def main():
    rng = random.Random(777)
    n_ci = chunk_iter_checks(rng)
    n = 0
    for i in range(2200):
        boundary, body = rand_body(rng)
        kws = [{}]
        if i % 4 == 0:
            kws.append({"max_form_memory_size": rng.randint(1, 120)})
        if i % 6 == 0:
            kws.append({"max_form_parts": rng.randint(0, 3)})
        for bufsize, mode in [(65536, "full"), (1, "full"), (rng.randint(2, 40), "short"), (rng.randint(2, 300), "short"), (16, "one"), (8, "boom")]:
            seed = rng.random()
            for kw in kws:
                a = run(OrigMultiPartParser, boundary, body, bufsize, seed, mode, kw)
                b = run(MultiPartParser, boundary, body, bufsize, seed, mode, kw)
                if a != b:
                    print("FAIL", boundary, body, bufsize, mode, kw)
                    print(" orig:", a)
                    print(" new :", b)
                    raise SystemExit(1)
                n += 1
    print(f"PASS ({n_ci} _chunk_iter cases, {n} parse runs identical)")


if __name__ == "__main__":
    main()
