"""Differential check for a refactoring of werkzeug.wsgi.LimitedStream (property C10).

Compares the LimitedStream in the worktree (PYTHONPATH=/tmp/wt14-C10/src) against
a verbatim copy of the ORIGINAL class pasted below, over generated scenarios:
underlying streams with / without ``readinto``, short reads, zero-byte reads,
``None`` (non-blocking) results, over-long ``read`` results, errors raised at the
n-th call (OSError, ValueError, RuntimeError), all kinds of limits (0, negative,
below / equal / above the body size), is_max on/off, subclasses overriding the
hooks, BufferedReader wrappers, and full form parsing through get_input_stream.

Prints PASS only if every outcome (return values, exception types, hook call
log, underlying stream call log, final position) is identical.
"""
from __future__ import annotations

import io
import random
import sys
import typing as t

from werkzeug.exceptions import ClientDisconnected
from werkzeug.exceptions import RequestEntityTooLarge
from werkzeug import wsgi as new_wsgi
from werkzeug.wsgi import LimitedStream as NewLimitedStream

assert new_wsgi.__file__.startswith("/tmp/wt14-C10/"), new_wsgi.__file__


# --------------------------------------------------------------------------
# ORIGINAL implementation (verbatim copy from the unmodified tree)
# --------------------------------------------------------------------------
class OrigLimitedStream(io.RawIOBase):
    """Wrap a stream so that it doesn't read more than a given limit. This is used to
    limit ``wsgi.input`` to the ``Content-Length`` header value or
    :attr:`.Request.max_content_length`.

    When attempting to read after the limit has been reached, :meth:`on_exhausted` is
    called. When the limit is a maximum, this raises :exc:`.RequestEntityTooLarge`.

    If reading from the stream returns zero bytes or raises an error,
    :meth:`on_disconnect` is called, which raises :exc:`.ClientDisconnected`. When the
    limit is a maximum and zero bytes were read, no error is raised, since it may be the
    end of the stream.

    If the limit is reached before the underlying stream is exhausted (such as a file
    that is too large, or an infinite stream), the remaining contents of the stream
    cannot be read safely. Depending on how the server handles this, clients may show a
    "connection reset" failure instead of seeing the 413 response.

    :param stream: The stream to read from. Must be a readable binary IO object.
    :param limit: The limit in bytes to not read past. Should be either the
        ``Content-Length`` header value or ``request.max_content_length``.
    :param is_max: Whether the given ``limit`` is ``request.max_content_length`` instead
        of the ``Content-Length`` header value. This changes how exhausted and
        disconnect events are handled.

    .. versionchanged:: 2.3
        Handle ``max_content_length`` differently than ``Content-Length``.

    .. versionchanged:: 2.3
        Implements ``io.RawIOBase`` rather than ``io.IOBase``.
    """

    def __init__(self, stream: t.IO[bytes], limit: int, is_max: bool = False) -> None:
        self._stream = stream
        self._pos = 0
        self.limit = limit
        self._limit_is_max = is_max

    @property
    def is_exhausted(self) -> bool:
        """Whether the current stream position has reached the limit."""
        return self._pos >= self.limit

    def on_exhausted(self) -> None:
        """Called when attempting to read after the limit has been reached.

        The default behavior is to do nothing, unless the limit is a maximum, in which
        case it raises :exc:`.RequestEntityTooLarge`.

        .. versionchanged:: 2.3
            Raises ``RequestEntityTooLarge`` if the limit is a maximum.

        .. versionchanged:: 2.3
            Any return value is ignored.
        """
        if self._limit_is_max:
            raise RequestEntityTooLarge()

    def on_disconnect(self, error: Exception | None = None) -> None:
        """Called when an attempted read receives zero bytes before the limit was
        reached. This indicates that the client disconnected before sending the full
        request body.

        The default behavior is to raise :exc:`.ClientDisconnected`, unless the limit is
        a maximum and no error was raised.

        .. versionchanged:: 2.3
            Added the ``error`` parameter. Do nothing if the limit is a maximum and no
            error was raised.

        .. versionchanged:: 2.3
            Any return value is ignored.
        """
        if not self._limit_is_max or error is not None:
            raise ClientDisconnected()

        # If the limit is a maximum, then we may have read zero bytes because the
        # streaming body is complete. There's no way to distinguish that from the
        # client disconnecting early.

    def exhaust(self) -> bytes:
        """Exhaust the stream by reading until the limit is reached or the client
        disconnects, returning the remaining data.

        .. versionchanged:: 2.3
            Return the remaining data.

        .. versionchanged:: 2.2.3
            Handle case where wrapped stream returns fewer bytes than requested.
        """
        if not self.is_exhausted:
            return self.readall()

        return b""

    def readinto(self, b: bytearray) -> int | None:  # type: ignore[override]
        size = len(b)
        remaining = self.limit - self._pos

        if remaining <= 0:
            self.on_exhausted()
            return 0

        if hasattr(self._stream, "readinto"):
            # Use stream.readinto if it's available.
            if size <= remaining:
                # The size fits in the remaining limit, use the buffer directly.
                try:
                    out_size: int | None = self._stream.readinto(b)
                except (OSError, ValueError) as e:
                    self.on_disconnect(error=e)
                    return 0
            else:
                # Use a temp buffer with the remaining limit as the size.
                temp_b = bytearray(remaining)

                try:
                    out_size = self._stream.readinto(temp_b)
                except (OSError, ValueError) as e:
                    self.on_disconnect(error=e)
                    return 0

                if out_size:
                    b[:out_size] = temp_b[:out_size]
        else:
            # WSGI requires that stream.read is available.
            try:
                data = self._stream.read(min(size, remaining))
            except (OSError, ValueError) as e:
                self.on_disconnect(error=e)
                return 0

            out_size = len(data)
            b[:out_size] = data

        if not out_size:
            # Read zero bytes from the stream.
            self.on_disconnect()
            return 0

        self._pos += out_size
        return out_size

    def readall(self) -> bytes:
        if self.is_exhausted:
            self.on_exhausted()
            return b""

        out = bytearray()

        # The parent implementation uses "while True", which results in an extra read.
        while not self.is_exhausted:
            data = self.read(1024 * 64)

            # Stream may return empty before a max limit is reached.
            if not data:
                break

            out.extend(data)

        return bytes(out)

    def tell(self) -> int:
        """Return the current stream position.

        .. versionadded:: 0.9
        """
        return self._pos

    def readable(self) -> bool:
        return True


# --------------------------------------------------------------------------
# Harness
# --------------------------------------------------------------------------
EXC_TYPES = {"os": OSError, "value": ValueError, "runtime": RuntimeError}


class ReadOnlySrc:
    """Underlying stream that only has ``read`` (as WSGI requires)."""

    def __init__(self, data, cap, fail_at, fail_exc, none_at, overlong, log):
        self.data = data
        self.pos = 0
        self.cap = cap
        self.fail_at = fail_at
        self.fail_exc = fail_exc
        self.none_at = none_at
        self.overlong = overlong
        self.calls = 0
        self.log = log

    def _step(self, kind, n):
        idx = self.calls
        self.calls += 1
        self.log.append((kind, n))

        if idx == self.fail_at:
            raise EXC_TYPES[self.fail_exc]("boom")

        return idx

    def read(self, n=-1):
        idx = self._step("read", n)

        if idx == self.none_at:
            return b""

        if n is None or n < 0:
            n = len(self.data) - self.pos

        if self.cap:
            n = min(n, self.cap)

        if self.overlong:
            n += self.overlong

        out = self.data[self.pos : self.pos + n]
        self.pos += len(out)
        return out


class ReadIntoSrc(ReadOnlySrc):
    def readinto(self, b):
        idx = self._step("readinto", len(b))

        if idx == self.none_at:
            return None

        n = len(b)

        if self.cap:
            n = min(n, self.cap)

        out = self.data[self.pos : self.pos + n]
        self.pos += len(out)
        b[: len(out)] = out
        return len(out)


def make_variants(base):
    class Logging(base):
        def __init__(self, *a, **kw):
            super().__init__(*a, **kw)
            self.hook_log = []

        def on_exhausted(self):
            self.hook_log.append(("exhausted", self._pos))
            return super().on_exhausted()

        def on_disconnect(self, error=None):
            self.hook_log.append(("disconnect", self._pos, type(error).__name__))
            return super().on_disconnect(error=error)

    class Silent(base):
        def __init__(self, *a, **kw):
            super().__init__(*a, **kw)
            self.hook_log = []

        def on_exhausted(self):
            self.hook_log.append(("exhausted", self._pos))
            return "ignored"

        def on_disconnect(self, error=None):
            self.hook_log.append(("disconnect", self._pos, type(error).__name__))
            return "ignored"

    class Loud(base):
        def __init__(self, *a, **kw):
            super().__init__(*a, **kw)
            self.hook_log = []

        def on_exhausted(self):
            self.hook_log.append(("exhausted", self._pos))
            raise KeyError("exhausted")

        def on_disconnect(self, error=None):
            self.hook_log.append(("disconnect", self._pos, type(error).__name__))
            raise LookupError("disconnect")

    return {"plain": base, "logging": Logging, "silent": Silent, "loud": Loud}


ORIG = make_variants(OrigLimitedStream)  # noqa: F821
NEW = make_variants(NewLimitedStream)


def gen_scenario(rng):
    size = rng.choice([0, 1, 2, 5, 17, 64, 300, 300, 1500])
    big = rng.random() < 0.02

    if big:
        size = rng.choice([70000, 140000])
    data = bytes(rng.getrandbits(8) for _ in range(min(size, 400)))

    if size > 400:
        data = (data * (size // len(data) + 1))[:size]

    if rng.random() < 0.3:
        data = data.replace(b"\x00", b"\n")

    limit = rng.choice(
        [
            0,
            -1,
            -5,
            1,
            size,
            size + 1,
            max(size - 1, 0),
            size // 2,
            size * 2 + 3,
            rng.randint(0, size + 10),
            10**9,
        ]
    )
    scenario = {
        "data": data,
        "limit": limit,
        "is_max": rng.choice([False, True, 0, 1]),
        "readinto": rng.random() < 0.6,
        "cap": rng.choice([0, 65536, 30000]) if big else rng.choice([0, 0, 1, 3, 7, 1000]),
        "fail_at": rng.choice([-1, -1, -1, 0, 1, 2, 3]),
        "fail_exc": rng.choice(["os", "value", "runtime"]),
        "none_at": rng.choice([-1, -1, -1, 0, 1, 2]),
        "overlong": rng.choice([0, 0, 0, 0, 2]),
        "variant": rng.choice(["plain", "plain", "logging", "logging", "silent", "loud"]),
        "buffered": rng.random() < 0.15,
        "ctor": rng.choice(["pos", "kw", "default"]),
    }
    ops = []

    for _ in range(rng.randint(1, 7)):
        kind = rng.choice(
            ["read", "readall", "exhaust", "readinto", "tell"]
            if big
            else [
                "read",
                "read",
                "readall",
                "exhaust",
                "readinto",
                "readinto_mv",
                "readline",
                "readlines",
                "next",
                "is_exhausted",
                "tell",
                "on_exhausted",
                "on_disconnect",
                "on_disconnect_err",
                "on_disconnect_kw",
                "read1",
            ]
        )
        arg = rng.choice(
            [-1, None, 0, 1, 2, 5, 16, 100, size, size + 1, min(limit, 150000), min(limit + 1, 150000), 70000]
        )
        ops.append((kind, arg))

    scenario["ops"] = ops
    return scenario


def run(variants, sc):
    log = []
    src_cls = ReadIntoSrc if sc["readinto"] else ReadOnlySrc
    src = src_cls(
        sc["data"],
        sc["cap"],
        sc["fail_at"],
        sc["fail_exc"],
        sc["none_at"],
        sc["overlong"],
        log,
    )
    cls = variants[sc["variant"]]

    if sc["ctor"] == "pos":
        ls = cls(src, sc["limit"], sc["is_max"])
    elif sc["ctor"] == "kw":
        ls = cls(stream=src, limit=sc["limit"], is_max=sc["is_max"])
    else:
        ls = cls(src, sc["limit"])

    out = [
        (
            "init",
            ls._stream is src,
            ls._pos,
            ls.limit,
            repr(ls._limit_is_max),
            ls.readable(),
            sorted(k for k in vars(ls) if k != "hook_log"),
        )
    ]
    target = io.BufferedReader(ls, 32) if sc["buffered"] else ls

    for kind, arg in sc["ops"]:
        n = arg if isinstance(arg, int) and arg >= 0 else 8
        extra = None

        try:
            if kind == "read":
                res = target.read(arg) if arg is not None else target.read()
            elif kind == "read1":
                if sc["buffered"]:
                    res = target.read1(n)
                else:
                    res = ls.read(n)
            elif kind == "readall":
                res = ls.readall()
            elif kind == "exhaust":
                res = ls.exhaust()
            elif kind == "readinto":
                buf = bytearray(b"\xaa" * min(n, 80000))
                res = target.readinto(buf)
                extra = bytes(buf)
            elif kind == "readinto_mv":
                buf = bytearray(b"\xbb" * min(n, 80000))
                res = ls.readinto(memoryview(buf))
                extra = bytes(buf)
            elif kind == "readline":
                res = target.readline() if arg is None else target.readline(arg)
            elif kind == "readlines":
                res = target.readlines()
            elif kind == "next":
                res = next(target)
            elif kind == "is_exhausted":
                res = ls.is_exhausted
            elif kind == "tell":
                res = ls.tell()
            elif kind == "on_exhausted":
                res = ls.on_exhausted()
            elif kind == "on_disconnect":
                res = ls.on_disconnect()
            elif kind == "on_disconnect_err":
                res = ls.on_disconnect(OSError("x"))
            elif kind == "on_disconnect_kw":
                res = ls.on_disconnect(error=None)
            else:
                raise AssertionError(kind)

            out.append(("ok", kind, type(res).__name__, res, extra))
        except BaseException as e:  # noqa: B036
            if isinstance(e, (KeyboardInterrupt, AssertionError)):
                raise

            out.append(
                (
                    "exc",
                    kind,
                    type(e).__name__,
                    getattr(e, "code", None),
                    type(e.__cause__).__name__,
                    extra,
                )
            )

        out.append(("state", ls._pos, ls.tell(), ls.is_exhausted, src.pos, src.calls))

    out.append(("srclog", tuple(log)))
    out.append(("hooks", tuple(getattr(ls, "hook_log", ()))))
    return out


def check_unit(count, seed):
    rng = random.Random(seed)
    stats = {"exc": 0, "ok": 0, "413": 0, "disc": 0}

    for i in range(count):
        sc = gen_scenario(rng)
        a = run(ORIG, sc)
        b = run(NEW, sc)

        if a != b:
            print("MISMATCH in scenario", i, sc)

            for x, y in zip(a, b):
                if x != y:
                    print("  orig:", x)
                    print("  new :", y)
                    break

            return None

        for item in a:
            if item[0] == "exc":
                stats["exc"] += 1

                if item[2] == "RequestEntityTooLarge":
                    stats["413"] += 1
                elif item[2] == "ClientDisconnected":
                    stats["disc"] += 1
            elif item[0] == "ok":
                stats["ok"] += 1

    return stats


# ---- integration: form parsing through get_input_stream -------------------
def build_multipart(rng):
    boundary = "bnd%d" % rng.randint(0, 999)
    parts = []

    for i in range(rng.randint(0, 6)):
        value = bytes(rng.choice(b"abcxyz \r\n-") for _ in range(rng.choice([0, 3, 50, 700])))

        if rng.random() < 0.3:
            parts.append(
                b"--%s\r\nContent-Disposition: form-data; name=\"f%d\"; "
                b"filename=\"a%d.txt\"\r\nContent-Type: text/plain\r\n\r\n%s\r\n"
                % (boundary.encode(), i, i, value)
            )
        else:
            parts.append(
                b"--%s\r\nContent-Disposition: form-data; name=\"k%d\"\r\n\r\n%s\r\n"
                % (boundary.encode(), i, value)
            )

    body = b"".join(parts) + b"--%s--\r\n" % boundary.encode()
    return body, "multipart/form-data; boundary=" + boundary


def parse_once(limited_cls, spec):
    from werkzeug.wrappers import Request

    body, ctype, env_extra, limits, cap, readinto = spec
    log = []
    src_cls = ReadIntoSrc if readinto else ReadOnlySrc
    src = src_cls(body, cap, -1, "os", -1, 0, log)
    environ = {
        "REQUEST_METHOD": "POST",
        "CONTENT_TYPE": ctype,
        "wsgi.input": src,
        "wsgi.url_scheme": "http",
        "SERVER_NAME": "localhost",
        "SERVER_PORT": "80",
        "PATH_INFO": "/",
        "QUERY_STRING": "",
    }
    environ.update(env_extra)
    saved = new_wsgi.LimitedStream
    new_wsgi.LimitedStream = limited_cls

    try:
        req = Request(environ)

        for k, v in limits.items():
            setattr(req, k, v)

        try:
            form = sorted(req.form.items(multi=True))
            files = sorted(
                (k, f.filename, f.read()) for k, f in req.files.items(multi=True)
            )
            res = ("ok", form, files, type(req.stream).__name__ == "BytesIO")
        except Exception as e:
            res = ("exc", type(e).__name__, getattr(e, "code", None))

        try:
            rest = ("ok", req.get_data())
        except Exception as e:
            rest = ("exc", type(e).__name__)
    finally:
        new_wsgi.LimitedStream = saved

    return res, rest, tuple(log), src.pos


def check_integration(count, seed):
    rng = random.Random(seed)
    n413 = nok = 0

    for i in range(count):
        if rng.random() < 0.6:
            body, ctype = build_multipart(rng)
        else:
            body = b"&".join(
                b"k%d=%s" % (j, b"v" * rng.choice([0, 1, 30, 400]))
                for j in range(rng.randint(0, 8))
            )
            ctype = "application/x-www-form-urlencoded"

        env_extra = {}
        mode = rng.choice(["cl", "cl", "cl_short", "cl_long", "terminated", "none"])

        if mode == "cl":
            env_extra["CONTENT_LENGTH"] = str(len(body))
        elif mode == "cl_short":
            env_extra["CONTENT_LENGTH"] = str(max(len(body) - rng.randint(1, 20), 0))
        elif mode == "cl_long":
            env_extra["CONTENT_LENGTH"] = str(len(body) + rng.randint(1, 20))
        elif mode == "terminated":
            env_extra["wsgi.input_terminated"] = True

            if rng.random() < 0.5:
                env_extra["CONTENT_LENGTH"] = str(len(body))

        limits = {}

        if rng.random() < 0.7:
            limits["max_content_length"] = rng.choice(
                [0, 10, len(body) - 1, len(body), len(body) + 1, 10**6]
            )

        if rng.random() < 0.5:
            limits["max_form_memory_size"] = rng.choice([0, 10, 100, 1000, 10**6])

        if rng.random() < 0.5:
            limits["max_form_parts"] = rng.choice([0, 1, 3, 1000])

        spec = (
            body,
            ctype,
            env_extra,
            limits,
            rng.choice([0, 1, 7, 1000]),
            rng.random() < 0.5,
        )
        a = parse_once(OrigLimitedStream, spec)  # noqa: F821
        b = parse_once(NewLimitedStream, spec)

        if a != b:
            print("INTEGRATION MISMATCH", i, spec)
            print("  orig:", a[:2])
            print("  new :", b[:2])
            return None

        if a[0][0] == "exc" and a[0][1] == "RequestEntityTooLarge":
            n413 += 1
        elif a[0][0] == "ok":
            nok += 1

    return {"ok": nok, "413": n413}


def main():
    unit = check_unit(12000, 20261003)

    if unit is None:
        print("FAIL")
        return 1

    integ = check_integration(3000, 77)

    if integ is None:
        print("FAIL")
        return 1

    print("unit scenarios: 12000", unit)
    print("integration scenarios: 3000", integ)
    # make sure the interesting outcomes were actually exercised
    assert unit["413"] > 100 and unit["disc"] > 100 and unit["ok"] > 1000, unit
    assert integ["413"] > 50 and integ["ok"] > 50, integ
    print("PASS")
    return 0


if __name__ == "__main__":
    sys.exit(main())
