"""Differential check for refactoring 2 (sansio.http.parse_cookie /
_cookie_unslash_replace: findall -> finditer+groups(default=""), continue -> nested if,
startswith/endswith instead of index comparison, bytes([n]) instead of n.to_bytes).

Run as: cd /tmp/wt3-C13 && PYTHONPATH=/tmp/wt3-C13/src /venv/bin/python /tmp/twin-C13/2/diff_check.py
"""

from __future__ import annotations

import random
import re
import typing as t

import werkzeug.http as wh
import werkzeug.sansio.http as sh
from werkzeug import datastructures as ds

# ---------------------------------------------------------------- ORIGINAL (pasted)
_cookie_re = re.compile(
    r"""
    ([^=;]*)
    (?:\s*=\s*
      (
        "(?:[^\\"]|\\.)*"
      |
        .*?
      )
    )?
    \s*;\s*
    """,
    flags=re.ASCII | re.VERBOSE,
)
_cookie_unslash_re = re.compile(rb"\\([0-3][0-7]{2}|.)")


def orig_cookie_unslash_replace(m):
    v = m.group(1)

    if len(v) == 1:
        return v

    return int(v, 8).to_bytes(1, "big")


def orig_parse_cookie(cookie=None, cls=None):
    if cls is None:
        cls = t.cast("type[ds.MultiDict[str, str]]", ds.MultiDict)

    if not cookie:
        return cls()

    cookie = f"{cookie};"
    out = []

    for ck, cv in _cookie_re.findall(cookie):
        ck = ck.strip()
        cv = cv.strip()

        if not ck:
            continue

        if len(cv) >= 2 and cv[0] == cv[-1] == '"':
            cv = _cookie_unslash_re.sub(
                orig_cookie_unslash_replace, cv[1:-1].encode()
            ).decode(errors="replace")

        out.append((ck, cv))

    return cls(out)


def orig_http_parse_cookie(header, cls=None):
    if isinstance(header, dict):
        cookie = header.get("HTTP_COOKIE")
    else:
        cookie = header

    if cookie:
        cookie = cookie.encode("latin1").decode(errors="replace")

    return orig_parse_cookie(cookie=cookie, cls=cls)


# ---------------------------------------------------------------- generators
rng = random.Random(0xC13 + 2)

TOKENS = [
    '"', '"', "\\", "\\", ";", ";", "=", "=", ",", " ", " ", "\t", "\n", "\r", "\x0b",
    "\x00", "\x1f", "\x7f", "\x80", "\xa0", "\xff", " ", "　", "€", "é",
    "\U0001f600", "\ud800", "\\073", "\\054", "\\377", "\\400", "\\08", "\\12", "\\\\",
    '\\"', "\\\n", '""', '"a"', '"a;b"', '"a\\";b"', "a", "b", "key", "val", "0", "7",
    "; ", " ; ", " = ", "=;", ";;", '="', '";',
]


def rand_header():
    n = rng.randrange(0, 14)
    return "".join(rng.choice(TOKENS) for _ in range(n))


def rand_unicode(maxlen=10):
    out = []
    for _ in range(rng.randrange(0, maxlen)):
        r = rng.random()
        if r < 0.4:
            out.append(rng.choice(TOKENS))
        elif r < 0.6:
            out.append(chr(rng.randrange(0, 0x110000)))
        else:
            out.append(rng.choice("abcXYZ019_!#$%&'()*+-./:<=>?@[]^`{|}~"))
    return "".join(out)


class ListCls(list):
    pass


def view(rv):
    if isinstance(rv, ds.MultiDict):
        return (type(rv), list(rv.items(multi=True)))
    if isinstance(rv, dict):
        return (type(rv), list(rv.items()))
    return (type(rv), list(rv))


def run(fn, *args, **kwargs):
    try:
        return ("ok", view(fn(*args, **kwargs)))
    except Exception as e:  # noqa: BLE001
        return ("exc", type(e), str(e))


def main():
    n = 0
    bad = 0

    # 1. the substitution callback on its whole domain
    for i in range(256):
        for src in (b"\\" + bytes([i]), b"\\%03o" % i, b"x\\" + bytes([i]) + b"\\%03o" % i + b"\\"):
            n += 1
            a = _cookie_unslash_re.sub(orig_cookie_unslash_replace, src)
            b = sh._cookie_unslash_re.sub(sh._cookie_unslash_replace, src)
            if a != b:
                bad += 1
                print("MISMATCH unslash", src, a, b)
    for i in range(0o400, 0o1000):
        src = b"\\%03o" % i
        n += 1
        if _cookie_unslash_re.sub(orig_cookie_unslash_replace, src) != sh._cookie_unslash_re.sub(
            sh._cookie_unslash_replace, src
        ):
            bad += 1
            print("MISMATCH unslash", src)

    cases: list[tuple[tuple, dict]] = []
    # 2. headers produced by dump_cookie (the round-trip domain), single and joined
    dumped = []
    for cp in list(range(0, 0x250)) + [0xD7FF, 0xE000, 0xFFFF, 0x10000, 0x10FFFF]:
        v = "x" + chr(cp) + "y"
        dumped.append((v, wh.dump_cookie("k", v, path=None)))
    for _ in range(4000):
        v = rand_unicode()
        try:
            dumped.append((v, wh.dump_cookie(rng.choice(["k", "a", "sess"]), v, path=None)))
        except UnicodeEncodeError:
            pass
    for _v, h in dumped:
        cases.append(((h,), {}))
    for _ in range(1500):
        hs = [rng.choice(dumped)[1] for _ in range(rng.randrange(2, 5))]
        cases.append(((rng.choice(["; ", ";", " ;  ", ";;"]).join(hs),), {}))
    # 3. arbitrary / hostile raw headers
    for _ in range(9000):
        cases.append(((rand_header(),), {}))
    for _ in range(2000):
        cases.append(((rand_unicode(16),), {}))
    # 4. odd argument types and cls values
    for c in [None, "", 0, 5, b"", b"a=b; c=\"d\"", ["a=b"], ("a=b",), 1.5, True, False]:
        cases.append(((c,), {}))
        cases.append(((), {"cookie": c}))
    cases.append(((), {}))
    for cls in [None, dict, ds.MultiDict, ds.ImmutableMultiDict, ListCls, list, int]:
        for _ in range(150):
            cases.append(((rand_header(),), {"cls": cls}))
        cases.append((("",), {"cls": cls}))
        cases.append(((None,), {"cls": cls}))

    for args, kwargs in cases:
        n += 1
        a = run(orig_parse_cookie, *args, **kwargs)
        b = run(sh.parse_cookie, *args, **kwargs)
        if a != b:
            bad += 1
            if bad <= 10:
                print("MISMATCH sansio", args, kwargs, a, b)

    # 5. through the public werkzeug.http.parse_cookie wrapper (latin1 tunnel, environ)
    for _v, h in dumped[:: 3]:
        n += 1
        if run(orig_http_parse_cookie, h) != run(wh.parse_cookie, h):
            bad += 1
            print("MISMATCH http", h)
    for _ in range(3000):
        h = rand_header()
        arg = rng.choice([h, {"HTTP_COOKIE": h}, {}, {"HTTP_COOKIE": None}])
        n += 1
        a = run(orig_http_parse_cookie, arg)
        b = run(wh.parse_cookie, arg)
        if a != b:
            bad += 1
            if bad <= 10:
                print("MISMATCH http", arg, a, b)

    # 6. sanity: round trip on the refactored parser
    rt = 0
    for v, h in dumped:
        got = sh.parse_cookie(h)
        assert list(got.values()) == [v], (v, h, got)
        rt += 1

    print(f"cases={n} mismatches={bad} roundtrip_checked={rt}")
    print("PASS" if bad == 0 else "FAIL")


if __name__ == "__main__":
    main()
