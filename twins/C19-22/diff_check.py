"""Differential check for refactoring 1 (DechunkedInput.readinto).

Run: cd /tmp/wt15-C19 && PYTHONPATH=/tmp/wt15-C19/src /venv/bin/python /tmp/twin10-C19/1/diff_check.py
"""
import io
import random
import typing as t

from werkzeug.serving import DechunkedInput as NewDechunkedInput


class OrigDechunkedInput(io.RawIOBase):
    """Verbatim copy of the ORIGINAL implementation."""

    def __init__(self, rfile: t.IO[bytes]) -> None:
        self._rfile = rfile
        self._done = False
        self._len = 0

    def readable(self) -> bool:
        return True

    def read_chunk_len(self) -> int:
        try:
            line = self._rfile.readline().decode("latin1")
            _len = int(line.strip(), 16)
        except ValueError as e:
            raise OSError("Invalid chunk header") from e
        if _len < 0:
            raise OSError("Negative chunk length not allowed")
        return _len

    def readinto(self, buf: bytearray) -> int:  # type: ignore
        read = 0
        while not self._done and read < len(buf):
            if self._len == 0:
                self._len = self.read_chunk_len()

            if self._len == 0:
                self._done = True

            if self._len > 0:
                n = min(len(buf), self._len)

                if read + n > len(buf):
                    n = len(buf) - read

                data = self._rfile.read(n)

                if len(data) != n:
                    raise OSError("Unexpected end of chunked data")

                buf[read : read + n] = data
                self._len -= n
                read += n

            if self._len == 0:
                terminator = self._rfile.readline()
                if terminator not in (b"\n", b"\r\n", b"\r"):
                    raise OSError("Missing chunk terminating newline")

        return read


def gen_stream(rng: random.Random) -> bytes:
    out = bytearray()
    nchunks = rng.randint(0, 6)
    for _ in range(nchunks):
        size = rng.choice([1, 1, 2, 3, 5, 8, 15, 16, 17, 40, 200])
        data = bytes(rng.choice(b"ab\r\n0;1 \xff") for _ in range(size))
        hdr = rng.choice(
            [f"{size:x}", f"{size:X}", f" {size:x} ", f"0{size:x}", f"+{size:x}", f"0x{size:x}"]
        )
        out += hdr.encode() + rng.choice([b"\r\n", b"\n", b"\r\n", b"\r\n"]) + data
        out += rng.choice([b"\r\n", b"\r\n", b"\r\n", b"\n"])
    out += rng.choice([b"0", b"0", b"00", b"-0"]) + b"\r\n" + rng.choice([b"\r\n", b"\n", b"\r\n"])
    out += rng.choice([b"", b"", b"trailing junk"])
    mode = rng.random()
    if mode < 0.45:
        return bytes(out)  # valid
    if mode < 0.6 and out:
        return bytes(out[: rng.randrange(len(out))])  # truncated
    if mode < 0.8 and out:
        # corrupt one byte
        i = rng.randrange(len(out))
        out[i] = rng.choice(b"\r\n-gz;0 9\x00")
        return bytes(out)
    if mode < 0.9:
        # insert / delete a byte
        i = rng.randrange(len(out) + 1)
        if rng.random() < 0.5:
            out[i:i] = bytes([rng.choice(b"\r\n-1fX")])
        else:
            del out[i : i + 1]
        return bytes(out)
    # explicit bad headers
    bad = rng.choice([b"-5\r\nabcde\r\n0\r\n\r\n", b"zz\r\n", b"\r\n", b"", b"5;ext=1\r\nabcde\r\n0\r\n\r\n",
                      b"5\r\nabcdeX\r\n0\r\n\r\n", b"3\r\nabc\r0\r\n\r\n", b"1_0\r\n" + b"a" * 16 + b"\r\n0\r\n\r\n"])
    return bad


def run(cls, stream: bytes, ops) -> list:
    rfile = io.BytesIO(stream)
    d = cls(rfile)
    buffered = io.BufferedReader(d, buffer_size=ops[0][1]) if ops[0][0] == "buffered" else None
    trace = []
    for op, arg in ops[1:] if buffered is not None else ops:
        try:
            if op == "readinto":
                buf = bytearray(b"\xee" * arg)
                n = d.readinto(buf)
                res = (n, bytes(buf), len(buf))
            elif op == "readinto_mv":
                backing = bytearray(b"\xee" * (arg + 4))
                n = d.readinto(memoryview(backing)[2 : 2 + arg])
                res = (n, bytes(backing))
            elif op == "read":
                res = (buffered or d).read(arg)
            elif op == "readline":
                res = (buffered or d).readline(arg)
            elif op == "readall":
                res = (buffered or d).read()
            else:
                raise AssertionError(op)
            trace.append(("ok", op, arg, res))
        except BaseException as e:  # noqa: B036
            trace.append(("exc", op, arg, type(e), str(e), type(e.__cause__)))
        trace.append((d._len, d._done, rfile.tell()))
    return trace


def gen_ops(rng: random.Random):
    ops = []
    if rng.random() < 0.25:
        ops.append(("buffered", rng.choice([1, 2, 7, 16, 8192])))
    for _ in range(rng.randint(1, 12)):
        op = rng.choice(["readinto", "readinto", "readinto_mv", "read", "read", "readline", "readall"])
        if ops and ops[0][0] == "buffered" and op.startswith("readinto"):
            op = "read"
        arg = rng.choice([0, 1, 1, 2, 3, 4, 5, 7, 8, 15, 16, 17, 33, 64, 1000])
        if op == "readline" and rng.random() < 0.3:
            arg = -1
        ops.append((op, arg))
    return ops


def main() -> None:
    rng = random.Random(1919)
    total = 0
    errors = 0
    excs = 0
    for _ in range(6000):
        stream = gen_stream(rng)
        ops = gen_ops(rng)
        a = run(OrigDechunkedInput, stream, ops)
        b = run(NewDechunkedInput, stream, ops)
        total += 1
        excs += any(x[0] == "exc" for x in a)
        if a != b:
            errors += 1
            if errors < 5:
                print("MISMATCH", stream, ops, a, b, sep="\n  ")
    print(f"cases={total} with_exceptions={excs} mismatches={errors}")
    print("PASS" if errors == 0 else "FAIL")


if __name__ == "__main__":
    main()
