"""Differential check: refactored werkzeug.security.safe_join vs. original copy."""
import itertools
import os
import posixpath
import random

import werkzeug.security as sec
from werkzeug.security import safe_join as new_safe_join


def make_orig(alt_seps):
    def orig_safe_join(directory, *pathnames):
        if not directory:
            directory = "."

        parts = [directory]

        for filename in pathnames:
            if filename != "":
                filename = posixpath.normpath(filename)

            if (
                any(sep in filename for sep in alt_seps)
                or os.path.isabs(filename)
                or filename.startswith("/")
                or filename == ".."
                or filename.startswith("../")
            ):
                return None

            parts.append(filename)

        return posixpath.join(*parts)

    return orig_safe_join


def run(f, *a):
    try:
        return ("ok", f(*a))
    except BaseException as e:  # noqa: B036
        return ("exc", type(e))


ATOMS = ["..", ".", "", "/", "//", "\\", "\x00", "a", "b.txt", "..a", "a..", "...",
         "C:", "c:\\", "~", " ", "\u00e4", "%2e%2e", "../", "/..", "..\\", "\\\\srv"]
DIRS = ["", ".", "/", "/srv/static", "static", "static/", "../up", "C:\\root", "a\\b"]
ODD = [None, 1, b"..", b"/abs", b"a", ["a"], 1.5]


def gen_segment(rng):
    n = rng.randint(0, 5)
    return rng.choice(["", "/", ""]) + rng.choice(["/", "//", "\\", ""]).join(
        rng.choice(ATOMS) for _ in range(n)
    )


def main():
    rng = random.Random(1414)
    cases = []
    for d in DIRS:
        cases.append((d,))
        for a in ATOMS:
            cases.append((d, a))
        for a, b in itertools.product(ATOMS, repeat=2):
            cases.append((d, a + "/" + b))
            cases.append((d, a, b))
    for _ in range(6000):
        d = rng.choice(DIRS)
        cases.append((d, *[gen_segment(rng) for _ in range(rng.randint(0, 3))]))
    for o in ODD:
        cases.append(("root", o))
        cases.append(("root", "ok", o))
        cases.append((o, "a"))
        cases.append((o,))

    total = 0
    bad = 0
    real = list(sec._os_alt_seps)
    for alt in (real, ["\\"], ["\\", ":"]):
        sec._os_alt_seps = alt
        orig = make_orig(alt)
        for c in cases:
            total += 1
            r1, r2 = run(orig, *c), run(new_safe_join, *c)
            if r1 != r2:
                bad += 1
                if bad < 10:
                    print("MISMATCH", alt, c, r1, r2)
    sec._os_alt_seps = real
    print(f"{total} cases, {bad} mismatches")
    print("PASS" if bad == 0 else "FAIL")


main()
