"""Differential check for refactoring 2
(DebuggedApplication.check_pin_trust / _fail_pin_auth / pin_auth).

Run: cd /tmp/wt6-C20 && PYTHONPATH=/tmp/wt6-C20/src /venv/bin/python /tmp/twin4-C20/2/diff_check.py
"""

from __future__ import annotations

import json
import random
import time
import typing as t
from urllib.parse import quote

import werkzeug.debug as dbg
from werkzeug.debug import DebuggedApplication
from werkzeug.debug import PIN_TIME
from werkzeug.debug import _ConsoleFrame
from werkzeug.debug import hash_pin
from werkzeug.exceptions import SecurityError
from werkzeug.http import parse_cookie
from werkzeug.test import EnvironBuilder
from werkzeug.wrappers import Request
from werkzeug.wrappers import Response


# ---------------------------------------------------------------- ORIGINAL
class OrigApp(DebuggedApplication):
    def check_pin_trust(self, environ):
        if self.pin is None:
            return True
        val = parse_cookie(environ).get(self.pin_cookie_name)
        if not val or "|" not in val:
            return False
        ts_str, pin_hash = val.split("|", 1)

        try:
            ts = int(ts_str)
        except ValueError:
            return False

        if pin_hash != hash_pin(self.pin):
            return None
        return (time.time() - PIN_TIME) < ts

    def _fail_pin_auth(self):
        with self._failed_pin_auth.get_lock():
            count = self._failed_pin_auth.value
            self._failed_pin_auth.value = count + 1

        time.sleep(5.0 if count > 5 else 0.5)

    def pin_auth(self, request):
        """Authenticates with the pin."""
        if not self.check_host_trust(request.environ):
            return SecurityError()  # type: ignore[return-value]

        exhausted = False
        auth = False
        trust = self.check_pin_trust(request.environ)
        pin = t.cast(str, self.pin)

        bad_cookie = False
        if trust is None:
            self._fail_pin_auth()
            bad_cookie = True

        # If we're trusted, we're authenticated.
        elif trust:
            auth = True

        # If we failed too many times, then we're locked out.
        elif self._failed_pin_auth.value > 10:
            exhausted = True

        # Otherwise go through pin based authentication
        else:
            entered_pin = request.args["pin"]

            if entered_pin.strip().replace("-", "") == pin.replace("-", ""):
                self._failed_pin_auth.value = 0
                auth = True
            else:
                self._fail_pin_auth()

        rv = Response(
            json.dumps({"auth": auth, "exhausted": exhausted}),
            mimetype="application/json",
        )
        if auth:
            rv.set_cookie(
                self.pin_cookie_name,
                f"{int(time.time())}|{hash_pin(pin)}",
                httponly=True,
                samesite="Strict",
                secure=request.is_secure,
            )
        elif bad_cookie:
            rv.delete_cookie(self.pin_cookie_name)
        return rv


assert DebuggedApplication.pin_auth is not OrigApp.pin_auth

# ---------------------------------------------------------------- fake clock
T0 = 1_800_000_000.25


class Clock:
    now = T0
    sleeps: list[float] = []


def fake_time() -> float:
    return Clock.now


def fake_sleep(d: float) -> None:
    Clock.sleeps.append(d)
    Clock.now += d


time.time = fake_time  # type: ignore[assignment]
time.sleep = fake_sleep  # type: ignore[assignment]
assert dbg.time.time is fake_time

# ---------------------------------------------------------------- generators
rnd = random.Random(2020_2)
SECRET = "s3cr3ts3cr3ts3cr3t00"
COOKIE = "__wzdabcdef0123456789"
PINS = ["123-456-789", "000000000", "1-2-3", "", None, "pin|pipe", "sp ace"]


def inner_app(environ, start_response):
    start_response("200 OK", [("Content-Type", "text/plain")])
    return [b"inner"]


def make(cls: type[DebuggedApplication], pin: str | None, fails: int) -> DebuggedApplication:
    app = cls(inner_app, evalex=True, pin_security=True, pin_logging=False)
    app._pin = pin  # type: ignore[assignment]
    app._pin_cookie = COOKIE
    app.secret = SECRET
    app._failed_pin_auth.value = fails
    app.frames[0] = _ConsoleFrame({})
    return app


def gen_ts(now: float) -> str:
    k = rnd.random()
    base = int(now)
    if k < 0.30:
        return str(base - rnd.randint(0, 1000))
    if k < 0.45:
        return str(base - PIN_TIME + rnd.choice([-2, -1, 0, 1, 2]))
    if k < 0.55:
        return str(base - PIN_TIME - rnd.randint(1, 10**6))
    if k < 0.60:
        return str(base + rnd.randint(0, 10**6))
    return rnd.choice(
        ["", "abc", "1.5", " 12 ", "-5", "+5", "1_0", "0", "0x10", "9" * 30,
         "9" * 400, "9" * 5000, "١٢٣", "1e9", "nan", "inf",
         str(base) + " ", "\t" + str(base), str(base) + "a"]
    )


def gen_cookie_value(pin: str | None, now: float) -> str | None:
    k = rnd.random()
    if k < 0.12:
        return None
    good = hash_pin(pin) if pin is not None else "deadbeefdead"
    if k < 0.45:
        return f"{gen_ts(now)}|{good}"
    if k < 0.60:
        bad = rnd.choice([good[:-1], good + "0", good.upper(), "", "x", hash_pin("other"), good + "|", "|" + good])
        return f"{gen_ts(now)}|{bad}"
    if k < 0.70:
        return f"{gen_ts(now)}||{good}"
    if k < 0.80:
        return rnd.choice(["", "|", "||", good, str(int(now)), str(int(now)) + good, "nopipe", "|" + good, str(int(now)) + "|"])
    if k < 0.90:
        return f"{int(now)}|{good}"
    return f"{gen_ts(now)}{rnd.choice([':', ';', ' ', '%7C', '¦'])}{good}"


def gen_entered(pin: str | None) -> str | None:
    k = rnd.random()
    if k < 0.08:
        return None  # missing -> BadRequestKeyError
    p = pin or ""
    if k < 0.40:
        return rnd.choice([p, p.replace("-", ""), f"  {p} ", "-".join(p.replace("-", "")), p + "-", "-" + p])
    return rnd.choice(["", "0", "123456789", "123-456-780", p + "1", p[:-1], p.upper(), " ", "--", "None"])


HOSTS = ["localhost", "127.0.0.1", "localhost:5000", "a.localhost", "127.0.0.1:80",
         "evil.com", "notlocalhost", "127.0.0.10", "localhost.evil.com", "", None, "[::1]"]


def gen_request(pin: str | None, now: float) -> dict[str, t.Any]:
    k = rnd.random()
    if k < 0.60:
        kind = "pinauth"
    elif k < 0.75:
        kind = "eval"
    elif k < 0.85:
        kind = "console"
    elif k < 0.92:
        kind = "printpin"
    else:
        kind = "direct"
    host = rnd.choice(HOSTS) if rnd.random() < 0.3 else rnd.choice(HOSTS[:5])
    secret = SECRET if rnd.random() < 0.9 else rnd.choice(["", "wrong", None])
    cookies: list[tuple[str, str]] = []
    cv = gen_cookie_value(pin, now)
    if cv is not None:
        name = COOKIE if rnd.random() < 0.93 else COOKIE + "x"
        cookies.append((name, cv))
        if rnd.random() < 0.05:
            cv2 = gen_cookie_value(pin, now)
            if cv2 is not None:
                cookies.append((COOKIE, cv2))
    return {
        "kind": kind,
        "host": host,
        "secret": secret,
        "cookies": cookies,
        "pin": gen_entered(pin),
        "scheme": rnd.choice(["http", "http", "https"]),
        "advance": rnd.choice([0, 0, 0, 1, 3600, PIN_TIME, PIN_TIME + 1]),
    }


def build_environ(r: dict[str, t.Any]) -> dict[str, t.Any]:
    args: list[str] = []
    path = "/"
    if r["kind"] in ("pinauth", "printpin", "eval", "direct"):
        args.append("__debugger__=yes")
        if r["kind"] == "eval":
            args += ["cmd=" + quote("1+1"), "frm=0"]
        else:
            args.append("cmd=" + ("pinauth" if r["kind"] != "printpin" else "printpin"))
        if r["secret"] is not None:
            args.append("s=" + quote(r["secret"]))
        if r["pin"] is not None:
            args.append("pin=" + quote(r["pin"]))
    else:
        path = "/console"
    b = EnvironBuilder(path=path, query_string="&".join(args), base_url=f"{r['scheme']}://localhost/")
    env = b.get_environ()
    env.pop("HTTP_HOST", None)
    if r["host"] is not None:
        env["HTTP_HOST"] = r["host"]
    if r["cookies"]:
        env["HTTP_COOKIE"] = "; ".join(f"{k}={v}" for k, v in r["cookies"])
    return env


def run_one(app: DebuggedApplication, r: dict[str, t.Any]) -> t.Any:
    Clock.now += r["advance"]
    env = build_environ(r)
    before_sleeps = len(Clock.sleeps)
    try:
        if r["kind"] == "direct":
            trust = app.check_pin_trust(env)
            resp = app.pin_auth(Request(env))
            if isinstance(resp, SecurityError):
                out: t.Any = ("direct", repr(trust), "SecurityError", resp.code)
            else:
                out = ("direct", repr(trust), resp.status, sorted(resp.headers.to_wsgi_list()), resp.get_data())
        else:
            trust = app.check_pin_trust(env)
            status_headers: list[t.Any] = []

            def start_response(status, headers, exc_info=None):
                status_headers.append((status, sorted(headers)))

            body = b"".join(app(env, start_response))
            if r["kind"] == "console":
                # the console page embeds only secret + trusted flag; keep the flag
                body = (b"EVALEX_TRUSTED = true" in body, b"EVALEX_TRUSTED = false" in body, len(body))  # type: ignore[assignment]
            out = ("wsgi", repr(trust), status_headers, body)
    except BaseException as e:  # noqa: BLE001
        out = ("exc", type(e), str(e))
    return (out, app._failed_pin_auth.value, tuple(Clock.sleeps[before_sleeps:]), Clock.now)


def main() -> None:
    n = 0
    stats = {"auth_true": 0, "exhausted": 0, "sec": 0, "exc": 0, "none_trust": 0, "eval_ok": 0, "sleep5": 0}
    mismatches = []
    for scen in range(2500):
        pin = rnd.choice(PINS) if rnd.random() < 0.4 else PINS[0]
        fails = rnd.choice([0, 0, 3, 5, 6, 9, 10, 11, 12, 200, 255])
        steps = [gen_request(pin, T0) for _ in range(rnd.randint(2, 8))]

        logs = []
        for cls in (OrigApp, DebuggedApplication):
            Clock.now = T0
            Clock.sleeps = []
            app = make(cls, pin, fails)
            logs.append([run_one(app, r) for r in steps])

        for r, a, b in zip(steps, logs[0], logs[1]):
            n += 1
            txt = repr(a)
            if '"auth": true' in txt:
                stats["auth_true"] += 1
            if '"exhausted": true' in txt:
                stats["exhausted"] += 1
            if "400 BAD REQUEST" in txt or "SecurityError" in txt:
                stats["sec"] += 1
            if a[0][0] == "exc":
                stats["exc"] += 1
            if a[0][0] != "exc" and a[0][1] == "None":
                stats["none_trust"] += 1
            if r["kind"] == "eval" and a[0][0] == "wsgi" and b"inner" not in a[0][3]:
                stats["eval_ok"] += 1
            if 5.0 in a[2]:
                stats["sleep5"] += 1
            if a != b:
                mismatches.append((pin, fails, r, a, b))

    print(f"requests={n} stats={stats} mismatches={len(mismatches)}")
    for m in mismatches[:5]:
        print("MISMATCH", m)
    assert all(v > 50 for v in stats.values()), "generator does not cover all outcomes"
    print("PASS" if not mismatches else "FAIL")


if __name__ == "__main__":
    main()
