"""Differential check for refactoring 1 (http.parse_options_header).

Compares the refactored werkzeug.http.parse_options_header (imported from the
worktree) with a pasted copy of the ORIGINAL implementation, and also runs the
multipart decoder / parser end-to-end with both implementations.
Run: cd /tmp/wt9-C02 && PYTHONPATH=/tmp/wt9-C02/src /venv/bin/python /tmp/twin5-C02/1/diff_check.py
"""
from __future__ import annotations

import random
import re
import sys
from urllib.parse import unquote

import werkzeug
import werkzeug.http as whttp
from werkzeug.http import parse_options_header as new_parse

assert werkzeug.__file__.startswith("/tmp/wt9-C02/"), werkzeug.__file__

# ---------------------------------------------------------------- ORIGINAL
_parameter_key_re = re.compile(r"([\w!#$%&'*+\-.^`|~]+)=", flags=re.ASCII)
_parameter_token_value_re = re.compile(r"[\w!#$%&'*+\-.^`|~]+", flags=re.ASCII)
_charset_value_re = re.compile(
    r"""
    ([\w!#$%&*+\-.^`|~]*)'  # charset part, could be empty
    [\w!#$%&*+\-.^`|~]*'  # don't care about language part, usually empty
    ([\w!#$%&'*+\-.^`|~]+)  # one or more token chars with percent encoding
    """,
    re.ASCII | re.VERBOSE,
)
_continuation_re = re.compile(r"\*(\d+)$", re.ASCII)


def orig_parse(value):
    if value is None:
        return "", {}

    value, _, rest = value.partition(";")
    value = value.strip()
    rest = rest.strip()

    if not value or not rest:
        return value, {}

    parts = []

    while True:
        if (m := _parameter_key_re.match(rest)) is not None:
            pk = m.group(1).lower()
            rest = rest[m.end() :]

            if (m := _parameter_token_value_re.match(rest)) is not None:
                parts.append((pk, m.group()))
            elif rest[:1] == '"':
                pos = 1
                length = len(rest)

                while pos < length:
                    if rest[pos : pos + 2] in {"\\\\", '\\"'}:
                        pos += 2
                    elif rest[pos] == '"':
                        parts.append((pk, rest[: pos + 1]))
                        rest = rest[pos + 1 :]
                        break
                    else:
                        pos += 1

        if (end := rest.find(";")) == -1:
            break

        rest = rest[end + 1 :].lstrip()

    options = {}
    encoding = None
    continued_encoding = None

    for pk, pv in parts:
        if pk[-1] == "*":
            pk = pk[:-1]
            match = _charset_value_re.match(pv)

            if match:
                encoding, pv = match.groups()
                encoding = encoding.lower()

            if not encoding:
                encoding = continued_encoding

            if encoding in {"ascii", "us-ascii", "utf-8", "iso-8859-1"}:
                continued_encoding = encoding
                pv = unquote(pv, encoding=encoding)

        if pv[0] == pv[-1] == '"':
            pv = pv[1:-1].replace("\\\\", "\\").replace('\\"', '"').replace("%22", '"')

        match = _continuation_re.search(pk)

        if match:
            pk = pk[: match.start()]

        if not pk:
            continue

        if match:
            options[pk] = options.get(pk, "") + pv
        else:
            options[pk] = pv

    return value, options


# the module-level regexes must be untouched by the refactoring
for n in (
    "_parameter_key_re",
    "_parameter_token_value_re",
    "_charset_value_re",
    "_continuation_re",
):
    a, b = globals()[n], getattr(whttp, n)
    assert (a.pattern, a.flags) == (b.pattern, b.flags), n


def run(fn, arg):
    try:
        r = fn(arg)
        # dict ordering is observable too
        return ("ok", r[0], list(r[1].items()))
    except Exception as e:  # noqa: B902
        return ("exc", type(e).__name__)


rng = random.Random(20260502)
ATOMS = [
    '"', '"', '"', "\\", "\\", '\\"', "\\\\", ";", ";", ";", "=", "=", "*", "*0", "*1",
    "*2", "*10", "'", "''", "utf-8'", "UTF-8''", "iso-8859-1'en'", "ascii''", "x'y'",
    "%22", "%", "%C3%A9", "%E2%82%AC", "%ff", " ", " ", "\t", "a", "b", "name",
    "filename", "charset", "form-data", "text/plain", "N", "é", "€", "\U0001f600", ",",
    "/", "-", ".", "0", "1", "\r", "\n", "(", ")", "<", "@", ":", "?", "{", "[",
]
KEYS = ["name", "filename", "a", "B", "k*", "k*0", "k*1", "k*0*", "k*1*", "*", "*0",
        "*1*", "na me", '"q"', "é", "x-y", "k", "K"]
UNI = "aZ09 _-.;=*'%\\/,:é€ßжш中\U0001f600​\x00\x7f\t"


def gen_value(r):
    c = r.random()
    if c < 0.3:
        return "".join(r.choice("abcXYZ019!#$%&'*+-.^`|~_") for _ in range(r.randint(0, 6)))
    if c < 0.75:
        body = "".join(
            r.choice(['\\"', "\\\\", "\\", ";", "=", " ", "%22", "a", "b", "é", "*", "'", "€"])
            for _ in range(r.randint(0, 8))
        )
        tail = r.choice(['"', '"', '"', "", '\\"', '" x', '"x', '\\'])
        return '"' + body + tail
    if c < 0.9:
        return r.choice(["utf-8''", "UTF-8'en'", "iso-8859-1''", "ascii''", "''", "bogus''", "'"]) + "".join(
            r.choice(["%C3%A9", "%22", "a", "%ff", "%", "x", "'", "*"]) for _ in range(r.randint(0, 5))
        )
    return "".join(r.choice(ATOMS) for _ in range(r.randint(0, 5)))


def gen_structured(r):
    main = r.choice(["form-data", "text/plain", " attachment ", "", "x", "a=b", '"q"'])
    segs = []
    for _ in range(r.randint(0, 6)):
        k = r.choice(KEYS)
        sep = r.choice(["=", "=", "=", "=", " = ", "= ", "", "=="])
        segs.append(r.choice(["", " ", "  ", "\t"]) + k + sep + gen_value(r) + r.choice(["", "", " ", "junk"]))
    return main + "".join(r.choice([";", ";", "; ", " ;", ";;"]) + s for s in segs)


def gen_soup(r):
    return "".join(r.choice(ATOMS) for _ in range(r.randint(0, 14)))


def gen_disposition(r):
    # what MultipartEncoder.send_event writes for names/filenames in the C02 domain
    def text():
        s = "".join(r.choice(UNI) for _ in range(r.randint(0, 10)))
        return s
    out = 'form-data; name="%s"' % text()
    if r.random() < 0.6:
        out += '; filename="%s"' % text()
    return out


count = 0
bad = 0
cases = [None, "", ";", "a", "a;", "a;b", 'a;b="', 'a;b="\\', 'a;b="\\"', 'a;b="\\\\"',
         'a; *=x', 'a; *0=x', "a; k*0=x; k*1=y; k=z", "a; k*=utf-8''%C3%A9; j*=%C3%A9",
         'form-data; name="x"; filename="a;b.txt"', 'a; b="c" d; e=f', 'a; b="c\\";d="e"']
gens = [(gen_structured, 14000), (gen_soup, 8000), (gen_disposition, 6000)]
for g, n in gens:
    for _ in range(n):
        cases.append(g(rng))
# exhaustive short strings over the delimiter alphabet after a fixed prefix
import itertools
for L in range(0, 6):
    for tup in itertools.product('"\\;a', repeat=L):
        cases.append("v; k=" + "".join(tup))
        cases.append('v; k="' + "".join(tup))

for c in cases:
    a = run(orig_parse, c)
    b = run(new_parse, c)
    count += 1
    if a != b:
        bad += 1
        if bad < 10:
            print("MISMATCH", repr(c), a, b)

# ---- end to end: decoder events with original vs refactored parse_options_header
import werkzeug.sansio.multipart as mp
from werkzeug.datastructures import Headers


def roundtrip(parts, boundary, chunk):
    enc = mp.MultipartEncoder(boundary)
    body = enc.send_event(mp.Preamble(data=b""))
    for name, filename, data in parts:
        if filename is None:
            body += enc.send_event(mp.Field(name=name, headers=Headers()))
        else:
            body += enc.send_event(mp.File(name=name, filename=filename, headers=Headers([("Content-Type", "text/x; charset=utf-8")])))
        body += enc.send_event(mp.Data(data=data, more_data=False))
    body += enc.send_event(mp.Epilogue(data=b""))
    dec = mp.MultipartDecoder(boundary)
    events = []
    pos = 0
    try:
        while True:
            ev = dec.next_event()
            if isinstance(ev, mp.NeedData):
                if pos >= len(body):
                    dec.receive_data(None)
                else:
                    dec.receive_data(body[pos : pos + chunk])
                    pos += chunk
                continue
            events.append(repr(ev))
            if isinstance(ev, mp.Epilogue):
                break
    except Exception as e:  # noqa: B902
        events.append("EXC " + type(e).__name__)
    return events


e2e = 0
for _ in range(1500):
    parts = []
    for _ in range(rng.randint(0, 4)):
        name = "".join(rng.choice(UNI.replace("\\", "")) for _ in range(rng.randint(0, 6)))
        fn = None
        if rng.random() < 0.5:
            fn = "".join(rng.choice(UNI.replace("\\", "")) for _ in range(rng.randint(0, 6)))
        data = bytes(rng.choice(b"\r\n-ab") for _ in range(rng.randint(0, 12)))
        parts.append((name, fn, data))
    boundary = b"b" * rng.randint(1, 5)
    chunk = rng.choice([1, 3, 7, 1000])
    mp.parse_options_header = new_parse
    got_new = roundtrip(parts, boundary, chunk)
    mp.parse_options_header = orig_parse
    got_old = roundtrip(parts, boundary, chunk)
    mp.parse_options_header = new_parse
    e2e += 1
    if got_new != got_old:
        bad += 1
        if bad < 10:
            print("E2E MISMATCH", parts, boundary, got_old, got_new)

print(f"compared {count} header strings, {e2e} end-to-end bodies, mismatches={bad}")
print("PASS" if bad == 0 else "FAIL")
sys.exit(0 if bad == 0 else 1)
