"""Differential check for refactoring 2 (DebuggedApplication.check_pin_trust).

Run: cd /tmp/wt13-C20 && PYTHONPATH=/tmp/wt13-C20/src /venv/bin/python /tmp/twin8-C20/2/diff_check.py
"""
from __future__ import annotations

import random
import typing as t

import werkzeug.debug as dbg
from werkzeug.debug import DebuggedApplication
from werkzeug.debug import hash_pin
from werkzeug.debug import PIN_TIME
from werkzeug.http import parse_cookie
from werkzeug.test import EnvironBuilder
from werkzeug.wrappers import Request

NOW = [1_700_000_000.25]


class _FakeTime:
    """Deterministic replacement of the ``time`` module used in werkzeug.debug."""

    sleeps: list[float] = []

    @staticmethod
    def time() -> float:
        return NOW[0]

    @classmethod
    def sleep(cls, s: float) -> None:
        cls.sleeps.append(s)


dbg.time = _FakeTime  # type: ignore[assignment]
time = _FakeTime


# ---- ORIGINAL implementation (copied from the unmodified tree) ----
def orig_check_pin_trust(self, environ) -> bool | None:
    if self.pin is None:
        return True
    val = parse_cookie(environ).get(self.pin_cookie_name)
    if not val or "|" not in val:
        return False
    ts_str, pin_hash = val.split("|", 1)

    try:
        ts = int(ts_str)
    except ValueError:
        return False

    if pin_hash != hash_pin(self.pin):
        return None
    return (time.time() - PIN_TIME) < ts


class OrigApp(DebuggedApplication):
    check_pin_trust = orig_check_pin_trust  # type: ignore[assignment]


def wsgi_app(environ, start_response):
    start_response("200 OK", [("Content-Type", "text/plain")])
    return [b"ok"]


def run(f: t.Callable[..., t.Any], *args: t.Any) -> t.Any:
    try:
        return ("ok", f(*args))
    except Exception as e:  # noqa: B902
        return ("exc", type(e), str(e))


rng = random.Random(2020)
PINS = ["123-456-789", "000-000-000", "abc", "", "1|2", None]


def make_apps(pin: str | None) -> tuple[DebuggedApplication, DebuggedApplication]:
    apps = []
    for cls in (OrigApp, DebuggedApplication):
        app = cls(wsgi_app, evalex=True, pin_logging=False)
        app._pin = pin  # type: ignore[assignment]
        app._pin_cookie = "__wzdtest"
        app.secret = "sekrit"
        apps.append(app)
    return apps[0], apps[1]


def rand_ts(now: float) -> str:
    base = int(now)
    r = rng.random()
    if r < 0.35:
        # around the expiry boundary
        return str(base - PIN_TIME + rng.randint(-3, 3))
    if r < 0.5:
        return str(base + rng.randint(-10, 10))
    if r < 0.6:
        return str(rng.randint(-(10**12), 10**12))
    return rng.choice(
        [
            "",
            " ",
            "abc",
            "1.5",
            "1e9",
            f" {base} ",
            f"+{base}",
            f"-{base}",
            f"{base:_}",
            "١٢٣",
            "0x10",
            "9" * 50,
            "9" * 5000,
            "nan",
            "inf",
            f"{base}.0",
            "\t1700000000\n",
            "1_7",
            "_1",
        ]
    )


def rand_hash(pin: str | None) -> str:
    good = hash_pin(pin) if pin is not None else hash_pin("x")
    r = rng.random()
    if r < 0.5:
        return good
    return rng.choice(
        [
            "",
            good[:-1],
            good + "0",
            good.upper(),
            "|" + good,
            good + "|",
            good + "|" + good,
            hash_pin("other"),
            "0" * 12,
            " " + good,
        ]
    )


def rand_cookie_value(pin: str | None, now: float) -> str | None:
    r = rng.random()
    if r < 0.05:
        return None
    if r < 0.1:
        return rng.choice(["", "|", "||", "novalue", str(int(now)), hash_pin(pin or "x")])
    sep = "|" if rng.random() < 0.9 else rng.choice(["", "||", ":", " | ", "%7C"])
    return f"{rand_ts(now)}{sep}{rand_hash(pin)}"


def rand_cookie_header(pin: str | None, now: float, name: str) -> str | None:
    val = rand_cookie_value(pin, now)
    if val is None:
        return None if rng.random() < 0.5 else "other=1"
    if rng.random() < 0.2:
        val = f'"{val}"'
    parts = [f"{name}={val}"]
    if rng.random() < 0.2:
        parts.insert(0, "a=b")
    if rng.random() < 0.1:
        parts.append(f"{name}={rand_cookie_value(pin, now) or ''}")
    if rng.random() < 0.05:
        parts = [f"{name}x={val}"]
    return "; ".join(parts)


count = mismatch = 0


def compare(kind: str, a: t.Any, b: t.Any, ctx: t.Any) -> None:
    global count, mismatch
    count += 1
    if a != b or (a[0] == "ok" and type(a[1]) is not type(b[1])):
        mismatch += 1
        if mismatch < 20:
            print("MISMATCH", kind, ctx, a, b)


outcomes: dict[str, int] = {}

# 1. check_pin_trust directly
orig, new = make_apps(None)

for _ in range(20000):
    pin = rng.choice(PINS)
    orig._pin = new._pin = pin  # type: ignore[assignment]
    NOW[0] = rng.choice([1_700_000_000.25, 1_700_000_000.0, 1_700_000_000.999, 5.0])
    header = rand_cookie_header(pin, NOW[0], "__wzdtest")
    environ = {"HTTP_COOKIE": header} if header is not None else {}
    a = run(orig.check_pin_trust, dict(environ))
    b = run(new.check_pin_trust, dict(environ))
    outcomes[repr(a[:2])] = outcomes.get(repr(a[:2]), 0) + 1
    compare("check_pin_trust", a, b, (pin, header, NOW[0]))


# 2. through the WSGI entry point: pinauth / console / eval sequences
def call(app: DebuggedApplication, environ: dict[str, t.Any]) -> t.Any:
    status_headers: list[t.Any] = []

    def start_response(status, headers, exc_info=None):
        status_headers.append((status, sorted(headers)))

    body = b"".join(app(environ, start_response))
    return status_headers, body


for seq in range(400):
    pin = rng.choice(["123-456-789", "000-000-000", None])
    orig, new = make_apps(pin)
    for app in (orig, new):
        app.frames[7] = dbg._ConsoleFrame({"app": app.app, "x": 41})
    NOW[0] = 1_700_000_000.25
    for _ in range(15):
        NOW[0] += rng.choice([0, 1, 3600, PIN_TIME // 2])
        host = rng.choice(["localhost", "127.0.0.1:5000", "evil.com", "a.localhost"])
        kind = rng.choice(["pinauth", "eval", "console", "printpin", "app"])
        if kind == "pinauth":
            entered = rng.choice([pin or "x", "999-999-999", "123456789", " 000000000 "])
            path = "/"
            qs = {"__debugger__": "yes", "cmd": "pinauth", "pin": entered, "s": "sekrit"}
        elif kind == "eval":
            path = "/"
            qs = {
                "__debugger__": "yes",
                "cmd": "x + 1",
                "frm": rng.choice(["7", "8"]),
                "s": rng.choice(["sekrit", "wrong"]),
            }
        elif kind == "printpin":
            path = "/"
            qs = {"__debugger__": "yes", "cmd": "printpin", "s": "sekrit"}
        elif kind == "console":
            path, qs = "/console", {}
        else:
            path, qs = "/", {}
        headers = {"Host": host}
        cookie = rand_cookie_header(pin, NOW[0], "__wzdtest")
        results = []
        for app in (orig, new):
            env = EnvironBuilder(path=path, query_string=qs, headers=headers).get_environ()
            if cookie is not None:
                env["HTTP_COOKIE"] = cookie
            results.append(run(call, app, env))
            results[-1] = (results[-1], app._failed_pin_auth.value)
        compare("wsgi", ("ok", results[0]), ("ok", results[1]), (pin, kind, qs, headers, cookie))

print(outcomes)
print(f"{count} cases, {mismatch} mismatches")
print("PASS" if mismatch == 0 else "FAIL")
