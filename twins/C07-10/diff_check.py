"""Differential check for refactoring 1 (http.parse_range_header).

Run as:
  cd /tmp/wt10-C07 && PYTHONPATH=/tmp/wt10-C07/src /venv/bin/python /tmp/twin6-C07/1/diff_check.py
"""

from __future__ import annotations

import random

from werkzeug import datastructures as ds
from werkzeug._internal import _plain_int
from werkzeug.http import parse_range_header as new_parse_range_header


# ---- verbatim copy of the ORIGINAL implementation -------------------------
def orig_parse_range_header(value, make_inclusive=True):
    if not value or "=" not in value:
        return None

    ranges = []
    last_end = 0
    units, rng = value.split("=", 1)
    units = units.strip().lower()

    for item in rng.split(","):
        item = item.strip()
        if "-" not in item:
            return None
        if item.startswith("-"):
            if last_end < 0:
                return None
            try:
                begin = _plain_int(item)
            except ValueError:
                return None
            end = None
            last_end = -1
        elif "-" in item:
            begin_str, end_str = item.split("-", 1)
            begin_str = begin_str.strip()
            end_str = end_str.strip()

            try:
                begin = _plain_int(begin_str)
            except ValueError:
                return None

            if begin < last_end or last_end < 0:
                return None
            if end_str:
                if end_str.startswith("-"):
                    # _plain_int accepts a sign, a position does not have one
                    return None

                try:
                    end = _plain_int(end_str) + 1
                except ValueError:
                    return None

                if begin >= end:
                    return None
            else:
                end = None
            last_end = end if end is not None else -1
        ranges.append((begin, end))

    return ds.Range(units, ranges)


# ---------------------------------------------------------------------------


def outcome(func, *args):
    try:
        rv = func(*args)
    except BaseException as e:  # noqa: B036
        return ("exc", type(e).__name__, str(e))

    if rv is None:
        return ("none",)

    assert type(rv) is ds.Range
    return ("range", rv.units, list(rv.ranges), [type(x) for r in rv.ranges for x in r])


rnd = random.Random(0xC07)

NUMS = [
    "0", "1", "2", "5", "9", "10", "99", "100", "499", "500", "1000", "-1", "-5",
    "-0", "+1", "+5", "1_0", "٣", "１２", "²", " 7", "7 ", "\t3", "", " ", "a",
    "0x10", "1.5", "1e3", "--1", "- 1", "00", "007", "9" * 30, "-" + "9" * 30,
]
UNITS = ["bytes", "BYTES", " bytes ", "items", "", " ", "by=tes", "bytes=", "Bytes\t", "é"]
SEPS = [",", ", ", " ,", " , ", ",,", ";", " "]
ALPHABET = list("0123456789-=, \tbytesB+_a*/;\"٣１") + ["\n", "\x00", "é", " "]


def gen_item():
    k = rnd.random()
    if k < 0.35:
        return f"{rnd.choice(NUMS)}-{rnd.choice(NUMS)}"
    if k < 0.5:
        return f"{rnd.choice(NUMS)}-"
    if k < 0.65:
        return f"-{rnd.choice(NUMS)}"
    if k < 0.75:
        return f"{rnd.choice(NUMS)} - {rnd.choice(NUMS)}"
    if k < 0.8:
        return rnd.choice(NUMS)
    if k < 0.85:
        return f"{rnd.choice(NUMS)}-{rnd.choice(NUMS)}-{rnd.choice(NUMS)}"
    if k < 0.9:
        return "-"
    return "".join(rnd.choice(ALPHABET) for _ in range(rnd.randint(0, 6)))


def gen_sorted_items():
    # mostly-valid ascending ranges so that multi item paths are exercised
    pos = rnd.randint(0, 20)
    items = []
    for _ in range(rnd.randint(1, 5)):
        a = pos + rnd.randint(-2, 30)
        b = a + rnd.randint(-2, 50)
        pos = b + rnd.randint(-1, 10)
        k = rnd.random()
        if k < 0.7:
            items.append(f"{a}-{b}")
        elif k < 0.85:
            items.append(f"{a}-")
        else:
            items.append(f"-{abs(b)}")
    return items


def gen_value():
    k = rnd.random()
    if k < 0.45:
        items = [gen_item() for _ in range(rnd.randint(0, 4))]
        return rnd.choice(UNITS) + "=" + rnd.choice(SEPS).join(items)
    if k < 0.8:
        return rnd.choice(UNITS) + "=" + rnd.choice(SEPS[:4]).join(gen_sorted_items())
    if k < 0.9:
        return "".join(rnd.choice(ALPHABET) for _ in range(rnd.randint(0, 14)))
    # no "=" at all / several "="
    items = [gen_item() for _ in range(rnd.randint(0, 3))]
    return rnd.choice(["", "=", "==", "bytes", "bytes=="]) + ",".join(items)


FIXED = [
    None, "", "=", "bytes", "bytes=", "bytes=-", "bytes=0-", "bytes=-5", "bytes=0-0",
    "bytes=0-499", "bytes=0-499,500-999", "bytes=500-,0-10", "bytes=-5,0-10",
    "bytes=0-10,-5", "bytes=-5,-6", "bytes=0-10,5-20", "bytes=0-10,11-", "bytes=5-4",
    "bytes=5-5", "bytes = 1 - 2 , 3 - 4", "awesome=0-999", "bytes=a-b", "bytes=--5",
    "bytes=-5-", "bytes=0--5", "bytes=1-2-3", "bytes=0-10,", "bytes=,0-10",
    "bytes=+1-5", "bytes=1_0-20", "bytes=٣-٤", "a=b=0-1", "=0-1", " = 0-1",
    "bytes=0-99999999999999999999999999", "bytes=-0", "bytes=0-\n5", "bytes=\x000-5",
]


def main():
    cases = list(FIXED) + [gen_value() for _ in range(60000)]
    seen = {}
    mismatches = 0

    for value in cases:
        for extra in ((), (True,), (False,)):
            a = outcome(orig_parse_range_header, value, *extra)
            b = outcome(new_parse_range_header, value, *extra)
            seen[a[0]] = seen.get(a[0], 0) + 1

            if a != b:
                mismatches += 1
                if mismatches <= 10:
                    print("MISMATCH", repr(value), extra, a, b)

    print("cases:", len(cases) * 3, "outcome kinds:", seen)
    # make sure the generator reaches all interesting outcomes
    assert seen.get("range", 0) > 1000 and seen.get("none", 0) > 1000, seen
    print("PASS" if mismatches == 0 else f"FAIL ({mismatches} mismatches)")


if __name__ == "__main__":
    main()
