"""Differential check for refactoring 3 (Range.to_header loop -> generator over a
private _dump_range helper; ContentRange.to_header if/else -> conditional
expression).

Run: cd /tmp/wt12-C06 && PYTHONPATH=/tmp/wt12-C06/src /venv/bin/python /tmp/twin7-C06/3/diff_check.py
"""

from __future__ import annotations

import random
import typing as t

from werkzeug import http
from werkzeug.datastructures import ContentRange
from werkzeug.datastructures import Range


# ---- ORIGINAL implementations (copied from the unmodified tree) -------------
def orig_range_to_header(self) -> str:
    ranges = []
    for begin, end in self.ranges:
        if end is None:
            ranges.append(f"{begin}-" if begin >= 0 else str(begin))
        else:
            ranges.append(f"{begin}-{end - 1}")
    return f"{self.units}={','.join(ranges)}"


def orig_content_range_to_header(self) -> str:
    if self._units is None:
        return ""
    if self._length is None:
        length: str | int = "*"
    else:
        length = self._length
    if self._start is None:
        return f"{self._units} */{length}"
    return f"{self._units} {self._start}-{self._stop - 1}/{length}"


def run(func: t.Callable, *args: t.Any) -> tuple:
    try:
        return ("ok", func(*args))
    except Exception as e:  # noqa: BLE001
        return ("exc", type(e), str(e))


def snap_range(r: t.Any) -> t.Any:
    return None if r is None else (r.units, list(r.ranges))


def snap_cr(r: t.Any) -> t.Any:
    return None if r is None else (r.units, r.start, r.stop, r.length)


ODD = [None, float("nan"), 1.5, -2.5, True, False, "3", "x", (), [1], 10**30, -(10**30)]


def rand_bound(rng: random.Random, allow_none: bool) -> t.Any:
    r = rng.random()
    if allow_none and r < 0.3:
        return None
    if r < 0.4:
        return rng.choice(ODD)
    return rng.randint(-50, 200)


def main() -> None:
    rng = random.Random(60603)
    n = mismatches = rt = 0

    # ---- Range.to_header ------------------------------------------------------
    for _ in range(30000):
        units = rng.choice(["bytes", "items", "", "Bytes", None, 5])
        ranges: list[t.Any] = []
        if rng.random() < 0.6:
            # valid ascending ranges, last may be open ended or a suffix
            pos = 0
            for _i in range(rng.randint(0, 4)):
                start = pos + rng.randint(0, 20)
                stop = start + rng.randint(1, 20)
                ranges.append((start, stop))
                pos = stop
            k = rng.random()
            if k < 0.2:
                ranges.append((pos + rng.randint(0, 5), None))
            elif k < 0.4:
                ranges.append((-rng.randint(0, 30), None))
        else:
            for _i in range(rng.randint(0, 4)):
                ranges.append((rand_bound(rng, False), rand_bound(rng, True)))
            if rng.random() < 0.1:
                ranges.append(rng.choice([(1,), (1, 2, 3), 5, None, "ab", "abc"]))

        made = run(Range, units, ranges)
        if made[0] == "ok":
            obj = made[1]
        else:
            # bypass validation, the attribute is public and mutable
            obj = Range("bytes", [])
            obj.units = units
            obj.ranges = ranges

        a = run(orig_range_to_header, obj)
        b = run(Range.to_header, obj)
        c = run(str, obj)
        n += 1
        if a != b or a != c:
            mismatches += 1
            print("Range.to_header mismatch", units, ranges, a, b, c)
        elif a[0] == "ok":
            # serialise -> parse is unchanged as well
            p_old = snap_range(http.parse_range_header(a[1]))
            p_new = snap_range(http.parse_range_header(b[1]))
            rt += 1
            if p_old != p_new:
                mismatches += 1
                print("Range round trip mismatch", a[1])

    # generators / tuples as the ranges container
    for _ in range(2000):
        items = [(i * 10, i * 10 + rng.randint(1, 9)) for i in range(rng.randint(0, 4))]
        for make in (tuple, list):
            obj = Range("bytes", make(items))
            a, b = run(orig_range_to_header, obj), run(Range.to_header, obj)
            n += 1
            if a != b:
                mismatches += 1
                print("Range container mismatch", items, a, b)

    # ---- ContentRange.to_header ---------------------------------------------
    for _ in range(30000):
        units = rng.choice(["bytes", "bytes", "items", "", None, 7])
        if rng.random() < 0.7:
            length = rng.choice([None, rng.randint(0, 300)])
            if rng.random() < 0.25:
                start = stop = None
            else:
                start = rng.randint(0, 150)
                stop = start + rng.randint(-2, 150)
        else:
            start = rand_bound(rng, True)
            stop = rand_bound(rng, True)
            length = rand_bound(rng, True)

        made = run(ContentRange, units, start, stop, length)
        if made[0] == "ok":
            obj = made[1]
        else:
            obj = ContentRange("bytes", 0, 1, 1)
            obj._units, obj._start, obj._stop, obj._length = units, start, stop, length

        a = run(orig_content_range_to_header, obj)
        b = run(ContentRange.to_header, obj)
        c = run(str, obj)
        n += 1
        if a != b or a != c:
            mismatches += 1
            print("ContentRange.to_header mismatch", units, start, stop, length, a, b)
        elif a[0] == "ok":
            p_old = snap_cr(http.parse_content_range_header(a[1]))
            p_new = snap_cr(http.parse_content_range_header(b[1]))
            rt += 1
            if p_old != p_new:
                mismatches += 1
                print("ContentRange round trip mismatch", a[1])

    # parse -> dump -> parse normal form through the real parsers
    for _ in range(5000):
        a0 = rng.randint(0, 50)
        a1 = a0 + rng.randint(0, 50)
        total = rng.choice(["*", str(a1 + rng.randint(-2, 20))])
        header = rng.choice([f"bytes {a0}-{a1}/{total}", f"bytes */{total}"])
        parsed = http.parse_content_range_header(header)
        if parsed is not None:
            a = run(orig_content_range_to_header, parsed)
            b = run(ContentRange.to_header, parsed)
            n += 1
            if a != b:
                mismatches += 1
                print("parsed ContentRange mismatch", header, a, b)

        rh = f"bytes={a0}-{a1}," + rng.choice([f"{a1 + 1}-", f"-{a0}", f"{a1 + 5}-{a1 + 9}"])
        parsed_r = http.parse_range_header(rh)
        if parsed_r is not None:
            a, b = run(orig_range_to_header, parsed_r), run(Range.to_header, parsed_r)
            n += 1
            if a != b:
                mismatches += 1
                print("parsed Range mismatch", rh, a, b)

    print(f"{n} comparisons ({rt} round trips), {mismatches} mismatches")
    print("PASS" if mismatches == 0 and rt > 5000 else "FAIL")


if __name__ == "__main__":
    main()
