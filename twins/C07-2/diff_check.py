"""Differential check for refactoring 2 (cookie parsing).

Run: cd /tmp/wt3-C07 && PYTHONPATH=/tmp/wt3-C07/src /venv/bin/python /tmp/twin-C07/2/diff_check.py
"""
import itertools
import random
import re

from werkzeug import datastructures as ds
from werkzeug import http as new_http
from werkzeug.sansio import http as new_sansio

# ---------------------------------------------------------------- original code
_cookie_re = re.compile(
    r"""
    ([^=;]*)
    (?:\s*=\s*
      (
        "(?:[^\\"]|\\.)*"
      |
        .*?
      )
    )?
    \s*;\s*
    """,
    flags=re.ASCII | re.VERBOSE,
)
_cookie_unslash_re = re.compile(rb"\\([0-3][0-7]{2}|.)")


def _cookie_unslash_replace(m):
    v = m.group(1)

    if len(v) == 1:
        return v

    return int(v, 8).to_bytes(1, "big")


def orig_sansio_parse_cookie(cookie=None, cls=None):
    if cls is None:
        cls = ds.MultiDict

    if not cookie:
        return cls()

    cookie = f"{cookie};"
    out = []

    for ck, cv in _cookie_re.findall(cookie):
        ck = ck.strip()
        cv = cv.strip()

        if not ck:
            continue

        if len(cv) >= 2 and cv[0] == cv[-1] == '"':
            # Work with bytes here, since a UTF-8 character could be multiple bytes.
            cv = _cookie_unslash_re.sub(
                _cookie_unslash_replace, cv[1:-1].encode()
            ).decode(errors="replace")

        out.append((ck, cv))

    return cls(out)


def orig_http_parse_cookie(header, cls=None):
    if isinstance(header, dict):
        cookie = header.get("HTTP_COOKIE")
    else:
        cookie = header

    if cookie:
        cookie = cookie.encode("latin1").decode(errors="replace")

    return orig_sansio_parse_cookie(cookie=cookie, cls=cls)


# -------------------------------------------------------------------- harness
def norm(r):
    if isinstance(r, ds.MultiDict):
        return (type(r), list(r.items(multi=True)))
    if isinstance(r, dict):
        return (type(r), list(r.items()))
    return (type(r), r)


def run(f, *a, **kw):
    try:
        return ("OK", norm(f(*a, **kw)))
    except BaseException as e:  # noqa: B036
        return ("EXC", type(e), str(e))


ATOMS = [
    "", " ", "\t", ";", ";;", "; ", "=", "==", " = ", "a", "b", "a=b", "a=", "=b", "a =b",
    'a="b"', 'a="', 'a=""', 'a="b', 'a=b"', 'a="b\\"c"', 'a="\\054"', 'a="\\377"',
    'a="\\400"', 'a="\\08"', 'a="\\\\"', 'a="\\', 'a="\\"', 'a="x;y"', 'a="x";', '"a"="b"',
    '"', '""', '\\', "\\\\", "a=b; c=d", "a=b;c", "a; b", "a=b=c", "é=ü", "a=é",
    'a="é"', 'a="\\303\\251"', 'a="\\303"', "a=\udc80", 'a="\udc80"', "\x00", "a=\x00",
    'a="\x00"', "\n", "a=b\nc=d", "a=b\r\n", "\x85", "\xa0", " a = b ", ' a = "b" ',
    'a=" b "', "a= \"b\" ; c", " ", "a=€", 'a="€"', "a=\xff", 'a="\xff"',
    'a="\\1"', 'a="\\12"', 'a="\\123"', 'a="\\1234"', 'a="\\n"', "a='b'", "ａ=ｂ",
]
ALPHABET = list('ab=;" \\\t01237é\xff\x00\n,') + ['="', '";', "\\0", "\\3", '\\"', "; "]


def gen(rng):
    yield from ATOMS
    for a, b in itertools.product(ATOMS, repeat=2):
        yield a + b
        yield a + ";" + b
        yield a + "; " + b
    for _ in range(40000):
        yield "".join(rng.choice(ALPHABET) for _ in range(rng.randint(0, 16)))
    for _ in range(20000):
        pairs = []
        for _ in range(rng.randint(0, 5)):
            k = "".join(rng.choice("abc \t\"\\é") for _ in range(rng.randint(0, 3)))
            v = "".join(rng.choice(ALPHABET) for _ in range(rng.randint(0, 6)))
            style = rng.randint(0, 4)
            if style == 0:
                pairs.append(f"{k}={v}")
            elif style == 1:
                pairs.append(f'{k}="{v}"')
            elif style == 2:
                pairs.append(f'{k} = "{v}" ')
            elif style == 3:
                pairs.append(k)
            else:
                pairs.append(f'{k}="{v}')
        yield rng.choice([";", "; ", " ;"]).join(pairs)


class MyMulti(ds.MultiDict):
    pass


def main():
    rng = random.Random(7072)
    n = bad = 0
    kinds = {"OK": 0, "EXC": 0}
    nonempty = 0
    special = [None, 0, b"", b"a=b", {}, {"HTTP_COOKIE": None}, {"HTTP_COOKIE": ""}, 5, ["a=b"]]

    def cmp(tag, a, b, v):
        nonlocal n, bad, nonempty
        n += 1
        kinds[a[0]] += 1
        if a[0] == "OK" and a[1][1]:
            nonempty += 1
        if a != b:
            bad += 1
            if bad <= 10:
                print("MISMATCH", tag, repr(v), a, b)

    for v in special:
        cmp("http", run(orig_http_parse_cookie, v), run(new_http.parse_cookie, v), v)
        cmp("sansio", run(orig_sansio_parse_cookie, v), run(new_sansio.parse_cookie, v), v)

    for i, v in enumerate(gen(rng)):
        cmp("sansio", run(orig_sansio_parse_cookie, v), run(new_sansio.parse_cookie, v), v)
        cmp("http", run(orig_http_parse_cookie, v), run(new_http.parse_cookie, v), v)
        env = {"HTTP_COOKIE": v, "OTHER": "x"}
        cmp("http-env", run(orig_http_parse_cookie, env), run(new_http.parse_cookie, env), v)
        if i % 7 == 0:
            for cls in (dict, MyMulti, ds.OrderedMultiDict if hasattr(ds, "OrderedMultiDict") else MyMulti, list):
                cmp(
                    "sansio-cls",
                    run(orig_sansio_parse_cookie, v, cls),
                    run(new_sansio.parse_cookie, v, cls),
                    v,
                )
                cmp(
                    "http-cls",
                    run(orig_http_parse_cookie, v, cls=cls),
                    run(new_http.parse_cookie, v, cls=cls),
                    v,
                )

    # the private replace callback, on every possible escape
    for m in _cookie_unslash_re.finditer(
        b"".join(b"\\" + bytes([c]) for c in range(256))
        + b"".join(b"\\%03o" % c for c in range(256))
        + b"\\400\\399\\08\\1\\"
    ):
        cmp(
            "unslash",
            run(_cookie_unslash_replace, m),
            run(new_sansio._cookie_unslash_replace, m),
            m.group(),
        )

    print(f"comparisons={n} outcomes={kinds} nonempty_results={nonempty} mismatches={bad}")
    print("PASS" if bad == 0 and nonempty > 5000 and n > 5000 else "FAIL")


if __name__ == "__main__":
    import warnings

    warnings.simplefilter("ignore")
    main()
